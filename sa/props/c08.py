"""C08 - relative date expressions are calendar arithmetic on the reference date.

Decided (necessary conditions):
  C08.unit_delta   AgoLaterUtil.get_date_result: unit letter -> (delta field, multiplier) table of the if/elif chain equals
                   {D days*1, W days*7, MON months*1, Y years*1, H hours*1, M minutes*1, S seconds*1}, every delta is
                   num*swift, value starts at `reference`, both result values are that value
                   (+ the Chinese parser's own before/after chain for D and W)
  C08.polarity     swift is +1 exactly when is_future (evaluated by a small AST interpreter)
  C08.agolater     get_ago_later_result: ago branch -> is_future False + BEFORE_MOD, later/in branch -> True + AFTER_MOD
  C08.weekday      DateUtils.this/next/last, interpreted over every (date, weekday) of two weeks, give the day of the
                   same ISO week / +7 / -7
  C08.implicit     parse_implicit_date: next_regex -> DateUtils.next, last_regex -> last, this_regex -> this,
                   special day -> today + timedelta(days=swift); the `today` value is the reference's y/m/d
  C08.period       _parse_one_word_period: week shift = 7*swift days, month shift = swift months, year = swift years
  C08.wiring       per culture the next/last/this slots are wired to resource regexes that accept the culture's
                   next/last/this word (value based) and siblings agree on the resource name
  C08.specialday   today/tomorrow/yesterday(+2/-2) lexicon evaluated through each culture's get_swift_day
  C08.swift        sibling cross-check of every get_swift* implementation: next-guard -> positive, past-guard -> negative,
                   this-guard -> 0, same resource-name guard -> same magnitude across cultures, same guard -> same sign
                   within a culture
  C08.datetimex    the date TIMEX of today/tomorrow/yesterday, this/next/last <weekday>, N days|weeks ago/later is the
                   year-month-day of the value's calendar date: DateTimeFormatUtil.luis_date_from_datetime and the branches
                   that store value + TIMEX are interpreted at year boundaries (ISO week-year != calendar year on 29-31 Dec /
                   1-3 Jan); strftime is expanded by the host's datetime on the modelled value (numeric directives only)
  C08.weekdaykeys  every key of the wired weekday table that spells a weekday (abbreviation/plural/accent/dotted variant of a
                   reference name, CJK by last character) and is accepted in a this/next/last phrase resolves to that weekday
"""
import ast
import datetime as _dt
import re as _re

from .. import rx
from ..core import AnalysisError
from ..index import get_index
from .c06 import (CULTURES, DT, PyPattern, Taint, Wiring, _bind, _callee_name, _is_name, _param_names,
                  class_consts)

LEVEL = 'other'
DESIGN_REF = 'DESIGN.md#c08'


# =====================================================================================================
# a small interpreter for straight-line/branching helper methods (checker's own semantics; nothing from
# the repository is imported or executed - the AST is read and evaluated over str/int/bool/datetime)
# =====================================================================================================

class Undetermined(Exception):
    pass


class _Return(Exception):
    def __init__(self, v):
        self.v = v


class _Continue(Exception):
    pass


class _Break(Exception):
    pass


class _Raised(Exception):
    """a Python exception the interpreted code would raise (ValueError from datetime(...)), catchable by an interpreted try"""

    def __init__(self, exc):
        self.exc = exc


_STR_METHODS = {'strip', 'lower', 'upper', 'endswith', 'startswith', 'replace', 'lstrip', 'rstrip', 'split', 'find',
                'isnumeric', 'isdigit', 'casefold', 'title', '__contains__', 'rfind', 'index', 'isspace', 'count'}
_DT_METHODS = {'isoweekday', 'weekday', 'date', 'isocalendar', 'replace'}
_STRFTIME_DIRECTIVES = set('YGmdHMSVujyf%')


class MiniEval:
    def __init__(self, idx, owner=None, resolver=None, depth=0, globals_=None):
        self.idx = idx
        self.owner = owner          # index.Cls for self.<method> / Cls.<method> calls
        self.resolver = resolver    # callable(ast expr) -> python value or raise Undetermined
        self.depth = depth
        self.globals = globals_ or {}

    def call(self, fn, args):
        params = [a.arg for a in fn.args.args]
        if params and params[0] in ('self', 'cls') and not any(
                isinstance(d, ast.Name) and d.id == 'staticmethod' for d in fn.decorator_list):
            params = params[1:]
        elif params and params[0] in ('self', 'cls'):
            params = params[1:]
        if len(args) > len(params):
            raise Undetermined('too many arguments for %s' % fn.name)
        env = dict(zip(params, args))
        defaults = fn.args.defaults
        for p, d in zip(params[len(params) - len(defaults):], defaults):
            if p not in env:
                env[p] = self.expr(d, {})
        for p in params:
            if p not in env:
                raise Undetermined('missing argument %s for %s' % (p, fn.name))
        try:
            self.block(fn.body, env)
        except _Return as r:
            return r.v
        except _Raised as r:
            if self.depth == 0:
                raise Undetermined('interpreted code raises %s' % type(r.exc).__name__)
            raise
        return None

    def block(self, stmts, env):
        for st in stmts:
            if isinstance(st, ast.Assign):
                v = self.expr(st.value, env)
                for t in st.targets:
                    self.assign(t, v, env)
            elif isinstance(st, ast.AnnAssign):
                if st.value is not None:
                    self.assign(st.target, self.expr(st.value, env), env)
            elif isinstance(st, ast.AugAssign):
                cur = self.expr(ast.Name(id=st.target.id, ctx=ast.Load()), env) if isinstance(st.target, ast.Name) else None
                if cur is None:
                    raise Undetermined('augmented assignment target')
                env[st.target.id] = self.binop(st.op, cur, self.expr(st.value, env))
            elif isinstance(st, ast.If):
                if self.truth(self.expr(st.test, env)):
                    self.block(st.body, env)
                else:
                    self.block(st.orelse, env)
            elif isinstance(st, ast.Return):
                raise _Return(self.expr(st.value, env) if st.value is not None else None)
            elif isinstance(st, ast.Expr):
                if isinstance(st.value, ast.Constant):
                    continue
                self.expr(st.value, env)
            elif isinstance(st, (ast.Pass, ast.Import, ast.ImportFrom)):
                continue          # function-level imports: the names are resolved through the index when they are used
            elif isinstance(st, ast.For) and not st.orelse:
                seq = self.expr(st.iter, env)
                if isinstance(seq, _Unknown) or not isinstance(seq, (list, tuple, str, dict)):
                    raise Undetermined('iteration over %s' % ast.unparse(st.iter)[:40])
                for item in list(seq):
                    self.assign(st.target, item, env)
                    try:
                        self.block(st.body, env)
                    except _Continue:
                        continue
                    except _Break:
                        break
            elif isinstance(st, ast.Continue):
                raise _Continue()
            elif isinstance(st, ast.Break):
                raise _Break()
            elif isinstance(st, ast.Try) and not st.finalbody:
                try:
                    self.block(st.body, env)
                except _Raised as r:
                    for h in st.handlers:
                        names = []
                        if h.type is None:
                            names = [type(r.exc).__name__]
                        elif isinstance(h.type, ast.Name):
                            names = [h.type.id]
                        elif isinstance(h.type, ast.Tuple):
                            names = [x.id for x in h.type.elts if isinstance(x, ast.Name)]
                        if type(r.exc).__name__ in names or 'Exception' in names:
                            self.block(h.body, env)
                            break
                    else:
                        raise
                else:
                    self.block(st.orelse, env)
            else:
                raise Undetermined('statement %s' % type(st).__name__)

    def assign(self, t, v, env):
        if isinstance(t, ast.Name):
            env[t.id] = v
        elif isinstance(t, (ast.Tuple, ast.List)) and isinstance(v, (tuple, list)) and len(v) == len(t.elts):
            for a, b in zip(t.elts, v):
                self.assign(a, b, env)
        elif isinstance(t, ast.Attribute) and isinstance(t.value, ast.Name):
            env['%s.%s' % (t.value.id, t.attr)] = v          # attribute store on a local object: kept under 'obj.attr'
            if isinstance(env.get(t.value.id), Obj):
                setattr(env[t.value.id], t.attr, v)
        elif isinstance(t, ast.Attribute):
            base = self.expr(t.value, env)
            if not isinstance(base, Obj):
                raise Undetermined('assignment target %s' % ast.unparse(t))
            setattr(base, t.attr, v)
        else:
            raise Undetermined('assignment target %s' % ast.unparse(t))

    @staticmethod
    def truth(v):
        if isinstance(v, _Unknown):
            raise Undetermined(v.why)
        return bool(v)

    def binop(self, op, a, b):
        for x in (a, b):
            if isinstance(x, _Unknown):
                raise Undetermined(x.why)
        try:
            if isinstance(op, ast.Add):
                if isinstance(a, (list, tuple)) and isinstance(b, (list, tuple)) and type(a) is not type(b):
                    return list(a) + list(b)
                return a + b
            if isinstance(op, ast.Sub):
                return a - b
            if isinstance(op, ast.Mult):
                return a * b
            if isinstance(op, ast.Mod):
                return a % b
            if isinstance(op, ast.FloorDiv):
                return a // b
            if isinstance(op, ast.Div):
                return a / b
        except Exception as e:
            raise Undetermined('arithmetic failed: %s' % e)
        raise Undetermined('operator %s' % type(op).__name__)

    def expr(self, e, env):
        if isinstance(e, ast.Constant):
            return e.value
        if isinstance(e, ast.Name):
            if e.id in env:
                return env[e.id]
            if e.id in self.globals:
                return self.globals[e.id]
            if self.owner is not None and getattr(self.owner, 'mod', None) is not None:
                # module-level constant of the owner's module (followed through imports)
                r = self.idx.resolve(self.owner.mod, e.id)
                if r and r[0] == 'const':
                    sub = MiniEval(self.idx, self.owner, self.resolver, self.depth + 1, self.globals)
                    return sub.expr(r[2], {})
            raise Undetermined('name %s' % e.id)
        if isinstance(e, (ast.List, ast.Tuple)):
            out = []
            for x in e.elts:
                if isinstance(x, ast.Starred):
                    seq = self.expr(x.value, env)
                    if not isinstance(seq, (list, tuple)):
                        raise Undetermined('starred element %s' % ast.unparse(x)[:40])
                    out.extend(seq)
                else:
                    out.append(self.expr(x, env))
            return tuple(out) if isinstance(e, ast.Tuple) else out
        if isinstance(e, ast.Dict) and all(k is not None for k in e.keys):
            try:
                return {self.expr(k, env): self.expr(v, env) for k, v in zip(e.keys, e.values)}
            except TypeError as ex:
                raise Undetermined('dict literal: %s' % ex)
        if isinstance(e, ast.Lambda):
            return _Lambda(e, dict(env))
        if isinstance(e, ast.UnaryOp):
            v = self.expr(e.operand, env)
            if isinstance(e.op, ast.Not):
                return not self.truth(v)
            if isinstance(e.op, ast.USub) and isinstance(v, (int, float)):
                return -v
            raise Undetermined('unary operator')
        if isinstance(e, ast.BoolOp):
            last = None
            for x in e.values:
                last = self.expr(x, env)
                t = self.truth(last)
                if isinstance(e.op, ast.Or) and t:
                    return last
                if isinstance(e.op, ast.And) and not t:
                    return last
            return last
        if isinstance(e, ast.IfExp):
            return self.expr(e.body if self.truth(self.expr(e.test, env)) else e.orelse, env)
        if isinstance(e, ast.BinOp):
            return self.binop(e.op, self.expr(e.left, env), self.expr(e.right, env))
        if isinstance(e, ast.Compare):
            left = self.expr(e.left, env)
            for op, rhs in zip(e.ops, e.comparators):
                right = self.expr(rhs, env)
                for x in (left, right):
                    if isinstance(x, _Unknown):
                        raise Undetermined(x.why)
                try:
                    if isinstance(op, ast.Eq):
                        r = left == right
                    elif isinstance(op, ast.NotEq):
                        r = left != right
                    elif isinstance(op, ast.In):
                        r = left in right
                    elif isinstance(op, ast.NotIn):
                        r = left not in right
                    elif isinstance(op, ast.Lt):
                        r = left < right
                    elif isinstance(op, ast.LtE):
                        r = left <= right
                    elif isinstance(op, ast.Gt):
                        r = left > right
                    elif isinstance(op, ast.GtE):
                        r = left >= right
                    elif isinstance(op, ast.Is):
                        r = left is right
                    elif isinstance(op, ast.IsNot):
                        r = left is not right
                    else:
                        raise Undetermined('comparison operator')
                except TypeError as ex:
                    raise Undetermined('comparison failed: %s' % ex)
                if not r:
                    return False
                left = right
            return True
        if isinstance(e, (ast.GeneratorExp, ast.ListComp)) and len(e.generators) == 1 and isinstance(e.generators[0].target, ast.Name):
            g = e.generators[0]
            seq = self.expr(g.iter, env)
            if isinstance(seq, _Unknown) or not isinstance(seq, (list, tuple, str, dict)):
                raise Undetermined('iteration over %s' % ast.unparse(g.iter)[:40])
            out = []
            for item in seq:
                env2 = dict(env)
                env2[g.target.id] = item
                if all(self.truth(self.expr(c, env2)) for c in g.ifs):
                    out.append(self.expr(e.elt, env2))
            return out
        if isinstance(e, ast.Call):
            return self.callexpr(e, env)
        if isinstance(e, ast.Attribute):
            if isinstance(e.value, ast.Name) and '%s.%s' % (e.value.id, e.attr) in env:
                return env['%s.%s' % (e.value.id, e.attr)]
            if self.resolver is not None:
                try:
                    return self.resolver(e)
                except Undetermined:
                    pass
            if isinstance(e.value, ast.Name) and e.value.id not in env and self.owner is not None:
                # class-level constant (table of builders, compiled pattern ...) of the owner or of a class named here
                tgt = self.owner if e.value.id in ('self', 'cls') else self.idx.resolve_class(self.owner.mod, e.value)
                if tgt is None:
                    ks = self.idx.classes_by_name.get(e.value.id, [])
                    tgt = ks[0] if len(ks) == 1 else None
                if tgt is not None:
                    k, node = self.idx.class_attr(tgt, e.attr)
                    if node is not None:
                        sub = MiniEval(self.idx, k, self.resolver, self.depth + 1, self.globals)
                        sub.call_hook = self.call_hook
                        return sub.expr(node, {})
            base = self.expr(e.value, env)
            if isinstance(base, (_dt.datetime, _dt.date)) and e.attr in ('year', 'month', 'day', 'hour', 'minute', 'second'):
                return getattr(base, e.attr)
            if isinstance(base, _dt.timedelta) and e.attr in ('days', 'seconds'):
                return getattr(base, e.attr)
            if isinstance(base, Obj) and hasattr(base, e.attr):
                return getattr(base, e.attr)
            raise Undetermined('attribute %s' % ast.unparse(e))
        if isinstance(e, ast.JoinedStr):
            out = []
            for part in e.values:
                if isinstance(part, ast.Constant):
                    out.append(str(part.value))
                else:
                    v = self.expr(part.value, env)
                    if isinstance(v, _Unknown):
                        raise Undetermined(v.why)
                    spec = ''
                    if part.format_spec is not None:
                        spec = self.expr(part.format_spec, env)
                    try:
                        out.append(format(v, spec))
                    except Exception as ex:
                        raise Undetermined('format failed: %s' % ex)
            return ''.join(out)
        if isinstance(e, ast.Subscript):
            base = self.expr(e.value, env)
            if isinstance(e.slice, ast.Slice):
                key = slice(*[self.expr(x, env) if x is not None else None for x in (e.slice.lower, e.slice.upper, e.slice.step)])
            else:
                key = self.expr(e.slice, env)
            try:
                return base[key]
            except Exception as ex:
                raise Undetermined('subscript failed: %s' % ex)
        raise Undetermined('expression %s' % type(e).__name__)

    call_hook = None     # optional callable(call node, evaluated args, env) -> (handled, value): stubs for collaborators

    def callexpr(self, e, env):
        f = e.func
        args = [self.expr(a, env) for a in e.args]
        kwargs = {k.arg: self.expr(k.value, env) for k in e.keywords if k.arg}
        if self.call_hook is not None:
            handled, value = self.call_hook(e, args, env)
            if handled:
                return value
        for x in list(args) + list(kwargs.values()):
            if isinstance(x, _Unknown):
                raise Undetermined(x.why)
        if isinstance(f, ast.Name) and isinstance(env.get(f.id), _Lambda):
            lam = env[f.id]
            params = [a.arg for a in lam.node.args.args]
            if len(args) != len(params) or kwargs:
                raise Undetermined('lambda call shape')
            env2 = dict(lam.env)
            env2.update(zip(params, args))
            return self.expr(lam.node.body, env2)
        if isinstance(f, ast.Name) and f.id not in env and (f.id.endswith('Result') or f.id == 'ResolutionStartEnd') \
                and self.idx.classes_by_name.get(f.id):
            return Obj()          # construction of a result record (DateTimeResolutionResult(), DateTimeParseResult(x) ...)
        if isinstance(f, ast.Name):
            if f.id in ('int', 'len', 'str', 'bool', 'abs', 'float', 'tuple', 'list', 'min', 'max', 'round') and not kwargs:
                try:
                    return {'int': int, 'len': len, 'str': str, 'bool': bool, 'abs': abs, 'float': float, 'tuple': tuple,
                            'list': list, 'min': min, 'max': max, 'round': round}[f.id](*args)
                except Exception as ex:
                    raise Undetermined('%s() failed: %s' % (f.id, ex))
            if f.id == 'divmod' and len(args) == 2:
                try:
                    return list(divmod(*args))
                except Exception as ex:
                    raise Undetermined('divmod failed: %s' % ex)
            if f.id in ('any', 'all') and len(args) == 1 and isinstance(args[0], list):
                return (any if f.id == 'any' else all)(self.truth(x) for x in args[0])
            if f.id == 'datetime':
                try:
                    return _dt.datetime(*args, **kwargs)
                except (ValueError, TypeError, OverflowError) as ex:
                    raise _Raised(ex)
            if f.id == 'timedelta':
                return _dt.timedelta(*args, **kwargs)
            if f.id == 'datedelta':
                return DateDelta(**kwargs)
            raise Undetermined('call of %s' % f.id)
        if isinstance(f, ast.Attribute):
            if isinstance(f.value, ast.Name) and f.value.id == 'math' and f.attr in ('ceil', 'floor') and len(args) == 1:
                import math
                try:
                    return getattr(math, f.attr)(args[0])
                except Exception as ex:
                    raise Undetermined('math.%s failed: %s' % (f.attr, ex))
            # regex.search(P, s) / regex.match(P, s) / P.search(s)
            if f.attr in ('search', 'match') and self.resolver is not None:
                if isinstance(f.value, ast.Name) and f.value.id in ('regex', 're') and len(e.args) >= 2:
                    pat = self.pattern(e.args[0], env)
                    return self.regex(pat, f.attr, args[1])
                if len(e.args) == 1:
                    pat = self.pattern(f.value, env)
                    return self.regex(pat, f.attr, args[0])
            # self.method(...) / Class.method(...)
            if isinstance(f.value, ast.Name) and self.owner is not None:
                target = None
                if f.value.id in ('self', 'cls'):
                    target = self.owner
                else:
                    target = self.idx.resolve_class(self.owner.mod, f.value)
                    if target is None and f.value.id not in env:
                        # class imported inside the function body (`from .utilities import DateUtils`): unique name in the index
                        ks = self.idx.classes_by_name.get(f.value.id, [])
                        if len(ks) == 1:
                            target = ks[0]
                if target is not None:
                    k, fn = self.idx.find_method(target, f.attr)
                    if fn is None:
                        raise Undetermined('method %s.%s not found' % (target.name, f.attr))
                    if self.depth > 4:
                        raise Undetermined('call depth')
                    sub = MiniEval(self.idx, target if f.value.id not in ('self', 'cls') else self.owner, self.resolver,
                                   self.depth + 1, self.globals)
                    sub.call_hook = self.call_hook
                    return sub.call(fn, args)
            if isinstance(f.value, ast.Name) and f.value.id == 'str' and f.attr in ('isspace', 'lower', 'strip', 'upper') and len(args) == 1 \
                    and isinstance(args[0], str):
                return getattr(str, f.attr)(args[0])
            base = self.expr(f.value, env)
            if isinstance(base, _Match) and f.attr in ('group', 'start', 'end', 'groupdict'):
                try:
                    return getattr(base, f.attr)(*args)
                except Exception as ex:
                    raise Undetermined('match.%s failed: %s' % (f.attr, ex))
            if isinstance(base, list) and f.attr in ('append', 'extend', 'pop', 'index', 'count'):
                try:
                    return getattr(base, f.attr)(*args)
                except Exception as ex:
                    raise Undetermined('list.%s failed: %s' % (f.attr, ex))
            if isinstance(base, str) and f.attr in _STR_METHODS:
                if f.attr in ('startswith', 'endswith') and args and isinstance(args[0], list):
                    args = [tuple(args[0])] + list(args[1:])
                try:
                    return getattr(base, f.attr)(*args, **kwargs)
                except Exception as ex:
                    raise Undetermined('str.%s failed: %s' % (f.attr, ex))
            if isinstance(base, (_dt.datetime, _dt.date)) and f.attr == 'strftime':
                # the format is expanded by the host's own datetime.strftime on the modelled value; only the numeric,
                # locale-independent directives are read (anything else: not interpreted, fail closed)
                if len(args) != 1 or kwargs or not isinstance(args[0], str):
                    raise Undetermined('strftime call shape')
                for d in _re.findall(r'%(.?)', args[0]):
                    if d not in _STRFTIME_DIRECTIVES:
                        raise Undetermined('strftime directive %%%s' % d)
                try:
                    return base.strftime(args[0])
                except (ValueError, OverflowError) as ex:
                    raise _Raised(ex)
            if isinstance(base, (_dt.datetime, _dt.date)) and f.attr in _DT_METHODS:
                try:
                    return getattr(base, f.attr)(*args, **kwargs)
                except (ValueError, OverflowError, TypeError) as ex:
                    raise _Raised(ex)        # e.g. replace(year=...) on 29 February: the real code raises the same
            if isinstance(base, _dt.timedelta) and f.attr == 'total_seconds' and not args:
                return base.total_seconds()
            if isinstance(base, dict) and f.attr == 'get':
                return base.get(*args)
            raise Undetermined('call of %s' % ast.unparse(f)[:50])
        raise Undetermined('call shape')

    def pattern(self, node, env):
        if isinstance(node, ast.Name) and node.id in env and isinstance(env[node.id], str):
            return env[node.id]
        v = self.resolver(node)
        if not isinstance(v, str):
            raise Undetermined('pattern %s is not a string' % ast.unparse(node)[:40])
        return v

    _pycache = {}

    def regex(self, pat, how, text):
        if not isinstance(text, str):
            raise Undetermined('regex on a non-string')
        pp = MiniEval._pycache.get(pat)
        if pp is None:
            try:
                pp = PyPattern(pat)
            except rx.RxError as ex:
                raise Undetermined('pattern not translatable: %s' % ex)
            MiniEval._pycache[pat] = pp
        m = pp.re.search(text) if how == 'search' else pp.re.match(text)
        return _Match(m, pp) if m else None


class _Unknown:
    def __init__(self, why):
        self.why = why


class _Match:
    """stand-in for a match object of a translated pattern (group names are looked up through the translation)"""

    def __init__(self, m, pp=None):
        self.m = m
        self.pp = pp

    def __bool__(self):
        return True

    def group(self, name=None):
        if name is None or name == 0:
            return self.m.group()
        if isinstance(name, str) and self.pp is not None:
            return self.pp.group(self.m, name)
        return self.m.group(name)

    def start(self):
        return self.m.start()

    def end(self):
        return self.m.end()

    def groupdict(self):
        return {b: self.pp.group(self.m, b) for b in (self.pp.names if self.pp else {})}

    def __len__(self):
        return len(self.m.group())


class _Lambda:
    """a lambda met in interpreted code: parameters + body + the environment it closes over"""

    def __init__(self, node, env):
        self.node = node
        self.env = env


class Obj:
    """plain record standing in for a small result object built by a stubbed constructor"""

    def __init__(self, **kw):
        self.__dict__.update(kw)


class DateDelta:
    """the calendar delta of the `datedelta` package, re-stated: years/months with end-of-month clamping, then days"""

    def __init__(self, years=0, months=0, days=0):
        self.years, self.months, self.days = years, months, days

    def __radd__(self, d):
        if not isinstance(d, (_dt.datetime, _dt.date)):
            return NotImplemented
        m0 = d.year * 12 + (d.month - 1) + self.years * 12 + self.months
        y, m = divmod(m0, 12)
        m += 1
        import calendar
        day = min(d.day, calendar.monthrange(y, m)[1])
        return d.replace(year=y, month=m, day=day) + _dt.timedelta(days=self.days)

    def __neg__(self):
        return DateDelta(-self.years, -self.months, -self.days)

    def __rsub__(self, d):
        return (-self).__radd__(d)


# =====================================================================================================
# normal forms
# =====================================================================================================

def product_nf(e, consts):
    """integer-linear product normal form of an expression: (constant, sorted tuple of names) or None"""
    if isinstance(e, ast.Constant) and isinstance(e.value, int) and not isinstance(e.value, bool):
        return e.value, ()
    if isinstance(e, ast.Name):
        return 1, (e.id,)
    if isinstance(e, ast.Attribute) and e.attr in consts and isinstance(consts[e.attr], int):
        return consts[e.attr], ()
    if isinstance(e, ast.UnaryOp) and isinstance(e.op, ast.USub):
        r = product_nf(e.operand, consts)
        return (-r[0], r[1]) if r else None
    if isinstance(e, ast.BinOp) and isinstance(e.op, ast.Mult):
        a, b = product_nf(e.left, consts), product_nf(e.right, consts)
        if a and b:
            return a[0] * b[0], tuple(sorted(a[1] + b[1]))
    return None


_DAYS = {'days': 1, 'weeks': 7}


def delta_nf(call, consts):
    """timedelta/datedelta(field=product) -> (ctor, field, constant, names) with weeks folded into days; or None"""
    if not (isinstance(call, ast.Call) and _callee_name(call) in ('timedelta', 'datedelta')):
        return None
    if call.args or len(call.keywords) != 1 or not call.keywords[0].arg:
        return None
    p = product_nf(call.keywords[0].value, consts)
    if p is None:
        return None
    field = call.keywords[0].arg
    k = p[0]
    if field in _DAYS:
        k, field = k * _DAYS[field], 'days'
    return _callee_name(call), field, k, p[1]


REF_DELTA = {'D': ('days', 1), 'W': ('days', 7), 'MON': ('months', 1), 'Y': ('years', 1),
             'H': ('hours', 1), 'M': ('minutes', 1), 'S': ('seconds', 1)}
CTOR_OK = {'days': ('timedelta', 'datedelta'), 'months': ('datedelta',), 'years': ('datedelta',),
           'hours': ('timedelta',), 'minutes': ('timedelta',), 'seconds': ('timedelta',)}


def eq_chain(stmts, subject, consts):
    """[(letters, body, lineno)] + else-body of the first if/elif chain in `stmts` whose tests are `subject == CONST`"""
    for st in stmts:
        if isinstance(st, ast.If) and _eq_letters(st.test, subject, consts) is not None:
            out = []
            cur = st
            while True:
                letters = _eq_letters(cur.test, subject, consts)
                if letters is None:
                    raise AnalysisError('line %d: unit chain test not understood: %s' % (cur.lineno, ast.unparse(cur.test)[:60]))
                out.append((letters, cur.body, cur.lineno))
                if len(cur.orelse) == 1 and isinstance(cur.orelse[0], ast.If):
                    cur = cur.orelse[0]
                    continue
                return out, cur.orelse
    return None, None


def _const_of(e, consts):
    if isinstance(e, ast.Constant):
        return e.value
    if isinstance(e, ast.Attribute) and e.attr in consts:
        return consts[e.attr]
    return None


def _eq_letters(test, subject, consts):
    if isinstance(test, ast.Compare) and len(test.ops) == 1 and _is_name(test.left, subject):
        if isinstance(test.ops[0], ast.Eq):
            v = _const_of(test.comparators[0], consts)
            return [v] if isinstance(v, str) else None
        if isinstance(test.ops[0], ast.In) and isinstance(test.comparators[0], (ast.List, ast.Tuple)):
            vs = [_const_of(x, consts) for x in test.comparators[0].elts]
            return vs if all(isinstance(v, str) for v in vs) else None
    if isinstance(test, ast.BoolOp) and isinstance(test.op, ast.Or):
        out = []
        for v in test.values:
            r = _eq_letters(v, subject, consts)
            if r is None:
                return None
            out.extend(r)
        return out
    return None


def unit_delta_table(fn, consts):
    """get_date_result -> ({letter: (ctor, field, const, names, lineno)}, problems, facts)"""
    params = _param_names(fn)
    for p in ('unit_str', 'num', 'reference', 'is_future'):
        if p not in params:
            raise AnalysisError('get_date_result: parameter `%s` is gone (%s)' % (p, params))
    chain, orelse = eq_chain(fn.body, 'unit_str', consts)
    if chain is None:
        raise AnalysisError('get_date_result: no `unit_str == Constants.UNIT_*` chain found')
    table, probs = {}, []
    valvar = None
    for letters, body, ln in chain:
        if len(body) != 1:
            probs.append((ln, 'unit %s' % letters, 'branch has %d statements, expected one delta' % len(body)))
            continue
        st = body[0]
        call, var = None, None
        if isinstance(st, ast.AugAssign) and isinstance(st.op, ast.Add) and isinstance(st.target, ast.Name):
            call, var = st.value, st.target.id
        elif isinstance(st, ast.Assign) and isinstance(st.targets[0], ast.Name) and isinstance(st.value, ast.BinOp) \
                and isinstance(st.value.op, ast.Add) and _is_name(st.value.left, st.targets[0].id):
            call, var = st.value.right, st.targets[0].id
        nf = delta_nf(call, consts) if call is not None else None
        if nf is None:
            probs.append((ln, 'unit %s' % letters, 'delta not of the form value += <t|d>delta(field=num*swift*k): %s'
                          % ast.unparse(st)[:70]))
            continue
        if valvar is None:
            valvar = var
        elif var != valvar:
            probs.append((ln, 'unit %s' % letters, 'delta added to `%s`, other branches add to `%s`' % (var, valvar)))
        for L in letters:
            table[L] = nf + (ln,)
    facts = {'value_var': valvar, 'else': orelse}
    return table, probs, facts


def date_result_eval(idx, owner, fn, consts, unit, n, ref, fut):
    """interpret get_date_result(unit, n, ref, fut): (future_value, past_value) stored on the result, (None, None) when
    the function returns without storing a value"""
    def res(node):
        if isinstance(node, ast.Attribute) and isinstance(node.value, ast.Name) and node.value.id == 'Constants' and node.attr in consts:
            return consts[node.attr]
        raise Undetermined('attribute %s' % ast.unparse(node)[:40])
    ev = MiniEval(idx, owner, res)
    rec = Obj()
    env = {'unit_str': unit, 'num': n, 'reference': ref, 'is_future': fut, 'mode': '<mode>', 'result': rec}
    for st in fn.body:
        is_value = isinstance(st, ast.Assign) and isinstance(st.targets[0], ast.Attribute) and st.targets[0].attr in ('future_value', 'past_value')
        try:
            ev.block([st], env)
        except _Return:
            break
        except (_Raised, OverflowError):
            return None, None
        except Undetermined as e:
            if is_value or any(isinstance(x, (ast.Return,)) for x in ast.walk(st)) or _mentions(st, ('unit_str', 'num', 'is_future')):
                raise AnalysisError('%s.%s cannot be interpreted: %s (%s)' % (owner.name, fn.name, e, ast.unparse(st)[:60]))
            continue          # result object construction, TIMEX formatting by mode: not part of the value
    final = env.get('result') if isinstance(env.get('result'), Obj) else rec
    return getattr(final, 'future_value', None), getattr(final, 'past_value', None)


def _mentions(st, names):
    return any(isinstance(x, ast.Name) and x.id in names for x in ast.walk(st))


def date_result_expected(ref, L, k):
    if L == 'D':
        return ref + _dt.timedelta(days=k)
    if L == 'W':
        return ref + _dt.timedelta(days=7 * k)
    if L == 'H':
        return ref + _dt.timedelta(hours=k)
    if L == 'M':
        return ref + _dt.timedelta(minutes=k)
    if L == 'S':
        return ref + _dt.timedelta(seconds=k)
    if L == 'MON':
        return ref + DateDelta(months=k)
    return ref + DateDelta(years=k)


def swift_polarity(idx, fn, consts=None):
    """environment after the statements that precede the unit chain, for is_future True / False"""
    out = {}
    pre = []
    for st in fn.body:
        if isinstance(st, ast.If) and _eq_letters(st.test, 'unit_str', consts or {}) is not None:
            break
        pre.append(st)
    for fut in (True, False):
        ev = MiniEval(idx)
        env = {'is_future': fut, 'unit_str': 'D', 'num': 1, 'reference': _dt.datetime(2016, 11, 7), 'mode': None}
        for st in pre:
            try:
                ev.block([st], env)
            except Undetermined:
                continue
        out[fut] = env
    return out


# =====================================================================================================
# reference vocabulary (independent of the repository; verified against the pinned tree)
# =====================================================================================================

REL_WORDS = {
    'english': {'next': ['next', 'following', 'upcoming'], 'past': ['last', 'previous', 'past'], 'this': ['this', 'current']},
    'spanish': {'next': ['próximo', 'proximo', 'siguiente'], 'past': ['pasado', 'último', 'ultimo', 'anterior'], 'this': ['este', 'esta']},
    'french': {'next': ['prochain', 'suivant'], 'past': ['dernier', 'dernière', 'derniere', 'précédent'], 'this': ['ce', 'cette']},
    'portuguese': {'next': ['próximo', 'proximo', 'seguinte'], 'past': ['último', 'ultimo', 'passado'], 'this': ['este', 'esta', 'neste']},
    'german': {'next': ['nächste', 'kommende'], 'past': ['letzte', 'vorige', 'vergangene'], 'this': ['diese']},
    'italian': {'next': ['prossimo', 'seguente', 'successivo'], 'past': ['scorso', 'passato', 'ultimo', 'precedente'], 'this': ['questo', 'questa']},
    'dutch': {'next': ['volgende', 'komende'], 'past': ['vorige', 'afgelopen', 'laatste'], 'this': ['deze', 'dit']},
    'chinese': {'next': ['下', '明', '后', '後'], 'past': ['上', '去', '昨', '前'], 'this': ['这', '本', '今']},
}

# today / tomorrow / yesterday / day after tomorrow / day before yesterday (only spellings the culture's
# SpecialDayRegex accepts on the pinned tree are listed)
SPECIAL_DAYS = {
    'english': {'today': 0, 'tomorrow': 1, 'yesterday': -1, 'the day after tomorrow': 2, 'the day before yesterday': -2,
                'day after tomorrow': 2, 'day before yesterday': -2, 'tmr': 1, 'day after tmr': 2, 'the day after tmr': 2},
    'spanish': {'hoy': 0, 'mañana': 1, 'ayer': -1, 'pasado mañana': 2, 'anteayer': -2},
    'french': {"aujourd'hui": 0, 'demain': 1, 'hier': -1, 'après-demain': 2, 'après demain': 2, 'avant-hier': -2, 'avant hier': -2},
    'portuguese': {'hoje': 0, 'amanhã': 1, 'amanha': 1, 'ontem': -1, 'depois de amanhã': 2, 'anteontem': -2},
    'german': {'heute': 0, 'morgen': 1, 'gestern': -1, 'übermorgen': 2, 'vorgestern': -2},
    'italian': {'oggi': 0, 'domani': 1, 'ieri': -1, 'dopodomani': 2, "l'altro ieri": -2},
    'dutch': {'vandaag': 0, 'morgen': 1, 'gisteren': -1, 'overmorgen': 2, 'eergisteren': -2},
    'chinese': {'今天': 0, '明天': 1, '昨天': -1, '后天': 2, '前天': -2, '大后天': 3, '大前天': -3, '今日': 0, '明日': 1, '昨日': -1},
}

# this/next/last week|month|year phrases: (phrase, unit predicate, expected swift)
def _rp(week, month, year):
    out = []
    for unit, triple in (('is_week_only', week), ('is_month_only', month), ('is_year_only', year)):
        for sw, phrases in zip((-1, 1, 0), triple):
            for ph in phrases.split('|'):
                if ph:
                    out.append((ph, unit, sw))
    return out


REL_PERIODS = {
    'english': _rp(('last week|previous week', 'next week|following week', 'this week'),
                   ('last month|previous month', 'next month', 'this month'),
                   ('last year|previous year', 'next year', 'this year')),
    'spanish': _rp(('la semana pasada|semana pasada', 'la próxima semana|próxima semana', 'esta semana'),
                   ('el mes pasado|mes pasado', 'el próximo mes|próximo mes', 'este mes'),
                   ('el año pasado|año pasado', 'el próximo año|próximo año', 'este año')),
    'french': _rp(('la semaine dernière|semaine dernière', 'la semaine prochaine|semaine prochaine', 'cette semaine'),
                  ('le mois dernier|mois dernier', 'le mois prochain|mois prochain', 'ce mois'),
                  ("l'année dernière|année dernière", "l'année prochaine|année prochaine", 'cette année')),
    'portuguese': _rp(('semana passada|última semana', 'próxima semana', 'esta semana'),
                      ('mês passado|último mês', 'próximo mês', 'este mês'),
                      ('ano passado|último ano', 'próximo ano', 'este ano')),
    'german': _rp(('letzte woche|vorige woche|vergangene woche', 'nächste woche|kommende woche', 'diese woche'),
                  ('letzten monat|vorigen monat', 'nächsten monat', 'diesen monat'),
                  ('letztes jahr|voriges jahr', 'nächstes jahr', 'dieses jahr')),
    'italian': _rp(('la settimana scorsa|la scorsa settimana|la settimana passata', 'la prossima settimana|la settimana prossima', 'questa settimana'),
                   ('il mese scorso|lo scorso mese|il mese passato', 'il prossimo mese|il mese prossimo', 'questo mese'),
                   ("l'anno scorso|lo scorso anno|l'anno passato", "il prossimo anno|l'anno prossimo", "quest'anno")),
    'dutch': _rp(('vorige week|afgelopen week', 'volgende week|komende week', 'deze week'),
                 ('vorige maand|afgelopen maand', 'volgende maand', 'deze maand'),
                 ('vorig jaar|afgelopen jaar', 'volgend jaar', 'dit jaar')),
    'chinese': _rp(('上周|上个星期', '下周|下个星期', '这周|本周'),
                   ('上个月', '下个月', '这个月|本月'),
                   ('去年', '明年', '今年')),
}

# which configuration families serve the expression families C08 lists
IN_FAMILY = ('DateParserConfiguration', 'DatePeriodParserConfiguration')
OUT_FAMILY = {'DateTimeParserConfiguration': "date-time 'next/last <part of day>' phrases",
              'DateTimePeriodParserConfiguration': 'date-time periods',
              'HolidayParserConfiguration': 'holidays'}


# =====================================================================================================
# guard classification for the get_swift* sibling cross-check
# =====================================================================================================

def _search(pattern, word):
    try:
        pp = MiniEval._pycache.get(pattern) or PyPattern(pattern)
    except rx.RxError:
        return None
    MiniEval._pycache[pattern] = pp
    return pp.re.search(word) is not None


def kinds_of_regex(culture, pattern):
    ks = set()
    for k, words in REL_WORDS[culture].items():
        for w in words:
            r = _search(pattern, w)
            if r:
                ks.add(k)
    return ks


def kinds_of_literal(culture, lit):
    ks = set()
    lit = lit.strip().lower()
    for k, words in REL_WORDS[culture].items():
        for w in words:
            if culture == 'chinese':
                if lit.startswith(w):
                    ks.add(k)
            elif ' ' in lit:
                continue        # multi-word phrases ('pasado mañana' = day after tomorrow) are not relation words
            elif lit == w or (lit.startswith(w) and len(w) >= 4 and len(lit) - len(w) <= 2) \
                    or (len(lit) >= 4 and w.startswith(lit) and len(w) - len(lit) <= 2):
                ks.add(k)
    return ks


def kind_of_name(name):
    n = name or ''
    if 'AfterNext' in n:
        return 'afternext'
    for key, k in (('Next', 'next'), ('Future', 'next'), ('Following', 'next'), ('Upcoming', 'next'),
                   ('Previous', 'past'), ('Past', 'past'), ('Last', 'past'), ('This', 'this')):
        if key in n:
            return k
    return None


class GuardClassifier:
    def __init__(self, W, culture, owner, fn):
        self.W, self.culture, self.owner, self.fn = W, culture, owner, fn
        self.locals = {}
        for n in ast.walk(fn):
            if isinstance(n, ast.Assign) and len(n.targets) == 1 and isinstance(n.targets[0], ast.Name):
                self.locals.setdefault(n.targets[0].id, []).append(n.value)

    def pattern_vals(self, node):
        """Vals of the regex object expression `node` (self.prop / Cls._attr / resource constant)"""
        try:
            if isinstance(node, ast.Attribute) and isinstance(node.value, ast.Name):
                if node.value.id == 'self':
                    return self.W.resolve(self.owner, node.attr)
                c = self.W.idx.resolve_class(self.owner.mod, node.value)
                if c is not None and '.resources.' not in c.mod.name:
                    return self.W.resolve(c, node.attr)
            return self.W.eval(node, self.owner, None)
        except AnalysisError:
            return None

    def components(self, test):
        """[(kind set, label, text)] for the disjuncts of a guard; kind set empty = unclassifiable"""
        if isinstance(test, ast.BoolOp) and isinstance(test.op, ast.Or):
            out = []
            for v in test.values:
                out.extend(self.components(v))
            return out
        if isinstance(test, ast.Name) and test.id in self.locals and len(self.locals[test.id]) == 1:
            return self.components(self.locals[test.id][0])
        if isinstance(test, ast.Call) and isinstance(test.func, ast.Attribute):
            f = test.func
            pat = None
            if f.attr in ('search', 'match'):
                if isinstance(f.value, ast.Name) and f.value.id in ('regex', 're') and test.args:
                    pat = test.args[0]
                else:
                    pat = f.value
                vals = self.pattern_vals(pat)
                if vals and all(isinstance(v.value, str) for v in vals):
                    ks, names = set(), []
                    for v in vals:
                        ks |= kinds_of_regex(self.culture, v.value)
                        names.append(v.name)
                    nk = {kind_of_name(n) for n in names} - {None}
                    label = '/'.join(sorted(set(names)))
                    if 'afternext' in nk:
                        return [({'next'}, 'regex:' + label, ast.unparse(test)[:60])]
                    if len(ks) != 1 and len(nk) == 1:
                        ks = set(nk)      # value inconclusive (e.g. a never-matching pattern): fall back to the resource name
                    return [(ks, 'regex:' + label, ast.unparse(test)[:60])]
                return [(set(), None, ast.unparse(test)[:60])]
            if f.attr in ('startswith', 'endswith') and len(test.args) == 1:
                lit = self.literal(test.args[0])
                if lit is not None:
                    return [(kinds_of_literal(self.culture, lit), 'lit:' + lit, ast.unparse(test)[:60])]
        if isinstance(test, ast.Compare) and len(test.ops) == 1:
            if isinstance(test.ops[0], ast.Eq):
                lit = self.literal(test.comparators[0])
                if lit is None:
                    lit = self.literal(test.left)
                if lit is not None:
                    return [(kinds_of_literal(self.culture, lit), 'lit:' + lit, ast.unparse(test)[:60])]
            if isinstance(test.ops[0], ast.In) and isinstance(test.comparators[0], (ast.List, ast.Tuple)):
                out = []
                for x in test.comparators[0].elts:
                    lit = self.literal(x)
                    out.append((kinds_of_literal(self.culture, lit) if lit is not None else set(),
                                'lit:%s' % lit if lit is not None else None, ast.unparse(test)[:60]))
                return out
        return [(set(), None, ast.unparse(test)[:60])]

    def literal(self, node):
        if isinstance(node, ast.Constant) and isinstance(node.value, str):
            return node.value
        if isinstance(node, ast.Attribute):
            vals = self.pattern_vals(node)
            if vals and len(vals) == 1 and isinstance(vals[0].value, str):
                return vals[0].value
        return None


def _int_const(e):
    if isinstance(e, ast.Constant) and isinstance(e.value, int) and not isinstance(e.value, bool):
        return e.value
    if isinstance(e, ast.UnaryOp) and isinstance(e.op, ast.USub):
        v = _int_const(e.operand)
        return -v if v is not None else None
    return None


def swift_branches(fn):
    """[(test expr, constant, lineno)] of the guarded constant results of a get_swift* method"""
    rets = [n for n in ast.walk(fn) if isinstance(n, ast.Return) and isinstance(n.value, ast.Name)]
    resvars = {r.value.id for r in rets}
    out = []

    def visit(stmts):
        for st in stmts:
            if isinstance(st, ast.If):
                for b in st.body:
                    c = None
                    if isinstance(b, ast.Assign) and isinstance(b.targets[0], ast.Name) and b.targets[0].id in resvars:
                        c = _int_const(b.value)
                    elif isinstance(b, ast.Return) and b.value is not None:
                        c = _int_const(b.value)
                    if c is not None:
                        out.append((st.test, c, st.lineno))
                visit(st.body)
                visit(st.orelse)
    visit(fn.body)
    return out


# =====================================================================================================
# detectors for the base algorithms
# =====================================================================================================

def agolater_branches(fn, gdr_params, tconsts):
    """get_ago_later_result -> [(kind, is_future const, mod value, lineno)] in source order"""
    locals_ = {}
    for n in ast.walk(fn):
        if isinstance(n, ast.Assign) and len(n.targets) == 1 and isinstance(n.targets[0], ast.Name):
            locals_.setdefault(n.targets[0].id, []).append(n.value)

    def kind_of(test):
        exprs = [test]
        if isinstance(test, ast.Name) and test.id in locals_:
            exprs = locals_[test.id]
        attrs = set()
        for e in exprs:
            attrs |= {a.attr for a in ast.walk(e) if isinstance(a, ast.Attribute)}
        ago = 'ago_regex' in attrs
        later = bool(attrs & {'later_regex', 'in_connector_regex'})
        if ago and not later:
            return 'ago'
        if later and not ago:
            return 'later'
        return None

    out = []
    for st in fn.body:
        if not isinstance(st, ast.If):
            continue
        k = kind_of(st.test)
        if k is None:
            continue
        calls = [c for c in ast.walk(st) if isinstance(c, ast.Call) and _callee_name(c) == 'get_date_result']
        fut = None
        if len(calls) == 1:
            b = _bind(calls[0], gdr_params)
            v = b.get('is_future')
            fut = v.value if isinstance(v, ast.Constant) and isinstance(v.value, bool) else ast.unparse(v) if v is not None else None
        mod = None
        for s in ast.walk(st):
            if isinstance(s, ast.Assign) and isinstance(s.targets[0], ast.Attribute) and s.targets[0].attr == 'mod':
                v = s.value
                mod = tconsts.get(v.attr) if isinstance(v, ast.Attribute) else (v.value if isinstance(v, ast.Constant) else None)
        out.append((k, fut, mod, st.lineno))
    return out


def agolater_eval(idx, owner, fn, tconsts, scenario):
    """interpret get_ago_later_result with the word tests stubbed for one scenario ('ago' | 'later' | 'in' | 'none'):
    ([is_future of every get_date_result call], mod stored on the duration)"""
    calls = []
    gdr_params = None
    k, g = idx.find_method(owner, 'get_date_result')
    if g is not None:
        gdr_params = _param_names(g)

    def res(node):
        if isinstance(node, ast.Attribute) and isinstance(node.value, ast.Name):
            if node.value.id == 'TimeTypeConstants' and node.attr in tconsts:
                return tconsts[node.attr]
            if node.value.id == 'utility_configuration':
                return '<%s>' % node.attr
        raise Undetermined('attribute %s' % ast.unparse(node)[:40])

    def hook(call, args, env):
        cn = _callee_name(call)
        if cn in ('contains_ago_later_index', 'contains_term_index', 'get_ago_later_index', 'get_term_index'):
            which = [a for a in args if isinstance(a, str) and a.startswith('<') and a.endswith('_regex>')]
            kind = which[0][1:-1] if which else ''
            hit = (scenario == 'ago' and kind == 'ago_regex') or (scenario == 'later' and kind == 'later_regex') \
                or (scenario == 'in' and kind == 'in_connector_regex')
            return True, (hit if cn.startswith('contains') else Obj(matched=hit, index=1 if hit else -1))
        if cn == 'get_date_result':
            b = _bind(call, gdr_params) if gdr_params else {}
            pos = gdr_params.index('is_future') if gdr_params and 'is_future' in gdr_params else 3
            v = None
            if 'is_future' in b:
                v = ev.expr(b['is_future'], env)
            elif len(args) > pos:
                v = args[pos]
            calls.append(v)
            return True, Obj()
        return False, None
    ev = MiniEval(idx, owner, res)
    ev.call_hook = hook
    dur = Obj(value=Obj(mod=None))
    env = {'duration_parse_result': dur, 'num': 3, 'unit_map': {'<u>': 'D'}, 'src_unit': '<u>', 'after_str': '<after>', 'before_str': '<before>',
           'reference': _dt.datetime(2016, 11, 7), 'utility_configuration': '<cfg>', 'mode': '<mode>'}
    try:
        ev.block(fn.body, env)
    except _Return:
        pass
    except Undetermined as e:
        raise AnalysisError('%s.%s cannot be interpreted: %s' % (owner.name, fn.name, e))
    return calls, dur.value.mod


def weekday_semantics(idx, du, enum_vals):
    """interpret DateUtils.this/next/last over two weeks x weekday values 0..7 -> list of problems"""
    probs = []

    def resolver(node):
        if isinstance(node, ast.Attribute) and isinstance(node.value, ast.Name) and node.value.id == 'DayOfWeek' \
                and node.attr in enum_vals:
            return enum_vals[node.attr]
        raise Undetermined('attribute %s' % ast.unparse(node))

    ev = MiniEval(idx, du, resolver)
    fns = {n: du.methods.get(n) for n in ('this', 'next', 'last')}
    for n, f in fns.items():
        if f is None:
            raise AnalysisError('anchor vanished: DateUtils.%s' % n)
    start = _dt.datetime(2016, 2, 22, 13, 30)      # a Monday; the two weeks span a leap day and a month end
    for off in range(14):
        d = start + _dt.timedelta(days=off)
        monday = d - _dt.timedelta(days=d.isoweekday() - 1)
        for w in range(0, 8):
            iso = 7 if w == 0 else w
            want = monday + _dt.timedelta(days=iso - 1)
            for n, shift in (('this', 0), ('next', 7), ('last', -7)):
                try:
                    got = ev.call(fns[n], [d, w])
                except Undetermined as e:
                    raise AnalysisError('DateUtils.%s: cannot be interpreted (%s)' % (n, e))
                if got != want + _dt.timedelta(days=shift):
                    probs.append((n, d, w, got, want + _dt.timedelta(days=shift)))
    return probs


def implicit_branches(fn):
    """parse_implicit_date -> {config regex attr: (If node, set of DateUtils.<f>(reference, ..) names, facts)}"""
    out = {}
    last_attr = None
    for st in fn.body:
        if isinstance(st, ast.Assign) and len(st.targets) == 1 and _is_name(st.targets[0], 'match') \
                and isinstance(st.value, ast.Call):
            last_attr = None
            for a in ast.walk(st.value):
                if isinstance(a, ast.Attribute) and isinstance(a.value, ast.Attribute) and a.value.attr == 'config' \
                        and a.attr.endswith('_regex'):
                    last_attr = a.attr
        elif isinstance(st, ast.If) and last_attr and any(_is_name(n, 'match') for n in ast.walk(st.test)):
            calls = set()
            for c in ast.walk(st):
                if isinstance(c, ast.Call) and isinstance(c.func, ast.Attribute) and _is_name(c.func.value, 'DateUtils') \
                        and c.func.attr in ('this', 'next', 'last') and c.args and _is_name(c.args[0], 'reference'):
                    calls.add(c.func.attr)
            out.setdefault(last_attr, (st, calls))
            last_attr = None
    return out


def special_day_delta(ifnode, consts):
    """in the special-day branch: (swift source method, delta nf, base description)"""
    swift_src, var = None, None
    for s in ast.walk(ifnode):
        if isinstance(s, ast.Assign) and isinstance(s.targets[0], ast.Name) and isinstance(s.value, ast.Call) \
                and (_callee_name(s.value) or '').startswith('get_swift'):
            swift_src, var = _callee_name(s.value), s.targets[0].id
    deltas = []
    for s in ast.walk(ifnode):
        if isinstance(s, ast.BinOp) and isinstance(s.op, ast.Add):
            nf = delta_nf(s.right, consts)
            if nf is not None:
                base = s.left
                deltas.append((nf, base))
    return swift_src, var, deltas


def period_shifts(fn, consts):
    """_parse_one_word_period: [(guard predicate, delta nf, lineno)] for deltas that mention a swift local"""
    swifts = set()
    for s in ast.walk(fn):
        if isinstance(s, ast.Assign) and isinstance(s.targets[0], ast.Name) and isinstance(s.value, ast.Call) \
                and (_callee_name(s.value) or '').startswith('get_swift'):
            swifts.add(s.targets[0].id)
    out = []

    def visit(stmts, guard):
        for st in stmts:
            if isinstance(st, ast.If):
                g = guard
                for c in ast.walk(st.test):
                    if isinstance(c, ast.Call) and (_callee_name(c) or '').startswith('is_') and isinstance(c.func, ast.Attribute) \
                            and isinstance(c.func.value, ast.Attribute) and c.func.value.attr == 'config':
                        g = _callee_name(c)
                visit(st.body, g)
                visit(st.orelse, guard)
            else:
                for c in ast.walk(st):
                    nf = delta_nf(c, consts) if isinstance(c, ast.Call) else None
                    if nf and set(nf[3]) & swifts:
                        out.append((guard, nf, c.lineno))
    visit(fn.body, None)
    return out, swifts


def _boundary_dates():
    out = []
    for y in (1996, 1997, 1998, 1999, 2000, 2001, 2004, 2005, 2008, 2009, 2010, 2011, 2015, 2016, 2020, 2021, 2026):
        for d in range(26, 32):
            out.append(_dt.datetime(y, 12, d, 12, 0))
        for d in range(1, 9):
            out.append(_dt.datetime(y, 1, d, 12, 0))
        out.append(_dt.datetime(y, 6, 15, 12, 0))
    return out


def week_timex_cases(idx, owner, fn, guard_name, enum_vals, consts, swift_names, anchor_iso_day, suffix=''):
    """interpret the branch of `fn` guarded by config.<guard_name>(..) up to its return, for reference dates around
    ISO year boundaries x swift -1/0/1, and compare the TIMEX it assembles with the ISO week of the target week.
    -> (number of cases, [(reference, swift, got, want)] mismatches, begin/end mismatches)"""
    branch = None
    for n in ast.walk(fn):
        if isinstance(n, ast.If) and any(isinstance(c, ast.Call) and _callee_name(c) == guard_name for c in ast.walk(n.test)):
            branch = n
            break
    if branch is None:
        raise AnalysisError('%s: no branch guarded by config.%s' % (fn.name, guard_name))
    if not any(isinstance(st, ast.Assign) and isinstance(st.targets[0], ast.Attribute) and st.targets[0].attr == 'timex'
               for st in branch.body):
        raise AnalysisError('%s[%s]: no TIMEX assignment found in the branch' % (fn.name, guard_name))

    def res(node):
        if isinstance(node, ast.Attribute) and isinstance(node.value, ast.Name):
            if node.value.id == 'DayOfWeek' and node.attr in enum_vals:
                return enum_vals[node.attr]
            if node.value.id == 'Constants' and node.attr in consts:
                return consts[node.attr]
        raise Undetermined('attribute %s' % ast.unparse(node)[:40])

    bad, bad_range, n = [], [], 0
    for ref in _boundary_dates():
        for sw in (-1, 0, 1):
            env = {'reference': ref, 'year': ref.year, 'month': ref.month, 'future_year': ref.year, 'past_year': ref.year,
                   'early_prefix': False, 'mid_prefix': False, 'late_prefix': False}
            for nm in swift_names:
                env[nm] = sw
            ev = MiniEval(idx, owner, res)
            timex = None
            for st in branch.body:
                if isinstance(st, ast.Return):
                    break
                if isinstance(st, ast.Assign) and isinstance(st.targets[0], ast.Attribute):
                    if st.targets[0].attr == 'timex':
                        try:
                            timex = ev.expr(st.value, env)
                        except Undetermined as e:
                            raise AnalysisError('%s[%s]: TIMEX expression cannot be interpreted: %s' % (fn.name, guard_name, e))
                    continue
                try:
                    ev.block([st], env)
                except Undetermined:
                    continue         # statements that need parser state (inclusive-end switch ...) do not feed the TIMEX
                except _Return:
                    break
            n += 1
            monday = (ref - _dt.timedelta(days=ref.isoweekday() - 1)) + _dt.timedelta(days=7 * sw)
            anchor = monday + _dt.timedelta(days=anchor_iso_day - 1)
            iso = anchor.isocalendar()
            want = '%04d-W%02d%s' % (iso[0], iso[1], suffix)
            if timex != want:
                bad.append((ref, sw, timex, want))
            b, e2 = env.get('begin_date'), env.get('end_date')
            if isinstance(b, _dt.datetime) and b.date() != anchor.date():
                bad_range.append((ref, sw, b, anchor))
    return n, bad, bad_range


_WEEKTIMEX_CONTROL = '''
def p(self, reference, swift):
    if self.config.is_week_only(t):
        monday = DateUtils.this(reference, DayOfWeek.MONDAY) + datedelta(days=7 * swift)
        result.timex = f'{monday.year:04d}-W{DateUtils.week_of_year(monday):02d}'
'''


def quarter_tabulate(idx, owner, fn, consts):
    """relative quarters ('last/this/next quarter'): interpret the roll-over block for reference month 1..12 x swift
    -1/0/+1 -> {(month, swift): (year, quarter)}; the block is the branch that derives the quarter from reference.month
    and a get_swift* call; year / quarter locals are read off the first date construction that follows it"""
    branch, parent_chain = None, None
    for n in ast.walk(fn):
        if isinstance(n, ast.If):
            for body in (n.body, n.orelse):
                tops = [st for st in body if isinstance(st, ast.Assign) and isinstance(st.value, ast.Call)
                        and (_callee_name(st.value) or '').startswith('get_swift')]
                uses_month = any(isinstance(x, ast.Attribute) and x.attr == 'month' and _is_name(x.value, 'reference')
                                 for st in body for x in ast.walk(st))
                if tops and uses_month and not any(isinstance(st, ast.If) and st is not n and any(
                        isinstance(a, ast.Assign) and isinstance(a.value, ast.Call) and (_callee_name(a.value) or '').startswith('get_swift')
                        for a in st.body) for st in body):
                    branch = body
    if branch is None:
        raise AnalysisError('%s: relative-quarter block (reference.month + get_swift*) not found' % fn.name)
    swift_var = next(st.targets[0].id for st in branch if isinstance(st, ast.Assign) and isinstance(st.value, ast.Call)
                     and (_callee_name(st.value) or '').startswith('get_swift') and isinstance(st.targets[0], ast.Name))
    # year / quarter locals: first call  <ctor>(year, <expr over quarter>, 1) after the block
    last_line = max(getattr(x, 'lineno', 0) for st in branch for x in ast.walk(st))
    yv = qv = None
    for c in sorted((c for c in ast.walk(fn) if isinstance(c, ast.Call) and getattr(c, 'lineno', 0) > last_line
                     and (_callee_name(c) or '').startswith('safe_create') and len(c.args) >= 3), key=lambda c: c.lineno):
        if isinstance(c.args[0], ast.Name):
            assigned = {t.id for a in ast.walk(fn) if isinstance(a, (ast.Assign, ast.AugAssign)) for t in ast.walk(a.targets[0] if isinstance(a, ast.Assign) else a.target) if isinstance(t, ast.Name)}
            qs = {x.id for x in ast.walk(c.args[1]) if isinstance(x, ast.Name) and x.id in assigned}
            if len(qs) == 1:
                yv, qv = c.args[0].id, qs.pop()
                break
    if yv is None:
        raise AnalysisError('%s: year / quarter locals of the quarter range not identified' % fn.name)

    def res(node):
        if isinstance(node, ast.Attribute) and isinstance(node.value, ast.Name) and node.value.id == 'Constants' and node.attr in consts:
            return consts[node.attr]
        raise Undetermined('attribute %s' % ast.unparse(node)[:40])

    out = {}
    for month in range(1, 13):
        for sw in (-1, 0, 1):
            ref = _dt.datetime(2019, month, 15, 12, 0)
            env = {'reference': ref, yv: ref.year}
            ev = MiniEval(idx, owner, res)
            for st in branch:
                if isinstance(st, ast.Assign) and isinstance(st.value, ast.Call) and (_callee_name(st.value) or '').startswith('get_swift'):
                    env[st.targets[0].id] = sw
                    continue
                try:
                    ev.block([st], env)
                except Undetermined as e:
                    raise AnalysisError('%s: relative-quarter block cannot be interpreted: %s' % (fn.name, e))
            out[(month, sw)] = (env.get(yv), env.get(qv))
    return out, (branch[0].lineno if branch else fn.lineno)


def quarter_expected(year, month, sw):
    q0 = (month + 2) // 3 + sw
    return year + (q0 - 1) // 4, (q0 - 1) % 4 + 1


_QUARTER_CONTROL = '''
def p(self, source, reference):
    year = reference.year
    if order_quarter_str:
        month = reference.month
        quarter_num = math.ceil(month / Constants.TRIMESTER_MONTH_COUNT)
        swift = self.config.get_swift_year(order_quarter_str)
        quarter_num += swift
        if quarter_num > Constants.QUARTER_COUNT:
            year += 1
        elif quarter_num < 0:
            year -= 1
        quarter_num = (quarter_num - 1) % Constants.QUARTER_COUNT + 1
    begin_date = DateUtils.safe_create_date_resolve_overflow(year, ((quarter_num - 1) * 3) + 1, 1)
'''


def _path_to(stmts, target, trail=()):
    """chain of (statement list, index) from `stmts` down to the If node `target` (through bodies and else-branches)"""
    for i, st in enumerate(stmts):
        if st is target:
            return list(trail) + [(stmts, i)]
        if isinstance(st, ast.If):
            for sub in (st.body, st.orelse):
                r = _path_to(sub, target, tuple(trail) + ((stmts, i),))
                if r:
                    return r
        elif isinstance(st, (ast.For, ast.While, ast.With, ast.Try)):
            for sub in (getattr(st, 'body', []), getattr(st, 'orelse', [])):
                r = _path_to(sub, target, tuple(trail) + ((stmts, i),))
                if r:
                    return r
    return None


def oneword_case(idx, owner, fn, guard_name, ref, sw, swift_names, enum_vals, consts):
    """interpret _parse_one_word_period along the path into the branch guarded by config.<guard_name>: plain
    assignments that precede the branch on the way in, the branch itself, and the statements that follow it on the way
    out (up to the first return).  -> env (attribute stores on the result kept under 'result.<attr>')"""
    target = None
    for n in ast.walk(fn):
        if isinstance(n, ast.If) and any(isinstance(c, ast.Call) and _callee_name(c) == guard_name for c in ast.walk(n.test)):
            target = n
            break
    if target is None:
        raise AnalysisError('%s: no branch guarded by config.%s' % (fn.name, guard_name))
    path = _path_to(fn.body, target)
    if not path:
        raise AnalysisError('%s: branch guarded by config.%s not reachable through if/else nesting' % (fn.name, guard_name))

    def res(node):
        txt = ast.unparse(node)
        if isinstance(node, ast.Attribute) and isinstance(node.value, ast.Name):
            if node.value.id == 'DayOfWeek' and node.attr in enum_vals:
                return enum_vals[node.attr]
            if node.value.id == 'Constants' and node.attr in consts:
                return consts[node.attr]
        if txt == 'DateUtils.min_value':
            return _dt.datetime(1, 1, 1)
        if txt == 'self._inclusive_end_period':
            return False                 # the [start, end) convention the property states
        raise Undetermined('attribute %s' % txt[:40])

    ev = MiniEval(idx, owner, res)
    rec = Obj()
    env = {'reference': ref, 'early_prefix': False, 'mid_prefix': False, 'late_prefix': False, 'result': rec}
    # way in: simple assignments only (conditions on the matched text are not interpreted)
    for stmts, i in path:
        for st in stmts[:i]:
            if isinstance(st, (ast.Assign, ast.AnnAssign)):
                try:
                    ev.block([st], env)
                except (Undetermined, _Raised):
                    continue
    env.update({'early_prefix': False, 'mid_prefix': False, 'late_prefix': False})
    for nm in swift_names:
        env[nm] = sw
    try:
        ev.block(target.body, env)
        # way out: what follows the if/elif chain at every enclosing level
        for stmts, i in reversed(path):
            ev.block(stmts[i + 1:], env)
    except _Return:
        pass
    except _Raised as r:
        env['<raised>'] = '%s: %s' % (type(r.exc).__name__, r.exc)      # the model swallows it: no result for this input
    except Undetermined as e:
        raise AnalysisError('%s[%s]: branch cannot be interpreted: %s' % (fn.name, guard_name, e))
    for k, v in rec.__dict__.items():          # stores made by a helper the branch delegates to
        env.setdefault('result.' + k, v)
    return env


def _month_add(y, m, k):
    t = y * 12 + (m - 1) + k
    return t // 12, t % 12 + 1


def oneword_expected(guard, ref, sw):
    """(timex or None when not compared here, start, end) of this/next/last <unit> as [start, end)"""
    if guard == 'is_month_only':
        y, m = _month_add(ref.year, ref.month, sw)
        y2, m2 = _month_add(y, m, 1)
        return '%04d-%02d' % (y, m), _dt.datetime(y, m, 1), _dt.datetime(y2, m2, 1)
    if guard == 'is_year_only':
        y = ref.year + sw
        return '%04d' % y, _dt.datetime(y, 1, 1), _dt.datetime(y + 1, 1, 1)
    monday = _dt.datetime(ref.year, ref.month, ref.day) - _dt.timedelta(days=ref.isoweekday() - 1) + _dt.timedelta(days=7 * sw)
    if guard == 'is_week_only':
        return None, monday, monday + _dt.timedelta(days=7)
    if guard == 'is_weekend':
        return None, monday + _dt.timedelta(days=5), monday + _dt.timedelta(days=7)
    raise AnalysisError('no reference semantics for %s' % guard)


def oneword_refs():
    import calendar
    out = []
    for y in (2019, 2020):
        for m in range(1, 13):
            for d in (1, 15, calendar.monthrange(y, m)[1]):
                out.append(_dt.datetime(y, m, d, 9, 30, 15))      # includes the leap day 2020-02-29
    return out


def now_sites(idx):
    """[(module, class, function, If node)] : branches taken when config.now_regex matched that set a future_value"""
    out = []
    for mod, cls, fn in idx.functions():
        if not mod.name.startswith(DT) or cls is None:
            continue
        locals_ = {}
        for n in ast.walk(fn):
            if isinstance(n, ast.Assign) and len(n.targets) == 1 and isinstance(n.targets[0], ast.Name):
                locals_.setdefault(n.targets[0].id, []).append(n.value)
        for n in ast.walk(fn):
            if not isinstance(n, ast.If):
                continue
            names = {x.id for x in ast.walk(n.test) if isinstance(x, ast.Name)}
            from_now = any(isinstance(a, ast.Attribute) and a.attr == 'now_regex' for nm in names for v in locals_.get(nm, [])
                           for a in ast.walk(v)) or any(isinstance(a, ast.Attribute) and a.attr == 'now_regex' for a in ast.walk(n.test))
            sets_value = any(isinstance(st, ast.Assign) and isinstance(st.targets[0], ast.Attribute) and st.targets[0].attr == 'future_value'
                             for st in n.body)
            if from_now and sets_value:
                out.append((mod, cls, fn, n))
    return out


def now_values(idx, cls, branch, ref):
    """interpret a now-branch: {'future_value': v, 'past_value': v, 'timex': t or None}"""
    def res(node):
        if ast.unparse(node) == 'DateUtils.min_value':
            return _dt.datetime(1, 1, 1)
        raise Undetermined('attribute %s' % ast.unparse(node)[:40])
    ev = MiniEval(idx, cls, res)
    env = {'reference': ref, 'source': 'now', 'result': '<result>'}
    for st in branch.body:
        try:
            ev.block([st], env)
        except (Undetermined, _Raised):
            continue          # match bookkeeping (timex object of the configuration, spans) does not feed the value
        except _Return:
            break
    out = {}
    for k, v in env.items():
        if '.' in k and k.split('.', 1)[1] in ('future_value', 'past_value', 'timex'):
            out[k.split('.', 1)[1]] = v
    return out


_ONEWORD_CONTROL = '''
def p(self, source, reference):
    year, month = reference.year, reference.month
    future_year = past_year = year
    if match.success:
        swift = self.config.get_swift_day_or_month(trimmed_source)
        if self.config.is_month_only(trimmed_source):
            temp_date = reference + datedelta(months=swift)
            month, year = temp_date.month, temp_date.year
            result.timex = f'{year:04d}-{month:02d}'
    future_start = DateUtils.safe_create_from_min_value(future_year, month, 1)
    future_end = DateUtils.safe_create_from_min_value(future_year, month, 1) + datedelta(months=1)
    result.future_value = [future_start, future_end]
    result.past_value = [future_start, future_end]
    return result
'''


_NOW_CONTROL = '''
class P:
    def parse_basic_regex(self, source, reference):
        match = regex.search(self.config.now_regex, source)
        if match and match.start() == 0:
            now = datetime(reference.year, reference.month, reference.day, reference.hour, reference.minute)
            result.future_value = now
            result.past_value = now
        return result
'''


# ---- 'in N <unit>' (C08.inprefix) ---------------------------------------------------------------------------------

IN_WORDS = {'english': ['in'], 'spanish': ['en'], 'french': ['dans'], 'portuguese': ['em'], 'german': ['in'],
            'italian': ['tra', 'fra', 'in'], 'dutch': ['over', 'in']}

# day-or-longer unit words (independent lexicon; the same words C10 uses)
DATE_UNIT_WORDS = {
    'english': 'day days week weeks month months year years', 'spanish': 'día días semana semanas mes meses año años',
    'french': 'jour jours semaine semaines mois an ans', 'portuguese': 'dia dias semana semanas mês meses ano anos',
    'german': 'tag tage tagen woche wochen monat monate monaten jahr jahre jahren',
    'italian': 'giorno giorni settimana settimane mese mesi anno anni', 'dutch': 'dag dagen week weken maand maanden jaar jaren',
}


def in_block_of(fn):
    for n in ast.walk(fn):
        if isinstance(n, ast.If) and n.body and isinstance(n.body[0], ast.Assign) and 'in_connector_regex' in ast.unparse(n.body[0]):
            return n
    return None


def in_block_emits(idx, W, owner, block, ucfg, connector, unit):
    """does the in/within block of extractor_duration_with_before_and_after emit a token for '<connector> 2 <unit>'?
    (the duration extractor has found '2 <unit>'; no ago/later word matched before)"""
    def res(node):
        if isinstance(node, ast.Attribute) and isinstance(node.value, ast.Name) and node.value.id == 'config':
            try:
                vals = W.resolve(ucfg, node.attr)
            except AnalysisError as e:
                raise Undetermined(str(e))
            if len(vals) == 1:
                return vals[0].value
        raise Undetermined('attribute %s' % ast.unparse(node)[:40])

    ev = MiniEval(idx, owner, res)

    def hook(call, args, env):
        cn = _callee_name(call)
        if cn == 'Token':
            return True, tuple(args)
        if cn == 'MatchedIndex':
            return True, Obj(**{k.arg: ev.expr(k.value, env) for k in call.keywords if k.arg})
        if cn == 'ConditionalMatch' and len(args) == 2:
            return True, Obj(match=args[0], success=bool(args[1]))
        return False, None
    ev.call_hook = hook
    source = '%s 2 %s' % (connector, unit)
    start = len(connector) + 1
    text = '2 %s' % unit
    env = {'source': source, 'extract_result.start': start, 'extract_result.length': len(text), 'extract_result.text': text,
           'before_string': source[:start], 'after_string': '', 'ret': [], 'index': 0, 'is_match': False, 'pos': len(source),
           'config': '<config>'}
    try:
        ev.block([block], env)
    except _Return:
        pass
    except Undetermined as e:
        raise AnalysisError("in/within block cannot be interpreted for %r: %s" % (source, e))
    return [t for t in env['ret'] if isinstance(t, tuple)], source


# ---- this/next/last <weekday> through the configuration (C08.weekdayphrase) -----------------------------------------

WEEKDAY_TEMPLATES = {
    'english': {'next': ['next {d}'], 'last': ['last {d}'], 'this': ['this {d}']},
    'spanish': {'next': ['próximo {d}', 'el próximo {d}', '{d} próximo'], 'last': ['{d} pasado', 'el {d} pasado', 'pasado {d}'], 'this': ['este {d}']},
    'french': {'next': ['{d} prochain'], 'last': ['{d} dernier'], 'this': ['ce {d}']},
    'portuguese': {'next': ['próxima {d}', 'próximo {d}'], 'last': ['{d} passada', '{d} passado', 'última {d}', 'último {d}'], 'this': ['esta {d}', 'este {d}']},
    'german': {'next': ['nächsten {d}', 'nächster {d}'], 'last': ['letzten {d}', 'letzter {d}'], 'this': ['diesen {d}', 'dieser {d}']},
    'italian': {'next': ['{d} prossimo', 'prossimo {d}'], 'last': ['{d} scorso', 'scorso {d}'], 'this': ['questo {d}']},
    'dutch': {'next': ['volgende {d}'], 'last': ['vorige {d}', 'afgelopen {d}'], 'this': ['deze {d}']},
    'chinese': {'next': ['下{d}'], 'last': ['上{d}'], 'this': ['这{d}', '本{d}']},
}


# ---- every spelling of a weekday in the wired table (C08.weekdaykeys) -------------------------------------------------

_CJK_LAST = {'一': 1, '二': 2, '三': 3, '四': 4, '五': 5, '六': 6, '日': 7, '天': 7}


def _fold_spelling(s):
    import unicodedata
    s = unicodedata.normalize('NFD', s.lower())
    s = ''.join(c for c in s if not unicodedata.combining(c))
    return s.rstrip('.').strip()


def weekday_of_spelling(cul, key, lexicon):
    """the ISO weekday (1..7) a table key spells according to the reference lexicon, or (None, reason):
    accent-folded, trailing dot dropped; a key is a spelling of the weekday whose reference name shares its longest common
    prefix with the key (at least three letters, or the whole key when it is a two-letter abbreviation); a tie between
    different weekdays decides nothing. CJK names are read by their last character."""
    k = _fold_spelling(key)
    if not k:
        return None, 'empty key'
    if any(ord(c) >= 0x2e80 for c in k):
        n = _CJK_LAST.get(k[-1])
        return (n, None) if n else (None, 'last character is not a weekday numeral')
    best = {}
    for name, n in lexicon.items():
        f = _fold_spelling(name)
        l = 0
        while l < len(k) and l < len(f) and k[l] == f[l]:
            l += 1
        if l >= 3 or (l == len(k) and l >= 2):
            best[n] = max(best.get(n, 0), l)
    if not best:
        return None, 'not an abbreviation of a reference weekday name'
    top = max(best.values())
    winners = sorted(n for n, l in best.items() if l == top)
    if len(winners) != 1:
        return None, 'abbreviates more than one weekday (%s)' % '/'.join(map(str, winners))
    return winners[0], None


def _row_line(idx, val, key):
    """line of the row `key` in the resource table behind a wiring value (display only)"""
    for m in idx.mods.values():
        if m.path == val.path:
            for c in ast.walk(m.tree):
                if isinstance(c, ast.ClassDef) and c.name == val.res_cls:
                    for st in c.body:
                        if isinstance(st, ast.Assign) and _is_name(st.targets[0], val.name or ''):
                            for x in ast.walk(st.value):
                                if isinstance(x, ast.Constant) and x.value == key:
                                    return x.lineno
    return val.line


_BRANCHES = {}      # parse_implicit_date FunctionDef -> implicit_branches(fn)
_RESOLVED = {}      # (Wiring, configuration Cls, attribute) -> resolved values of self.config.<attribute>


def weekday_phrase_eval(idx, W, parser, fn, cfg, slot, phrase, ref, enum_vals, consts, swift_of=None, full=False):
    """interpret the `match = ...(self.config.<slot>, ...)` statement and the branch it guards for one phrase:
    the date stored as result.future_value, or None when the branch is not taken.
    swift_of: callable(text) standing for self.config.get_swift_day (the culture's own method, interpreted by the caller);
    full=True: (future_value, past_value, timex) instead of the future value alone"""
    brs = _BRANCHES.get(fn)
    if brs is None:
        brs = _BRANCHES[fn] = implicit_branches(fn)       # keyed by the node itself: one walk per function per run
    if slot not in brs:
        raise AnalysisError('%s.parse_implicit_date: no branch for config.%s' % (parser.name, slot))
    ifnode = brs[slot][0]
    i = fn.body.index(ifnode)
    stmts = [fn.body[i - 1], ifnode]

    def res(node):
        txt = ast.unparse(node)
        if txt.startswith('self.config.') and isinstance(node, ast.Attribute) and txt.count('.') == 2:
            key = (W, cfg, node.attr)
            if key not in _RESOLVED:
                try:
                    _RESOLVED[key] = W.resolve(cfg, node.attr)
                except AnalysisError as e:
                    _RESOLVED[key] = Undetermined(str(e))
            vals = _RESOLVED[key]
            if isinstance(vals, Undetermined):
                raise Undetermined(str(vals))
            if len(vals) == 1:
                return vals[0].value
        if isinstance(node, ast.Attribute) and isinstance(node.value, ast.Name):
            if node.value.id == 'DayOfWeek' and node.attr in enum_vals:
                return enum_vals[node.attr]
            if node.value.id == 'Constants' and node.attr in consts:
                return consts[node.attr]
        raise Undetermined('attribute %s' % txt[:40])

    ev = MiniEval(idx, parser, res)

    def hook(call, args, env):
        if _callee_name(call) == 'ConditionalMatch' and len(args) == 2:
            return True, Obj(match=args[0], success=bool(args[1]))
        if swift_of is not None and _callee_name(call) == 'get_swift_day' and len(args) == 1 and isinstance(args[0], str) \
                and isinstance(call.func, ast.Attribute) and ast.unparse(call.func.value) == 'self.config':
            return True, swift_of(args[0])
        return False, None
    ev.call_hook = hook
    rec = Obj()
    env = {'trimmed_source': phrase, 'source': phrase, 'reference': ref, 'result': rec}
    try:
        ev.block(stmts, env)
    except _Return:
        pass
    except Undetermined as e:
        raise AnalysisError('%s.parse_implicit_date[%s] cannot be interpreted on %r: %s' % (parser.name, slot, phrase, e))
    if full:
        return tuple(getattr(rec, a, env.get('result.' + a)) for a in ('future_value', 'past_value', 'timex'))
    return getattr(rec, 'future_value', env.get('result.future_value'))


# ---- the date TIMEX names the calendar day of the value (C08.datetimex) ---------------------------------------------

def calendar_timex(d):
    """independent reference: the TIMEX of a calendar day is its proleptic Gregorian year-month-day, zero padded"""
    return '%04d-%02d-%02d' % (d.year, d.month, d.day)


def isoyear_refs():
    """reference datetimes around New Year for every weekday 1 January can fall on (the ISO week-numbering year differs from
    the calendar year on 1-3 January in W52/W53 and on 29-31 December in W01), the ends of the quantified range, and
    mid-year controls"""
    out = []
    for y in (2015, 2016, 2018, 2019, 2020, 2021, 2022, 2023):          # 1 January: Thu Fri Mon Tue Wed Fri(after W53) Sat Sun
        first = _dt.datetime(y, 1, 1, 9, 30, 15)
        for k in range(-12, 12):
            out.append(first + _dt.timedelta(days=k))
    out += [_dt.datetime(1950, 1, 1, 7, 0), _dt.datetime(1950, 1, 2, 7, 0), _dt.datetime(2089, 12, 31, 22, 0), _dt.datetime(2090, 12, 31, 0, 0),
            _dt.datetime(2019, 6, 15, 9, 30), _dt.datetime(2020, 2, 29, 23, 59, 59), _dt.datetime(2016, 3, 1, 0, 0)]
    return out


def date_helper_cases(idx, owner, fn):
    """interpret a datetime -> date-TIMEX helper over every day of 25 Dec .. 7 Jan 1950..2090 and the 1st/15th/last day of every
    month of 2015-2024: [(date, got, want)] that differ, number of cases"""
    days = []
    for y in range(1950, 2091):
        first = _dt.datetime(y, 1, 1, 13, 5, 9)
        for k in range(-7, 7):
            d = first + _dt.timedelta(days=k)
            if 1950 <= d.year <= 2090:
                days.append(d)
    for y in range(2015, 2025):
        for m in range(1, 13):
            nxt = _dt.datetime(y + m // 12, m % 12 + 1, 1)
            days += [_dt.datetime(y, m, 1), _dt.datetime(y, m, 15, 23, 59, 59), nxt - _dt.timedelta(days=1)]
    bad = []
    for d in days:
        try:
            got = MiniEval(idx, owner).call(fn, [d])
        except Undetermined as e:
            raise AnalysisError('%s.%s cannot be interpreted on %s: %s' % (owner.name if owner else '<control>', fn.name, d, e))
        if got != calendar_timex(d):
            bad.append((d, got, calendar_timex(d)))
    return bad, len(days)


def date_result_timex(idx, owner, fn, consts, mode_vals, unit, n, ref, fut):
    """interpret get_date_result(unit, n, ref, fut, AgoLaterMode.DATE): (future_value, past_value, timex) as stored on the result"""
    def res(node):
        if isinstance(node, ast.Attribute) and isinstance(node.value, ast.Name):
            if node.value.id == 'Constants' and node.attr in consts:
                return consts[node.attr]
            if node.value.id == 'AgoLaterMode' and node.attr in mode_vals:
                return mode_vals[node.attr]
        raise Undetermined('attribute %s' % ast.unparse(node)[:40])
    ev = MiniEval(idx, owner, res)
    rec = Obj()
    env = {'unit_str': unit, 'num': n, 'reference': ref, 'is_future': fut, 'mode': mode_vals['DATE'], 'result': rec}
    try:
        ev.block(fn.body, env)
    except _Return:
        pass
    except Undetermined as e:
        raise AnalysisError('%s.%s cannot be interpreted in date mode: %s' % (owner.name if owner else '<control>', fn.name, e))
    final = env.get('result') if isinstance(env.get('result'), Obj) else rec
    return tuple(getattr(final, a, None) for a in ('future_value', 'past_value', 'timex'))


REF_PERIOD = {'is_week_only': ('days', 7), 'is_weekend': ('days', 7), 'is_month_only': ('months', 1), 'is_year_only': ('years', 1)}


def chinese_agolater(fn, consts):
    """ChineseDateParser.parser_duration_with_ago_and_later: [(direction, letter, nf or None, stmt text, lineno)]"""
    locals_ = {}
    for n in ast.walk(fn):
        if isinstance(n, ast.Assign) and len(n.targets) == 1 and isinstance(n.targets[0], ast.Name):
            locals_.setdefault(n.targets[0].id, []).append(n.value)
    out = []
    for st in ast.walk(fn):
        if not isinstance(st, ast.If):
            continue
        direction = None
        for nm in ast.walk(st.test):
            if isinstance(nm, ast.Name) and nm.id in locals_:
                attrs = {a.attr for v in locals_[nm.id] for a in ast.walk(v) if isinstance(a, ast.Attribute)}
                if 'before_regex' in attrs:
                    direction = 'before'
                elif 'after_regex' in attrs:
                    direction = 'after'
        if direction is None:
            continue
        chain, _ = eq_chain(st.body, 'unit_str', consts)
        if chain is None:
            continue
        for letters, body, ln in chain:
            nf = None
            if len(body) == 1 and isinstance(body[0], ast.Assign) and isinstance(body[0].value, ast.BinOp) \
                    and isinstance(body[0].value.op, ast.Add) and _is_name(body[0].value.left, 'reference'):
                nf = delta_nf(body[0].value.right, consts)
            for L in letters:
                out.append((direction, L, nf, ast.unparse(body[0])[:80] if body else '', ln))
    return out


def make_resolver(idx, W, cfg):
    """resolver for MiniEval: self.<attr> / Class.<attr> / Resource.<attr> -> evaluated wiring value"""
    def resolver(node):
        if isinstance(node, ast.Attribute) and isinstance(node.value, ast.Name):
            try:
                if node.value.id == 'self':
                    vals = W.resolve(cfg, node.attr)
                else:
                    c = idx.resolve_class(cfg.mod, node.value)
                    if c is None:
                        raise Undetermined('name %s' % node.value.id)
                    vals = W.resolve(c, node.attr) if '.resources.' not in c.mod.name else W.eval(node, cfg, None)
            except AnalysisError as e:
                raise Undetermined(str(e))
            if len(vals) == 1:
                return vals[0].value
            if vals and all(isinstance(v.value, str) for v in vals):
                return [v.value for v in vals]
        raise Undetermined('attribute %s' % ast.unparse(node)[:40])
    return resolver


def rel_period_eval(idx, W, cfg, phrase, pred_order):
    """(accepted by one_word_period_regex?, swift, first true unit predicate or None)"""
    res = make_resolver(idx, W, cfg)
    accepted = None
    try:
        ow = W.patterns(cfg, 'one_word_period_regex')
        if len(ow) == 1:
            m = PyPattern(ow[0].value).re.search(phrase)
            accepted = bool(m and len(m.group()) == len(phrase))
    except (AnalysisError, rx.RxError):
        accepted = None
    k, fn = idx.find_method(cfg, 'get_swift_day_or_month')
    if fn is None:
        raise AnalysisError('%s has no get_swift_day_or_month' % cfg.name)
    try:
        swift = MiniEval(idx, cfg, res).call(fn, [phrase])
    except Undetermined as e:
        raise AnalysisError('%s.get_swift_day_or_month cannot be interpreted on %r: %s' % (cfg.name, phrase, e))
    unit = None
    for pn in pred_order:
        k2, f2 = idx.find_method(cfg, pn)
        if f2 is None:
            raise AnalysisError('%s has no %s' % (cfg.name, pn))
        try:
            if MiniEval(idx, cfg, res).call(f2, [phrase]):
                unit = pn
                break
        except Undetermined as e:
            unit = 'undetermined (%s)' % e
            break
    return accepted, swift, unit


def family_of(idx, cls):
    for k in idx.mro(cls)[1:]:
        if k.name.endswith('ParserConfiguration') and Wiring.culture_of(k) is None and k.mod.name.startswith(DT):
            return k.name
    return None


META = {
    'text': 'Partial (necessary conditions). Decided: the unit->delta table of AgoLaterUtil.get_date_result equals '
            '{D days*1, W days*7, MON months, Y years, H hours, M minutes, S seconds} with every delta num*swift and swift '
            '= +1 exactly when is_future; ago -> False/before, later/in -> True/after; DateUtils.this/next/last interpreted '
            'exhaustively over two weeks x eight weekday values; parse_implicit_date wires next/last/this regexes to '
            'DateUtils.next/last/this and special days to today + swift days; one-word periods shift by 7*swift days, swift '
            'months, swift years; today/tomorrow/yesterday lexicon evaluated through every culture\'s get_swift_day; '
            'sibling cross-check of all get_swift* implementations (sign per guard kind, magnitude per resource guard, '
            'one sign per guard within a culture).',
    'note': 'Not decided: ISO-week/year arithmetic at year boundaries, month-end clamping inside datedelta, which phrases the '
            'patterns accept, the extractor pipeline. Guards that cannot be classified (special-day literals, foreign '
            'literals) are exempt and counted. Methods serving date-time/holiday phrases are outside the families C08 '
            'lists: their deviations are observations (French DateTimeParserConfiguration.get_swift_day has reversed '
            'polarity). The Chinese before/after chain ignores N for months/years (outside the N days|weeks family).',
    'technique': 'normal forms of delta expressions; small AST interpreter over str/int/datetime for helper methods; '
                 'wiring resolution; sibling cross-check',
}


def run(chk):
    idx = get_index()
    W = Wiring(idx)
    chk.explanation = ('relative dates: unit->delta table, ago/later polarity, DateUtils.this/next/last semantics, implicit-date '
                       'and one-word-period wiring, special-day lexicon through get_swift_day, sibling cross-check of get_swift*')
    chk.rule('C08.unit_delta', 'unit letter -> (delta field, multiplier) equals the reference table; deltas are num*swift', floor=9, control=True)
    chk.rule('C08.polarity', 'swift is +1 exactly when is_future', floor=2, control=True)
    chk.rule('C08.agolater', 'ago -> is_future False + before; later/in -> True + after (interpreted per scenario)', floor=3, control=True)
    chk.rule('C08.weekday', 'DateUtils.this/next/last give the weekday of the same ISO week / +7 / -7 days', floor=3, control=True)
    chk.rule('C08.implicit', 'parse_implicit_date wires next/last/this regexes and special days correctly', floor=8, control=True)
    chk.rule('C08.period', 'one-word periods shift by 7*swift days / swift months / swift years', floor=4, control=True)
    chk.rule('C08.weektimex', 'the week TIMEX of this/next/last week names the ISO week-year and ISO week number of one and the same week',
             floor=1, control=True)
    chk.rule('C08.quarter', "quarter clause: 'last/this/next quarter' is calendar arithmetic on quarters (q0 = ceil(month/3) + swift; "
             "year += (q0-1)//4; quarter = (q0-1)%4 + 1), tabulated for month 1..12 x swift -1/0/+1", floor=3, control=True)
    chk.rule('C08.oneword', "this/next/last week|month|year (and weekend): the [start, end) handed to the result is the shifted unit of the "
             "shifted year and denotes the same period as the TIMEX (tabulated over 72 reference dates x swift -1/0/+1)", floor=6, control=True)
    chk.rule('C08.now', "'now' resolves to the reference itself: the value is the reference object or a datetime built from all of its "
             "fields down to the second (date granularity only where the branch also emits a date TIMEX)", floor=2, control=True)
    chk.rule('C08.weekdayphrase', "this/next/last <weekday> phrases, taken through each culture's configuration (regexes, prefix regexes, weekday "
             "table) and the parser branch they reach, give the weekday of the current/following/preceding ISO week (7 x 7 tabulation)",
             floor=15, control=True)
    chk.rule('C08.weekdaykeys', "every key of the wired weekday table that spells a weekday (abbreviation, plural, accent or dotted variant "
             "of a reference name; CJK by last character) and is accepted in a this/next/last phrase resolves to that weekday of the "
             "current/following/preceding ISO week", floor=40, control=True)
    chk.rule('C08.datetimex', "the date TIMEX of today/tomorrow/yesterday, this/next/last <weekday> and N days|weeks ago/later is the "
             "year-month-day of the resolved value's calendar date (helper and branches tabulated at year boundaries, where the ISO "
             "week-numbering year differs from the calendar year)", floor=5, control=True)
    chk.rule('C08.inprefix', "'<in> N <unit>' is emitted as a date by the in/within block for every unit of a day or longer", floor=6, control=True)
    chk.rule('C08.wiring', 'next/last/this (and ago/later) slots are wired to regexes of that kind in every culture', floor=50)
    chk.rule('C08.specialday', 'today/tomorrow/yesterday lexicon evaluates to 0/+1/-1 (+-2) through get_swift_day', floor=30, control=True)
    chk.rule('C08.relperiod', 'this/next/last week|month|year phrases evaluate to the right unit predicate and swift in every culture',
             floor=60, control=True)
    chk.rule('C08.swift', 'get_swift* siblings: sign per guard kind, magnitude per resource guard, one sign per guard', floor=100, control=True)
    chk.assume('datedelta(months=n)/(years=n) is calendar month/year addition (the package is not in the tree)')

    consts = class_consts(idx, DT + 'constants.Constants')
    tconsts = class_consts(idx, DT + 'constants.TimeTypeConstants')
    al = idx.cls(DT + 'utilities.AgoLaterUtil')
    du = idx.cls(DT + 'utilities.DateUtils')
    upath = al.mod.path
    chk.consulted(upath)

    # ---- C08.unit_delta / polarity : decided by interpretation (any formulation: if/elif chain, table of builders ...)
    gdr = al.methods.get('get_date_result')
    galr = al.methods.get('get_ago_later_result')
    if gdr is None or galr is None:
        raise AnalysisError('anchor vanished: AgoLaterUtil.get_date_result / get_ago_later_result')
    unit_consts = {v for k, v in consts.items() if k.startswith('UNIT_') and isinstance(v, str)}
    for need in REF_DELTA:
        if need not in unit_consts:
            raise AnalysisError('Constants.UNIT_* no longer contains %r' % need)
    for p_ in ('unit_str', 'num', 'reference', 'is_future'):
        if p_ not in _param_names(gdr):
            raise AnalysisError('get_date_result: parameter `%s` is gone (%s)' % (p_, _param_names(gdr)))
    refs_ = [_dt.datetime(2016, 1, 31, 10, 30, 5), _dt.datetime(2016, 2, 29, 23, 59, 59), _dt.datetime(2015, 12, 31, 0, 0), _dt.datetime(2016, 11, 7, 12, 0)]
    for L in REF_DELTA:
        wrong, n_cases = [], 0
        for ref in refs_:
            for n in (1, 2, 5, 13, 30):
                for fut in (True, False):
                    got, gotp = date_result_eval(idx, al, gdr, consts, L, n, ref, fut)
                    wantv = date_result_expected(ref, L, n if fut else -n)
                    n_cases += 1
                    if got != wantv or gotp != wantv:
                        wrong.append('%s %s %d %s -> %s (expected %s)' % (ref, 'in' if fut else 'ago', n, L, got, wantv))
        chk.judge(not wrong, 'C08.unit_delta', upath, "AgoLaterUtil.get_date_result[%r]" % L,
                  '%d interpreted cases: reference +/- N %s' % (n_cases, '%s*%d' % REF_DELTA[L]) if not wrong else
                  '%d of %d differ; first: %s' % (len(wrong), n_cases, wrong[0]),
                  'unit %r: %s (%d of %d interpreted cases differ); the reference table says N x %s*%d, forward when is_future'
                  % (L, wrong[0] if wrong else '', len(wrong), n_cases, REF_DELTA[L][0], REF_DELTA[L][1]), gdr.lineno)
    # an unknown unit yields no value
    gx, _gp = date_result_eval(idx, al, gdr, consts, 'no-such-unit', 1, refs_[0], True)
    chk.judge(gx is None, 'C08.unit_delta', upath, 'AgoLaterUtil.get_date_result#unknown-unit', 'no value' if gx is None else str(gx),
              'an unknown unit code yields the value %s' % gx, gdr.lineno)
    ctl_fn = ast.parse("def get_date_result(unit_str, num, reference, is_future, mode):\n    value = reference\n    swift = 1 if is_future else -1\n"
                       "    if unit_str == 'W':\n        value += timedelta(days=num * swift)\n    result.future_value = value\n    result.past_value = value\n    return result\n").body[0]
    cg, _ = date_result_eval(idx, al, ctl_fn, consts, 'W', 1, refs_[3], True)
    chk.control('C08.unit_delta', cg != refs_[3] + _dt.timedelta(days=7))
    # the textual unit chain, when there is one, is kept as evidence
    try:
        table, probs, facts = unit_delta_table(gdr, consts)
        if table:
            chk.observe('get_date_result unit chain: ' + ', '.join('%s=%s(%s*%d)' % (k, v[0], v[1], v[2]) for k, v in sorted(table.items())))
    except AnalysisError:
        chk.observe('get_date_result has no `unit_str == Constants.UNIT_*` chain; the unit table is decided by interpretation only')

    for fut, sign in ((True, 1), (False, -1)):
        got, _gp = date_result_eval(idx, al, gdr, consts, 'D', 1, refs_[3], fut)
        chk.judge(got == refs_[3] + _dt.timedelta(days=sign), 'C08.polarity', upath, 'AgoLaterUtil.get_date_result#swift[is_future=%s]' % fut,
                  '1 D -> %s' % got, 'with is_future=%s one day moves the reference %s to %s, expected %s'
                  % (fut, refs_[3], got, refs_[3] + _dt.timedelta(days=sign)), gdr.lineno)
    ctl = ast.parse("def f(unit_str, num, reference, is_future, mode):\n    swift = -1 if is_future else 1\n    value = reference + timedelta(days=num * swift)\n"
                    "    result.future_value = value\n    result.past_value = value\n    return result\n").body[0]
    cg, _ = date_result_eval(idx, al, ctl, consts, 'D', 1, refs_[3], True)
    chk.control('C08.polarity', cg != refs_[3] + _dt.timedelta(days=1))

    # ---- C08.agolater : decided by interpretation with the word tests stubbed (ago / later / in / none)
    want = {'ago': (False, 'before'), 'later': (True, 'after'), 'in': (True, 'after')}
    for scen in ('ago', 'later', 'in', 'none'):
        calls, mod = agolater_eval(idx, al, galr, tconsts, scen)
        cons = 'AgoLaterUtil.get_ago_later_result[%s]' % scen
        if scen == 'none':
            chk.judge(not calls, 'C08.agolater', upath, cons, 'no date computed' if not calls else 'is_future=%r' % (calls[0],),
                      'without an ago/later/in word a date is still computed (is_future=%r)' % (calls[0] if calls else None), galr.lineno)
            continue
        got = (calls[0] if len(calls) == 1 else calls, mod)
        chk.judge(got == want[scen], 'C08.agolater', upath, cons, 'is_future=%r mod=%r' % got,
                  "'%s' phrase: get_date_result is called with is_future=%r and the duration is marked %r; expected %r / %r"
                  % (scen, got[0], got[1], want[scen][0], want[scen][1]), galr.lineno)
    ctl = ast.parse("def g(duration_parse_result, num, unit_map, src_unit, after_str, before_str, reference, utility_configuration, mode):\n"
                    "    unit_str = unit_map.get(src_unit)\n"
                    "    contains_ago = MatchingUtil.contains_ago_later_index(after_str, utility_configuration.ago_regex, True)\n"
                    "    if contains_ago:\n        result = AgoLaterUtil.get_date_result(unit_str, num, reference, True, mode)\n"
                    "        duration_parse_result.value.mod = TimeTypeConstants.BEFORE_MOD\n        return result\n").body[0]
    cc, cm = agolater_eval(idx, al, ctl, tconsts, 'ago')
    chk.control('C08.agolater', cc == [True])

    # ---- C08.weekday
    enum = {k: v.value for k, v in idx.cls(DT + 'utilities.DayOfWeek').attrs.items() if isinstance(v, ast.Constant)}
    wp = weekday_semantics(idx, du, enum)
    by = {}
    for n, d, w, got, wantd in wp:
        by.setdefault(n, []).append((d, w, got, wantd))
    for n in ('this', 'next', 'last'):
        if n in by:
            d, w, got, wantd = by[n][0]
            chk.bad('C08.weekday', upath, 'DateUtils.%s' % n, '%d of 112 cases differ' % len(by[n]),
                    'DateUtils.%s(%s, %d) evaluates to %s, expected %s (%d of 112 interpreted cases differ)'
                    % (n, d.date(), w, got.date() if hasattr(got, 'date') else got, wantd.date(), len(by[n])), du.methods[n].lineno)
        else:
            chk.ok('C08.weekday', upath, 'DateUtils.%s' % n, '112 interpreted cases agree', du.methods[n].lineno)
    ctl_cls = ast.parse("def next(from_date, day_of_week):\n    return from_date + timedelta(days=day_of_week - from_date.isoweekday()) + timedelta(days=1)\n").body[0]
    try:
        r = MiniEval(idx).call(ctl_cls, [_dt.datetime(2016, 2, 22), 1])
        chk.control('C08.weekday', r != _dt.datetime(2016, 2, 29))
    except Undetermined:
        pass

    # ---- C08.implicit (base parser and every override)
    base_parser = idx.cls(DT + 'base_date.BaseDateParser')
    impls = [base_parser] + [k for k in idx.subclasses(base_parser) if 'parse_implicit_date' in k.methods]
    want_calls = {'next_regex': {'next'}, 'last_regex': {'last'}, 'this_regex': {'this'}}
    for k in impls:
        fn = k.methods.get('parse_implicit_date')
        if fn is None:
            raise AnalysisError('anchor vanished: %s.parse_implicit_date' % k.name)
        chk.consulted(k.mod.path)
        brs = implicit_branches(fn)
        for attr, wantset in want_calls.items():
            if attr not in brs:
                raise AnalysisError('%s.parse_implicit_date: no branch for config.%s' % (k.name, attr))
            st, calls = brs[attr]
            chk.judge(calls == wantset, 'C08.implicit', k.mod.path, '%s.parse_implicit_date[%s]' % (k.name, attr),
                      'DateUtils.%s(reference, ..)' % '/'.join(sorted(calls)),
                      'the %s branch calls DateUtils.%s on the reference, expected DateUtils.%s'
                      % (attr, '/'.join(sorted(calls)) or 'nothing', next(iter(wantset))), st.lineno)
        if 'special_day_regex' not in brs:
            raise AnalysisError('%s.parse_implicit_date: no branch for config.special_day_regex' % k.name)
        st, _ = brs['special_day_regex']
        src, var, deltas = special_day_delta(st, consts)
        ok = src == 'get_swift_day' and len(deltas) == 1 and deltas[0][0][1:] == ('days', 1, (var,))
        base_ok = False
        if ok:
            b = deltas[0][1]
            if _is_name(b, 'reference'):
                base_ok = True
            elif isinstance(b, ast.Name):
                for s in ast.walk(st):
                    if isinstance(s, ast.Assign) and _is_name(s.targets[0], b.id) and isinstance(s.value, ast.Call):
                        args = [ast.unparse(a) for a in s.value.args]
                        base_ok = args[:3] == ['reference.year', 'reference.month', 'reference.day']
        chk.judge(ok and base_ok, 'C08.implicit', k.mod.path, '%s.parse_implicit_date[special_day_regex]' % k.name,
                  '%s -> + timedelta(days=%s) on the reference date' % (src, var),
                  'special days are not reference-date + timedelta(days=get_swift_day(..))', st.lineno)
    ctl = ast.parse("def parse_implicit_date(self, source, reference):\n    match = regex.match(self.config.next_regex, s)\n"
                    "    if match and match.start() == 0:\n        value = DateUtils.last(reference, 1)\n").body[0]
    chk.control('C08.implicit', implicit_branches(ctl)['next_regex'][1] != {'next'})

    # ---- C08.period
    bpp = idx.cls(DT + 'base_dateperiod.BaseDatePeriodParser')
    pf = bpp.methods.get('_parse_one_word_period')
    if pf is None:
        raise AnalysisError('anchor vanished: BaseDatePeriodParser._parse_one_word_period')
    chk.consulted(bpp.mod.path)
    shifts, swifts = period_shifts(pf, consts)
    seen_guards = set()
    for guard, nf, ln in shifts:
        cons = 'BaseDatePeriodParser._parse_one_word_period[%s]' % guard
        if guard not in REF_PERIOD:
            chk.exempt('C08.period', bpp.mod.path, cons, 'shift under a guard the reference table does not list', str(nf[1:3]), ln)
            continue
        seen_guards.add(guard)
        ok = (nf[1], nf[2]) == REF_PERIOD[guard] and len(nf[3]) == 1
        chk.judge(ok, 'C08.period', bpp.mod.path, cons, '%s = %d * %s' % (nf[1], nf[2], '*'.join(nf[3])),
                  'under %s the period is shifted by %s=%d*%s, expected %s=%d*swift'
                  % (guard, nf[1], nf[2], '*'.join(nf[3]), REF_PERIOD[guard][0], REF_PERIOD[guard][1]), ln)
    for g in ('is_week_only', 'is_month_only', 'is_year_only'):
        if g not in seen_guards:
            chk.exempt('C08.period', bpp.mod.path, 'BaseDatePeriodParser._parse_one_word_period[%s]' % g,
                       'the shift under %s is not written as a t/datedelta of the swift; the branch is decided by interpretation (C08.oneword)' % g,
                       'no delta form', pf.lineno)
    ctl = ast.parse("def p(self):\n    swift = self.config.get_swift_day_or_month(t)\n    if self.config.is_week_only(t):\n"
                    "        d = DateUtils.this(reference, 1) + datedelta(days=swift)\n").body[0]
    cs, _ = period_shifts(ctl, consts)
    chk.control('C08.period', bool(cs) and (cs[0][1][1], cs[0][1][2]) != REF_PERIOD['is_week_only'])

    # ---- C08.weektimex
    n, wbad, rbad = week_timex_cases(idx, bpp, pf, 'is_week_only', enum, consts, swifts, 1)
    cons = 'BaseDatePeriodParser._parse_one_word_period[is_week_only]#timex'
    if wbad:
        ref, sw, got, wantt = wbad[0]
        chk.bad('C08.weektimex', bpp.mod.path, cons, '%d of %d interpreted cases differ; first: reference %s swift %+d -> %s, ISO week %s'
                % (len(wbad), n, ref.date(), sw, got, wantt),
                'week TIMEX does not name the ISO week: at reference %s with swift %+d the branch assembles %r, the target week is %s '
                '(%d of %d interpreted year-boundary cases differ) - year and week number must come from the same ISO week'
                % (ref.date(), sw, got, wantt, len(wbad), n), pf.lineno)
    else:
        chk.ok('C08.weektimex', bpp.mod.path, cons, '%d interpreted cases equal isocalendar() of the target week' % n, pf.lineno)
    if rbad:
        ref, sw, got, wantd = rbad[0]
        chk.bad('C08.weektimex', bpp.mod.path, cons + '/begin', '%d of %d begin dates differ' % (len(rbad), n),
                'this/next/last week: at reference %s with swift %+d the period begins %s, the target week begins %s'
                % (ref.date(), sw, got.date(), wantd.date()), pf.lineno)
    else:
        chk.ok('C08.weektimex', bpp.mod.path, cons + '/begin', 'begin date is the monday of the target week in %d cases' % n, pf.lineno)
    try:
        n2, ebad, _ = week_timex_cases(idx, bpp, pf, 'is_weekend', enum, consts, swifts, 6, '-WE')
        cons2 = 'BaseDatePeriodParser._parse_one_word_period[is_weekend]#timex'
        if ebad:
            ref, sw, got, wantt = ebad[0]
            chk.exempt('C08.weektimex', bpp.mod.path, cons2, "weekends are outside the families C08 lists (this/next/last week|month|year)",
                       '%d of %d differ' % (len(ebad), n2), pf.lineno)
            chk.observe('%s: weekend TIMEX mixes the reference year with the ISO week number: reference %s swift %+d -> %s, ISO week is %s '
                        '(%d of %d year-boundary cases; not a C08 family)' % (bpp.mod.rel, ref.date(), sw, got, wantt, len(ebad), n2))
        else:
            chk.ok('C08.weektimex', bpp.mod.path, cons2, '%d interpreted cases equal isocalendar() of the target weekend' % n2, pf.lineno)
    except AnalysisError as e:
        chk.observe('weekend TIMEX not evaluated: %s' % e)
    ctl = ast.parse(_WEEKTIMEX_CONTROL).body[0]
    _, cbad, _ = week_timex_cases(idx, bpp, ctl, 'is_week_only', enum, consts, {'swift'}, 1)
    chk.control('C08.weektimex', bool(cbad))

    # ---- C08.oneword
    refs = oneword_refs()
    for guard in ('is_month_only', 'is_year_only', 'is_week_only', 'is_weekend'):
        bad_range, bad_timex, n_cases = [], [], 0
        for ref in refs:
            for sw in (-1, 0, 1):
                env = oneword_case(idx, bpp, pf, guard, ref, sw, swifts, enum, consts)
                wt, ws, we = oneword_expected(guard, ref, sw)
                n_cases += 1
                fv, pv, tx = env.get('result.future_value'), env.get('result.past_value'), env.get('result.timex')
                if '<raised>' in env:
                    bad_range.append((ref, sw, 'future', ('raises ' + env['<raised>'], ''), (ws, we), tx))
                    continue
                if not (isinstance(fv, list) and isinstance(pv, list) and len(fv) == 2 and len(pv) == 2):
                    raise AnalysisError('_parse_one_word_period[%s]: no [start, end] pair reaches result.future_value/past_value' % guard)
                for which, pair in (('future', fv), ('past', pv)):
                    got = tuple(x.replace(hour=0, minute=0, second=0, microsecond=0) if isinstance(x, _dt.datetime) else x for x in pair)
                    if got != (ws, we):
                        bad_range.append((ref, sw, which, got, (ws, we), tx))
                if wt is not None and tx != wt:
                    bad_timex.append((ref, sw, tx, wt))
        cons = 'BaseDatePeriodParser._parse_one_word_period[%s]' % guard
        if bad_range:
            ref, sw, which, got, want, tx = bad_range[0]
            chk.bad('C08.oneword', bpp.mod.path, cons + '#range',
                    '%d of %d interpreted cases differ; first: reference %s swift %+d -> [%s, %s), expected [%s, %s)'
                    % (len({(b[0], b[1]) for b in bad_range}), n_cases, ref.date(), sw, getattr(got[0], 'date', lambda: got[0])(),
                       getattr(got[1], 'date', lambda: got[1])(), want[0].date(), want[1].date()),
                    '%s %s: at reference %s (swift %+d) the %s value is [%s, %s) while the TIMEX is %s; calendar arithmetic gives [%s, %s) '
                    '(%d of %d interpreted cases differ)'
                    % ({-1: 'last', 0: 'this', 1: 'next'}[sw], guard[3:-5] if guard != 'is_weekend' else 'weekend', ref.date(), sw, which,
                       got[0], got[1], tx, want[0].date(), want[1].date(), len({(b[0], b[1]) for b in bad_range}), n_cases), pf.lineno)
        else:
            chk.ok('C08.oneword', bpp.mod.path, cons + '#range', '%d interpreted cases: [start, end) is the shifted %s' % (n_cases, guard[3:-5]), pf.lineno)
        if guard in ('is_month_only', 'is_year_only'):
            if bad_timex:
                ref, sw, tx, wt = bad_timex[0]
                chk.bad('C08.oneword', bpp.mod.path, cons + '#timex', '%d of %d differ; first: reference %s swift %+d -> %s, expected %s'
                        % (len(bad_timex), n_cases, ref.date(), sw, tx, wt),
                        '%s: at reference %s (swift %+d) the TIMEX is %r, calendar arithmetic gives %r' % (cons, ref.date(), sw, tx, wt), pf.lineno)
            else:
                chk.ok('C08.oneword', bpp.mod.path, cons + '#timex', '%d interpreted cases: TIMEX names the same period' % n_cases, pf.lineno)
    # positive control: an embedded month branch that forgets to re-bind future_year/past_year to the shifted year
    ctl_fn = ast.parse(_ONEWORD_CONTROL).body[0]
    cenv = oneword_case(idx, bpp, ctl_fn, 'is_month_only', _dt.datetime(2019, 12, 31, 9, 0), 1, {'swift'}, enum, consts)
    cfv = cenv.get('result.future_value')
    chk.control('C08.oneword', isinstance(cfv, list) and cfv[0] != _dt.datetime(2020, 1, 1))

    # ---- C08.now
    sites = now_sites(idx)
    if not sites:
        raise AnalysisError("no 'now' branch (config.now_regex + future_value) found in the date-time parsers")
    R = _dt.datetime(2019, 12, 31, 23, 59, 58, 123456)
    for mod, cls, fn, br in sites:
        chk.consulted(mod.path)
        vals = now_values(idx, cls, br, R)
        cons = '%s.%s[now]' % (cls.name, fn.name)
        if 'future_value' not in vals or 'past_value' not in vals:
            raise AnalysisError('%s: the value of the now-branch cannot be interpreted' % cons)
        tx = vals.get('timex')
        date_only = isinstance(tx, str) and len(tx) == 10 and tx[4] == '-' and tx[7] == '-'
        want_v = R.replace(hour=0, minute=0, second=0, microsecond=0) if date_only else R.replace(microsecond=0)
        okv = all(isinstance(vals[k], _dt.datetime) and vals[k].replace(microsecond=0) == want_v for k in ('future_value', 'past_value'))
        if date_only:
            okv = okv and tx == '%04d-%02d-%02d' % (R.year, R.month, R.day)
        chk.judge(okv, 'C08.now', mod.path, cons, 'reference %s -> value %s%s' % (R.replace(microsecond=0), vals['future_value'],
                                                                                   ' (date TIMEX %s)' % tx if date_only else ''),
                  "%s: with reference %s 'now' resolves to %s / %s, expected %s%s"
                  % (cons, R.replace(microsecond=0), vals['future_value'], vals['past_value'], want_v,
                     ' (the branch emits the date TIMEX %s)' % tx if date_only else ' - every field of the reference down to the second'),
                  br.lineno)
    cctl = ast.parse(_NOW_CONTROL).body[0]
    cbr = [n for n in ast.walk(cctl) if isinstance(n, ast.If)][0]
    cv = now_values(idx, bpp, cbr, R)
    chk.control('C08.now', cv.get('future_value') != R.replace(microsecond=0))

    # ---- C08.quarter
    qf = bpp.methods.get('__parse_quarter') or bpp.methods.get('_parse_quarter')
    if qf is None:
        raise AnalysisError('anchor vanished: BaseDatePeriodParser.__parse_quarter')
    qtab, qline = quarter_tabulate(idx, bpp, qf, consts)
    for sw in (-1, 0, 1):
        wrong = []
        for month in range(1, 13):
            got = qtab[(month, sw)]
            want_q = quarter_expected(2019, month, sw)
            if got != want_q:
                wrong.append('month %d: %s-Q%s (expected %d-Q%d)' % (month, got[0], got[1], want_q[0], want_q[1]))
        chk.judge(not wrong, 'C08.quarter', bpp.mod.path, 'BaseDatePeriodParser.%s[swift %+d]' % (qf.name, sw),
                  '12 reference months agree' if not wrong else '; '.join(wrong),
                  "%s quarter (reference year 2019): %s" % ({-1: 'last', 0: 'this', 1: 'next'}[sw], '; '.join(wrong)), qline)
    ctab, _ = quarter_tabulate(idx, bpp, ast.parse(_QUARTER_CONTROL).body[0], consts)
    chk.control('C08.quarter', ctab[(2, -1)] != quarter_expected(2019, 2, -1))

    # ---- per culture: wiring, special days, get_swift*
    dp_cfgs = W.culture_classes(DT + 'base_date.DateParserConfiguration')
    pp_cfgs = W.culture_classes(DT + 'base_dateperiod.DatePeriodParserConfiguration')
    for cul in CULTURES:
        if cul not in dp_cfgs or cul not in pp_cfgs:
            raise AnalysisError('no date / date-period parser configuration for culture %s' % cul)
    util_cfgs = {}
    for q in ('base_date.DateTimeUtilityConfiguration', 'utilities.DateTimeUtilityConfiguration'):
        util_cfgs.update(W.culture_classes(DT + q))
    if len(util_cfgs) < 7:
        raise AnalysisError('only %d culture utility configurations (ago/later regexes) found' % len(util_cfgs))
    slot_kind = {'next_regex': 'next', 'last_regex': 'past', 'this_regex': 'this'}
    names_by_slot = {}
    for cul in CULTURES:
        cfg = dp_cfgs[cul]
        chk.consulted(cfg.mod.path)
        for slot, kind in slot_kind.items():
            vals = W.patterns(cfg, slot)
            if len(vals) != 1:
                raise AnalysisError('%s.%s: expected one pattern, found %d' % (cfg.name, slot, len(vals)))
            names_by_slot.setdefault(slot, {})[cul] = vals[0].name
            chk.judge(kind_of_name(vals[0].name) == kind, 'C08.wiring', cfg.mod.path, '%s.%s' % (cfg.name, slot), vals[0].label,
                      '%s.%s is wired to %s, which is not a %s-weekday pattern by name' % (cfg.name, slot, vals[0].label, kind))
        # date-period prefix regexes by value
        pcfg = pp_cfgs[cul]
        for attr, kind in (('next_prefix_regex', 'next'), ('previous_prefix_regex', 'past'), ('this_prefix_regex', 'this')):
            try:
                vals = W.patterns(pcfg, attr)
            except AnalysisError:
                continue
            for v in vals:
                ks = kinds_of_regex(cul, v.value)
                if not ks:
                    chk.exempt('C08.wiring', pcfg.mod.path, '%s.%s' % (pcfg.name, attr),
                               'pattern accepts none of the reference %s/%s/%s words (never-matching or foreign pattern)' % ('next', 'last', 'this'),
                               v.label)
                    continue
                chk.judge(kind in ks and (len(ks) == 1 or kind_of_name(v.name) == kind), 'C08.wiring', pcfg.mod.path,
                          '%s.%s' % (pcfg.name, attr), '%s accepts %s words' % (v.label, '/'.join(sorted(ks))),
                          '%s.%s is wired to %s, which accepts the culture\'s %s word(s), expected %s'
                          % (pcfg.name, attr, v.label, '/'.join(sorted(ks)), kind))
        # utility configuration (ago / later)
        uc = util_cfgs.get(cul)
        if uc is not None:
            for attr, key in (('ago_regex', 'Ago'), ('later_regex', 'Later')):
                vals = W.patterns(uc, attr)
                chk.judge(len(vals) == 1 and key in (vals[0].name or ''), 'C08.wiring', uc.mod.path, '%s.%s' % (uc.name, attr),
                          vals[0].label if vals else 'none', '%s.%s is wired to %s' % (uc.name, attr, [v.label for v in vals]))

    # ---- C08.specialday
    for cul in CULTURES:
        cfg = dp_cfgs[cul]
        k, fn = idx.find_method(cfg, 'get_swift_day')
        if fn is None or k is not cfg and Wiring.culture_of(k) is None:
            raise AnalysisError('%s has no get_swift_day implementation' % cfg.name)
        sd = W.patterns(cfg, 'special_day_regex')
        if len(sd) != 1:
            raise AnalysisError('%s.special_day_regex: expected one pattern' % cfg.name)
        try:
            sdp = PyPattern(sd[0].value)
        except rx.RxError as e:
            raise AnalysisError('%s: SpecialDayRegex not translatable: %s' % (cul, e))

        resolver = make_resolver(idx, W, cfg)

        accepted = 0
        for word, want_v in SPECIAL_DAYS[cul].items():
            cons = '%s.get_swift_day(%r)' % (cfg.name, word)
            m = sdp.re.match(word)
            if not (m and m.end() == len(word)):
                chk.exempt('C08.specialday', cfg.mod.path, cons, '%s does not span this spelling (not recognised as a special day)' % sd[0].label)
                continue
            accepted += 1
            try:
                got = MiniEval(idx, cfg, resolver).call(fn, [word])
            except Undetermined as e:
                raise AnalysisError('%s.get_swift_day cannot be interpreted on %r: %s' % (cfg.name, word, e))
            chk.judge(got == want_v, 'C08.specialday', cfg.mod.path, cons, '%r -> %r' % (word, got),
                      '%s: %r resolves to reference %+d day(s), expected %+d' % (cul, word, got if isinstance(got, int) else 0, want_v), fn.lineno)
        if accepted < 3:
            raise AnalysisError('%s: fewer than 3 reference special-day words are accepted by %s' % (cul, sd[0].label))
    ctl = ast.parse("def get_swift_day(self, source):\n    t = source.strip().lower()\n    swift = 0\n    if t == 'tomorrow':\n        swift = -1\n    return swift\n").body[0]
    chk.control('C08.specialday', MiniEval(idx).call(ctl, ['tomorrow']) != 1)

    # ---- C08.weekdayphrase
    from .c06 import WEEKDAYS, parser_of_culture
    parsers = parser_of_culture(idx, W, dp_cfgs)
    week = [_dt.datetime(2019, 12, 23, 10, 0) + _dt.timedelta(days=i) for i in range(7)]      # Monday .. Sunday
    shift = {'next': 7, 'last': -7, 'this': 0}
    slot_of = {'next': 'next_regex', 'last': 'last_regex', 'this': 'this_regex'}
    covered = 0
    for cul in CULTURES:
        cfg = dp_cfgs[cul]
        parser = parsers[cul][0]
        k_, pfn = idx.find_method(parser, 'parse_implicit_date')
        names = list(WEEKDAYS[cul].items())[:7]
        for kind in ('next', 'last', 'this'):
            wrong, n_ok, n_skip = [], 0, 0
            for dname, iso in names:
                phrase = None
                for tpl in WEEKDAY_TEMPLATES[cul][kind]:
                    ph = tpl.format(d=dname)
                    if weekday_phrase_eval(idx, W, parser, pfn, cfg, slot_of[kind], ph, week[0], enum, consts) is not None:
                        phrase = ph
                        break
                if phrase is None:
                    n_skip += 1
                    continue
                for ref in week:
                    got = weekday_phrase_eval(idx, W, parser, pfn, cfg, slot_of[kind], phrase, ref, enum, consts)
                    monday = ref - _dt.timedelta(days=ref.isoweekday() - 1)
                    wantd = (monday + _dt.timedelta(days=iso - 1 + shift[kind])).date()
                    n_ok += 1
                    if not isinstance(got, _dt.datetime) or got.date() != wantd:
                        wrong.append('%r at %s %s -> %s (expected %s)' % (phrase, ref.strftime('%a'), ref.date(),
                                                                         got.date() if isinstance(got, _dt.datetime) else got, wantd))
            cons = '%s[%s <weekday>]' % (cfg.name, kind)
            if n_ok == 0:
                chk.exempt('C08.weekdayphrase', cfg.mod.path, cons, 'none of the reference phrasings is accepted by config.%s' % slot_of[kind],
                           'no phrase accepted')
                continue
            covered += 1
            chk.judge(not wrong, 'C08.weekdayphrase', cfg.mod.path, cons,
                      '%d interpreted (reference weekday, named weekday) cases agree' % n_ok if not wrong else
                      '%d of %d differ; first: %s' % (len(wrong), n_ok, wrong[0]),
                      "%s: '%s <weekday>' does not resolve to that weekday of the %s ISO week: %s (%d of %d interpreted cases differ)"
                      % (cul, kind, {'next': 'following', 'last': 'preceding', 'this': 'current'}[kind], '; '.join(wrong[:3]), len(wrong), n_ok),
                      pfn.lineno)
    if covered < 15:
        raise AnalysisError('weekday phrases are accepted for only %d culture/kind combinations' % covered)
    # positive control: a branch that takes the nearest past weekday
    cw = ast.parse("def parse_implicit_date(self, source, reference):\n    match = regex.match(self.config.last_regex, trimmed_source)\n"
                   "    if match and match.start() == 0 and len(match.group()) == len(trimmed_source):\n"
                   "        weekday_str = match.group('weekday')\n"
                   "        value = DateUtils.this(reference, self.config.day_of_week.get(weekday_str))\n"
                   "        result.future_value = value\n        return result\n").body[0]
    cgot = weekday_phrase_eval(idx, W, parsers['english'][0], cw, dp_cfgs['english'], 'last_regex', 'last monday', week[1], enum, consts)
    chk.control('C08.weekdayphrase', isinstance(cgot, _dt.datetime) and cgot.date() != _dt.date(2019, 12, 16))

    # ---- C08.weekdaykeys : every key of the wired weekday table that spells a weekday and is accepted in a this/next/last phrase
    #      resolves to that weekday (the seven full names are C08.weekdayphrase's; this is every abbreviation / plural / variant)
    from .c06 import origin as _origin
    n_keys = 0
    krefs = (week[2], week[6])
    for cul in CULTURES:
        cfg = dp_cfgs[cul]
        parser = parsers[cul][0]
        k_, pfn = idx.find_method(parser, 'parse_implicit_date')
        dow = W.table(cfg, 'day_of_week')
        lexicon = dict(WEEKDAYS['english']) if cul != 'english' else {}
        lexicon.update(WEEKDAYS[cul])
        full7 = set(list(WEEKDAYS[cul])[:7])
        by_iso = {}
        for nm, iso in list(WEEKDAYS[cul].items())[:7]:
            by_iso[iso] = nm
        for key in sorted(dow.value, key=str):
            if not isinstance(key, str):
                raise AnalysisError('%s: weekday table key %r is not a string' % (dow.label, key))
            if key in full7:
                continue
            o = _origin(dow, key)
            cons = '%s[%r]' % (o.label, key)
            iso, why = weekday_of_spelling(cul, key, lexicon)
            if iso is None:
                chk.exempt('C08.weekdaykeys', o.path, cons, '%s: no weekday is derived for this key' % why, 'not classified')
                continue
            wrong, n_acc = [], 0
            for kind in ('next', 'last', 'this'):
                phrase = None
                for tpl in WEEKDAY_TEMPLATES[cul][kind]:
                    ph = tpl.format(d=key)
                    if weekday_phrase_eval(idx, W, parser, pfn, cfg, slot_of[kind], ph, krefs[0], enum, consts) is not None:
                        phrase = ph
                        break
                if phrase is None:
                    continue
                n_acc += 1
                for ref in krefs:
                    got = weekday_phrase_eval(idx, W, parser, pfn, cfg, slot_of[kind], phrase, ref, enum, consts)
                    monday = ref - _dt.timedelta(days=ref.isoweekday() - 1)
                    wantd = (monday + _dt.timedelta(days=iso - 1 + shift[kind])).date()
                    if not isinstance(got, _dt.datetime) or got.date() != wantd:
                        wrong.append('%r at %s %s -> %s %s (expected %s %s)'
                                     % (phrase, ref.strftime('%a'), ref.date(), got.strftime('%a') if isinstance(got, _dt.datetime) else '',
                                        got.date() if isinstance(got, _dt.datetime) else got, wantd.strftime('%a'), wantd))
            if n_acc == 0:
                chk.exempt('C08.weekdaykeys', o.path, cons, 'none of the reference this/next/last phrasings with this spelling reaches a weekday branch',
                           'spells weekday %d; not accepted' % iso)
                continue
            n_keys += 1
            full = by_iso.get(iso)
            chk.judge(not wrong, 'C08.weekdaykeys', o.path, cons,
                      '%r -> %r, a spelling of weekday %d (%s -> %r)' % (key, dow.value[key], iso, full, dow.value.get(full)),
                      "%s: the weekday table maps %r to %r, but it is a spelling of %r, which the table maps to %r: %s"
                      % (cul, key, dow.value[key], full, dow.value.get(full), '; '.join(wrong[:3])), _row_line(idx, o, key))
    if n_keys < 40:
        raise AnalysisError('C08.weekdaykeys: only %d weekday spellings of the wired tables are reachable through this/next/last phrases' % n_keys)
    c_iso, _w = weekday_of_spelling('english', 'weds', WEEKDAYS['english'])
    c_amb, _w = weekday_of_spelling('german', 'so.', WEEKDAYS['german'])
    chk.control('C08.weekdaykeys', c_iso == 3 and c_amb is None and weekday_of_spelling('english', 'weekend', WEEKDAYS['english'])[0] is None
                and weekday_of_spelling('chinese', '禮拜日', WEEKDAYS['chinese'])[0] == 7)

    # ---- C08.datetimex : the date TIMEX of today/tomorrow/yesterday, <this|next|last> <weekday>, N days|weeks ago/later is the
    #      calendar day of the value (tabulated at the year boundaries, where ISO week-year and calendar year part)
    dfu = idx.cls(DT + 'utilities.DateTimeFormatUtil')
    hk, hfn = idx.find_method(dfu, 'luis_date_from_datetime')
    if hfn is not None:
        hbad, hn = date_helper_cases(idx, hk, hfn)
        cons = 'DateTimeFormatUtil.luis_date_from_datetime'
        chk.judge(not hbad, 'C08.datetimex', hk.mod.path, cons,
                  '%d interpreted days: year-month-day of the calendar date' % hn if not hbad else
                  '%d of %d days differ; first: %s -> %r (calendar date %r)' % (len(hbad), hn, hbad[0][0].date(), hbad[0][1], hbad[0][2]),
                  'the date TIMEX of %s is %r, its calendar date is %r (%d of %d interpreted days differ, e.g. %s); every relative date '
                  '(today/tomorrow/yesterday, this/next/last <weekday>, N days|weeks ago/later) takes its TIMEX from this helper'
                  % (hbad[0][0].date() if hbad else '', hbad[0][1] if hbad else '', hbad[0][2] if hbad else '', len(hbad), hn,
                     '; '.join('%s -> %s' % (d.date(), g) for d, g, _w in hbad[1:4])), hfn.lineno)
    else:
        chk.observe('DateTimeFormatUtil.luis_date_from_datetime is gone: the date TIMEX is decided at the branches only')
    trefs = isoyear_refs()
    n_branch = 0
    seen_impl = set()
    for cul in CULTURES:
        cfg = dp_cfgs[cul]
        parser = parsers[cul][0]
        k_, pfn = idx.find_method(parser, 'parse_implicit_date')
        if pfn is None:
            raise AnalysisError('anchor vanished: %s.parse_implicit_date' % parser.name)
        if k_.qual in seen_impl:
            continue          # the branch code is shared; the per-culture tables are C08.weekdayphrase / C08.specialday
        brs_ = implicit_branches(pfn)
        # special days, with the culture's own get_swift_day interpreted on the matched text
        ks_, sfn = idx.find_method(cfg, 'get_swift_day')
        if sfn is None:
            raise AnalysisError('%s has no get_swift_day implementation' % cfg.name)
        sresolver = make_resolver(idx, W, cfg)
        memo = {}

        def swift_of(text, cfg=cfg, sfn=sfn, sresolver=sresolver, memo=memo):
            if text not in memo:
                try:
                    memo[text] = MiniEval(idx, cfg, sresolver).call(sfn, [text])
                except Undetermined as e:
                    raise AnalysisError('%s.get_swift_day cannot be interpreted on %r: %s' % (cfg.name, text, e))
            return memo[text]
        jobs = []
        words = [w for w in SPECIAL_DAYS[cul]
                 if weekday_phrase_eval(idx, W, parser, pfn, cfg, 'special_day_regex', w, trefs[0], enum, consts, swift_of, True)[0] is not None]
        if len(words) >= 3:
            jobs.append(('special_day_regex', words[:5], None))
        names = list(WEEKDAYS[cul].items())[:7]
        for kind in ('next', 'last', 'this'):
            phs = []
            for dname, iso in names:
                for tpl in WEEKDAY_TEMPLATES[cul][kind]:
                    ph = tpl.format(d=dname)
                    if weekday_phrase_eval(idx, W, parser, pfn, cfg, slot_of[kind], ph, trefs[0], enum, consts) is not None:
                        phs.append((ph, iso))
                        break
            if len(phs) >= 5:
                jobs.append((slot_of[kind], phs, shift[kind]))
        if len(jobs) < 4:
            continue          # this culture's reference phrasings do not reach every branch; another culture of the same parser does
        seen_impl.add(k_.qual)
        for slot, phrases, sh in jobs:
            wrong_t, wrong_v, n_c = [], [], 0
            for item in phrases:
                phrase = item if sh is None else item[0]
                for ref in trefs:
                    fv, pv, tx = weekday_phrase_eval(idx, W, parser, pfn, cfg, slot, phrase, ref, enum, consts, swift_of, True)
                    n_c += 1
                    if sh is None:
                        sw = swift_of(phrase)
                        wantd = (ref + _dt.timedelta(days=sw if isinstance(sw, int) else 0)).date()
                    else:
                        monday = ref - _dt.timedelta(days=ref.isoweekday() - 1)
                        wantd = (monday + _dt.timedelta(days=item[1] - 1 + sh)).date()
                    if not isinstance(fv, _dt.datetime) or fv.date() != wantd or pv != fv:
                        wrong_v.append('%r at reference %s -> value %s (expected %s)' % (phrase, ref.date(), fv, wantd))
                    elif tx != calendar_timex(fv):
                        wrong_t.append('%r at reference %s -> TIMEX %r, value %s' % (phrase, ref.date(), tx, calendar_timex(fv)))
            tline = next((x.lineno for x in ast.walk(brs_[slot][0]) if isinstance(x, ast.Assign) and isinstance(x.targets[0], ast.Attribute)
                          and x.targets[0].attr == 'timex'), brs_[slot][0].lineno)
            cons = '%s.parse_implicit_date[%s]#timex' % (k_.name, slot)
            n_branch += 1
            wrong = wrong_t + wrong_v
            chk.judge(not wrong, 'C08.datetimex', k_.mod.path, cons,
                      '%d interpreted (phrase, reference) cases: TIMEX is the calendar date of the value' % n_c if not wrong else
                      '%d of %d differ; first: %s' % (len(wrong), n_c, wrong[0]),
                      'the TIMEX and the resolved value name different days: %s (%d of %d interpreted cases at year boundaries differ)'
                      % ('; '.join(wrong[:3]), len(wrong), n_c), tline)
    if n_branch < 4:
        raise AnalysisError('C08.datetimex: only %d implicit-date branches could be tabulated' % n_branch)
    # N days|weeks ago / later in date mode
    mode_cls = idx.cls(DT + 'utilities.AgoLaterMode')
    mode_vals = {k: v.value for k, v in mode_cls.attrs.items() if isinstance(v, ast.Constant)}
    if 'DATE' not in mode_vals or 'mode' not in _param_names(gdr):
        raise AnalysisError('AgoLaterMode.DATE / the `mode` parameter of get_date_result is gone')
    for L in ('D', 'W'):
        wrong, n_c = [], 0
        for ref in trefs:
            for n in (1, 2, 3, 5, 52, 366, 5000):
                for fut in (True, False):
                    fv, pv, tx = date_result_timex(idx, al, gdr, consts, mode_vals, L, n, ref, fut)
                    n_c += 1
                    if not isinstance(fv, _dt.datetime) or tx != calendar_timex(fv):
                        wrong.append('%d %s %s reference %s -> TIMEX %r, value %s' % (n, L, 'later' if fut else 'ago', ref.date(), tx,
                                                                                    calendar_timex(fv) if isinstance(fv, _dt.datetime) else fv))
        chk.judge(not wrong, 'C08.datetimex', upath, 'AgoLaterUtil.get_date_result[%r]#timex' % L,
                  '%d interpreted cases: TIMEX is the calendar date of the value' % n_c if not wrong else
                  '%d of %d differ; first: %s' % (len(wrong), n_c, wrong[0]),
                  'the TIMEX and the resolved value name different days: %s (%d of %d interpreted cases differ)'
                  % ('; '.join(wrong[:3]), len(wrong), n_c), gdr.lineno)
    ctl = ast.parse("def luis_date_from_datetime(date):\n    return date.strftime('%G-%m-%d')\n").body[0]
    cbad_, _n = date_helper_cases(idx, None, ctl)
    chk.control('C08.datetimex', bool(cbad_) and all(d.isocalendar()[0] != d.year for d, _g, _w in cbad_))

    # ---- C08.inprefix
    ext = al.methods.get('extractor_duration_with_before_and_after')
    if ext is None:
        raise AnalysisError('anchor vanished: AgoLaterUtil.extractor_duration_with_before_and_after')
    blk = in_block_of(ext)
    if blk is None:
        raise AnalysisError('extractor_duration_with_before_and_after: the in/within block was not found')
    ucfgs = {}
    for q in ('base_date.DateTimeUtilityConfiguration', 'utilities.DateTimeUtilityConfiguration'):
        ucfgs.update(W.culture_classes(DT + q))
    n_cult = 0
    for cul in CULTURES:
        if cul not in ucfgs or cul not in IN_WORDS:
            continue
        emitted, missing = 0, []
        for conn in IN_WORDS[cul]:
            for unit in DATE_UNIT_WORDS[cul].split():
                toks, src = in_block_emits(idx, W, al, blk, ucfgs[cul], conn, unit)
                if any(t[0] == 0 and t[1] == len(src) for t in toks):
                    emitted += 1
                else:
                    missing.append(src)
        n_cult += 1
        chk.judge(not missing, 'C08.inprefix', ucfgs[cul].mod.path, '%s[in N <unit>]' % ucfgs[cul].name,
                  '%d (connector, unit) combinations emit a date token' % emitted if not missing else 'no token for: %s' % ', '.join(missing[:8]),
                  "%s: the in/within block emits no date token for %s (the duration extractor found 'N <unit>', the connector stands in front): "
                  "'in N days|weeks' is not extracted as a date" % (cul, ', '.join(repr(m) for m in missing[:6])), blk.lineno)
    if n_cult < 6:
        raise AnalysisError('in/within block evaluated for only %d cultures' % n_cult)
    bde = idx.cls(DT + 'base_date.BaseDateExtractor')
    fb = bde.methods.get('extract_relative_duration_date_with_in_prefix')
    if fb is not None:
        for c in ast.walk(fb):
            if isinstance(c, ast.Call) and _callee_name(c) == 'extract_in_connector' and len(c.args) >= 3 \
                    and isinstance(c.args[1], ast.Name) and 'after' in c.args[1].id:
                chk.observe("BaseDateExtractor.extract_relative_duration_date_with_in_prefix hands `%s` to extract_in_connector as the text in front "
                            "of the duration and that helper anchors range_unit_regex at the number: the fallback path is dead for '<in> N <unit>' "
                            "today, the in/within block is the only producer" % c.args[1].id)
                break
    ctl_blk = ast.parse("if not is_match:\n    in_within_regex_tuples = [(config.in_connector_regex, [config.range_unit_regex])]\n"
                        "    for regexp in in_within_regex_tuples:\n        index = MatchingUtil.get_term_index(before_string, regexp[0]).index\n"
                        "        if index > 0:\n            is_match = True\n        if is_match:\n"
                        "            is_unit_match = any(unit_regex.search(extract_result.text) for unit_regex in regexp[1])\n"
                        "            if not is_unit_match:\n                ret.append(Token(extract_result.start - index, extract_result.start + extract_result.length))\n"
                        "            break\n").body[0]
    ctoks, csrc = in_block_emits(idx, W, al, ctl_blk, ucfgs['english'], 'in', 'weeks')
    chk.control('C08.inprefix', not ctoks)

    # ---- C08.relperiod
    order = {}
    for c in ast.walk(pf):
        if isinstance(c, ast.Call) and isinstance(c.func, ast.Attribute) and c.func.attr in REF_PERIOD \
                and isinstance(c.func.value, ast.Attribute) and c.func.value.attr == 'config':
            order.setdefault(c.func.attr, c.lineno)
    for need in ('is_week_only', 'is_month_only', 'is_year_only'):
        if need not in order:
            raise AnalysisError('_parse_one_word_period no longer consults config.%s' % need)
    pred_order = sorted(order, key=lambda n: order[n])
    label = {(-1): 'last', 1: 'next', 0: 'this'}
    for cul in CULTURES:
        pcfg = pp_cfgs[cul]
        chk.consulted(pcfg.mod.path)
        groups = {}
        n_acc = 0
        for phrase, unit, sw in REL_PERIODS[cul]:
            acc, got_sw, got_unit = rel_period_eval(idx, W, pcfg, phrase, pred_order)
            key = '%s %s' % (label[sw], unit[3:-5])
            g = groups.setdefault(key, {'ok': [], 'bad': [], 'skipped': []})
            if acc is False:
                g['skipped'].append(phrase)
                continue
            n_acc += 1
            if got_sw == sw and got_unit == unit:
                g['ok'].append(phrase)
            else:
                g['bad'].append('%r: swift=%r unit=%s' % (phrase, got_sw, got_unit[3:-5] if got_unit in REF_PERIOD else got_unit))
        if n_acc < 5:
            raise AnalysisError('%s: fewer than 5 reference period phrases are accepted by one_word_period_regex' % cul)
        for key, g in sorted(groups.items()):
            cons = "%s[%s]" % (pcfg.name, key)
            if g['bad']:
                chk.bad('C08.relperiod', pcfg.mod.path, cons, '; '.join(sorted(g['bad'])),
                        '%s: %s - %s (expected swift %+d and unit %s); %d other phrasing(s) evaluate correctly'
                        % (cul, key, '; '.join(sorted(g['bad'])), {'last': -1, 'next': 1, 'this': 0}[key.split()[0]], key.split()[1], len(g['ok'])),
                        (idx.find_method(pcfg, 'get_swift_day_or_month')[1] or pcfg.node).lineno)
            elif g['ok']:
                chk.ok('C08.relperiod', pcfg.mod.path, cons, '%d phrase(s): %s' % (len(g['ok']), ', '.join(sorted(g['ok']))))
            else:
                chk.exempt('C08.relperiod', pcfg.mod.path, cons, 'no reference phrasing is accepted by one_word_period_regex: %s' % g['skipped'])
    ctl_cls = ast.parse("class C:\n    def get_swift_day_or_month(self, source):\n        return 0\n").body[0]
    try:
        chk.control('C08.relperiod', MiniEval(idx).call(ctl_cls.body[0], ['last week']) != -1)
    except Undetermined:
        pass

    # ---- C08.swift
    methods = []
    for mod, cls, fn in idx.functions():
        if cls is None or not fn.name.startswith('get_swift') or not mod.name.startswith(DT):
            continue
        cul = Wiring.culture_of(cls)
        if cul is None:
            continue
        methods.append((cul, cls, fn))
    if len(methods) < 50:
        raise AnalysisError('only %d get_swift* implementations found (expected about 61)' % len(methods))
    sign_of = {'next': 1, 'past': -1, 'this': 0}
    per_culture = {}     # (culture, label) -> {sign: [(cls, fn, infamily)]}
    magnitudes = {}      # (method name, regex label) -> {culture: (abs, cls, fn, line, infamily)}
    unclassified = 0
    fired_control = False
    for cul, cls, fn in methods:
        fam = family_of(idx, cls)
        infam = fam in IN_FAMILY
        chk.consulted(cls.mod.path)
        gc = GuardClassifier(W, cul, cls, fn)
        cons = '%s.%s' % (cls.name, fn.name)
        branches = swift_branches(fn)
        if not branches:
            # pure delegation (`return self.get_swift(source)`) - nothing to classify
            chk.exempt('C08.swift', cls.mod.path, cons, 'delegates / no constant branches', 'delegate', fn.lineno)
            continue
        for test, c, ln in branches:
            comps = gc.components(test)
            classified = [(next(iter(ks)), lab) for ks, lab, _ in comps if len(ks) == 1]
            kinds = {k for k, _ in classified}
            if any(len(ks) > 1 for ks, _, _ in comps) or len(kinds) > 1:
                chk.exempt('C08.swift', cls.mod.path, cons, 'guard mixes next/past/this vocabulary: %s' % ast.unparse(test)[:60],
                           'mixed -> %d' % c, ln)
                unclassified += 1
                continue
            if not kinds:
                chk.exempt('C08.swift', cls.mod.path, cons,
                           'guard not classifiable as next/past/this (special-day or foreign literal): %s' % ast.unparse(test)[:60],
                           'unclassified -> %d' % c, ln)
                unclassified += 1
                continue
            kind = next(iter(kinds))
            sgn = (c > 0) - (c < 0)
            labels = sorted({lab for _, lab in classified})
            detail = '%s guard [%s] -> %+d' % (kind, ', '.join(labels), c)
            ok = sgn == sign_of[kind]
            msg = '%s: a %s guard (%s) yields %+d; %s' % (cons, kind, ', '.join(labels), c,
                                                         {'next': 'next/following must be positive', 'past': 'last/previous must be negative',
                                                          'this': 'this/current must be 0'}[kind])
            if ok:
                chk.ok('C08.swift', cls.mod.path, cons, detail, ln)
            elif infam:
                chk.bad('C08.swift', cls.mod.path, cons, detail, msg, ln)
            else:
                chk.exempt('C08.swift', cls.mod.path, cons, 'outside the expression families C08 lists (%s): %s'
                           % (OUT_FAMILY.get(fam, fam), msg), detail, ln)
                chk.observe('%s:%d %s [%s, not a C08 family]' % (cls.mod.rel, ln, msg, OUT_FAMILY.get(fam, fam)))
            for k, lab in classified:
                per_culture.setdefault((cul, lab), {}).setdefault(sgn, []).append((cls, fn, infam, ln))
                if lab.startswith('regex:') and kind != 'this':
                    magnitudes.setdefault((fn.name, lab), {}).setdefault(cul, (abs(c), cls, fn, ln, infam))
    # one sign per guard within a culture
    for (cul, lab), signs in sorted(per_culture.items()):
        if len(signs) <= 1:
            continue
        maj = max(signs, key=lambda s: len(signs[s]))
        for s, sites in signs.items():
            if s == maj:
                continue
            for cls, fn, infam, ln in sites:
                cons = '%s.%s' % (cls.name, fn.name)
                msg = '%s: guard %s maps to sign %+d here but to %+d in %d other method(s) of the %s configuration classes' \
                      % (cons, lab, s, maj, len(signs[maj]), cul)
                if infam:
                    chk.bad('C08.swift', cls.mod.path, cons, 'guard %s sign %+d vs %+d elsewhere' % (lab, s, maj), msg, ln)
                else:
                    chk.exempt('C08.swift', cls.mod.path, cons, 'outside the expression families C08 lists: ' + msg,
                               'guard %s sign %+d vs %+d elsewhere' % (lab, s, maj), ln)
    # same resource guard -> same magnitude across cultures
    for (mname, lab), per in sorted(magnitudes.items()):
        vals = [v[0] for v in per.values()]
        maj = max(set(vals), key=vals.count)
        for cul, (a, cls, fn, ln, infam) in sorted(per.items()):
            cons = '%s.%s' % (cls.name, fn.name)
            if a == maj:
                chk.ok('C08.swift', cls.mod.path, cons, 'magnitude of %s = %d (siblings: %d)' % (lab, a, maj), ln)
            elif infam:
                chk.bad('C08.swift', cls.mod.path, cons, 'magnitude of %s = %d (siblings: %d)' % (lab, a, maj),
                        '%s: guard %s shifts by %d, the %d sibling implementations shift by %d' % (cons, lab, a, len(vals) - 1, maj), ln)
            else:
                chk.observe('%s: guard %s shifts by %d, siblings by %d (not a C08 family)' % (cons, lab, a, maj))
    chk.extra['get_swift_methods'] = len(methods)
    chk.extra['unclassified_guards'] = unclassified
    # positive control: an embedded reversed sibling
    ctl = ast.parse("def get_swift(self, source):\n    swift = 0\n    if source.startswith('next'):\n        swift = -1\n    return swift\n").body[0]
    b = swift_branches(ctl)
    chk.control('C08.swift', bool(b) and kinds_of_literal('english', 'next') == {'next'} and b[0][1] < 0)

    # ---- Chinese parser's own before/after chain (D and W only are in the families C08 lists)
    cdp = idx.cls(DT + 'chinese.date_parser.ChineseDateParser')
    cf = cdp.methods.get('parser_duration_with_ago_and_later')
    if cf is not None:
        chk.consulted(cdp.mod.path)
        rows = chinese_agolater(cf, consts)
        if not rows:
            raise AnalysisError('ChineseDateParser.parser_duration_with_ago_and_later: before/after unit chain not found')
        tx = {consts.get('TIMEX_DAY'): 'D', consts.get('TIMEX_WEEK'): 'W'}
        for direction, L, nf, text, ln in rows:
            cons = 'ChineseDateParser.parser_duration_with_ago_and_later[%s, %r]' % (direction, L)
            if L not in ('D', 'W'):
                chk.exempt('C08.unit_delta', cdp.mod.path, cons, 'months/years are outside the "N days|weeks ago / in N days|weeks" family', text, ln)
                if nf is None:
                    chk.observe('%s:%d %s: `%s` ignores N and cannot cross a year boundary (not a C08 family)' % (cdp.mod.rel, ln, cons, text))
                continue
            want_k = REF_DELTA[L][1] * (-1 if direction == 'before' else 1)
            ok = nf is not None and nf[1] == 'days' and nf[2] == want_k and len(nf[3]) == 1
            chk.judge(ok, 'C08.unit_delta', cdp.mod.path, cons, text if nf is None else 'days = %d * %s' % (nf[2], '*'.join(nf[3])),
                      '%s: %s; expected reference + timedelta(days=%d*N)' % (cons, text, want_k), ln)


def thorough(chk):
    """deeper bounded enumeration: get_date_result interpreted for every unit, a wide spread of N and both polarities over
    reference dates that include month ends, a leap day and a year boundary"""
    idx = get_index()
    consts = class_consts(idx, DT + 'constants.Constants')
    al = idx.cls(DT + 'utilities.AgoLaterUtil')
    gdr = al.methods['get_date_result']
    chk.rule('C08.unit_delta.sem', 'get_date_result interpreted: value = reference +/- N units (calendar arithmetic), N up to 5000', floor=7)
    refs = [_dt.datetime(2016, 1, 31, 10, 30), _dt.datetime(2016, 2, 29, 23, 59, 59), _dt.datetime(2015, 12, 31, 0, 0),
            _dt.datetime(2016, 11, 7, 12, 0), _dt.datetime(2017, 3, 31, 6, 0)]
    ns = [1, 2, 5, 12, 13, 30, 365, 5000]
    for L in REF_DELTA:
        bad, cnt = None, 0
        for ref in refs:
            for n in ns:
                for fut in (True, False):
                    k = n if fut else -n
                    if L == 'Y' and not (1 <= ref.year + k <= 9998):
                        continue
                    if L == 'MON' and not (1 <= ref.year + k // 12 - 1 and ref.year + k // 12 + 1 <= 9998):
                        continue
                    try:
                        w = date_result_expected(ref, L, k)
                    except (OverflowError, ValueError):
                        continue
                    got, gotp = date_result_eval(idx, al, gdr, consts, L, n, ref, fut)
                    cnt += 1
                    if (got != w or gotp != w) and bad is None:
                        bad = (ref, n, fut, got, w)
        chk.judge(bad is None, 'C08.unit_delta.sem', al.mod.path, 'AgoLaterUtil.get_date_result[%r]#interpreted' % L,
                  '%d interpreted cases' % cnt,
                  'unit %r: reference %s, N=%s, is_future=%s gives %s, calendar arithmetic gives %s' % ((L,) + (bad or (0, 0, 0, 0, 0))),
                  gdr.lineno)


# ---------------------------------------------------------------------------------------------------------------
# generic rules (lead): cross-cutting necessary conditions scoped to the modules this property is anchored in
# (sa/generic.py: filter predicates depend on their element; regex group names read by the code exist)

def _generic_rules(chk):
    import re as _re_
    from ..index import get_index as _gi
    from ..consteval import Resources as _Res
    from .. import generic as _g
    idx_ = _gi()
    scope = _re_.compile('^(base_)?dateperiod')
    flt = lambda name: bool(scope.search(name.rsplit('.', 1)[-1]))
    _g.rule_group_names(chk, idx_, _Res(idx_), 'C08.groups', 'recognizers_date_time', flt, floor=3)


_run_before_generic = run


def run(chk):       # noqa: F811
    _run_before_generic(chk)
    _generic_rules(chk)
