"""C18, second decision procedure: the repository's resource generator, interpreted as written.

sa/props/c18.py re-states the writer semantics of Python/libraries/resource-generator and pins the generator's source by digest.
This module removes the need to trust the re-statement and makes a CHANGED generator decidable: the generator's own code
(lib/yaml_parser.py from_yaml constructors, lib/code_writer.py writers, lib/base_code_generator.py generate) is evaluated by
sa/ointerp.py on the node tree of each Patterns YAML file (sa/miniyaml.py stands in for ruamel's composer, node objects carry
`.value` exactly as ruamel's ScalarNode / SequenceNode / MappingNode do), and the text it writes is compared, definition by
definition (ast.dump of the class body), with the checked-in module.  Nothing of the generator is imported or executed by
Python; json.dumps, open/os are natives of the checker.
"""
import ast
import json
import os

from ..core import LIBS, AnalysisError, rel
from ..index import get_index
from ..ointerp import ClassRef, FuncRef, Interp, Native, Obj, PyExc, native

GEN = os.path.join(LIBS, 'resource-generator')


def _scalar_resolve(text):
    from .c18 import yaml_scalar_12
    return yaml_scalar_12(text)


class GenRun:
    def __init__(self):
        self.idx = get_index(include_generator=True)
        for need in ('lib.yaml_parser', 'lib.code_writer', 'lib.base_code_generator'):
            if need not in self.idx.mods:
                raise AnalysisError('anchor vanished: resource-generator/%s.py' % need.replace('.', '/'))
        self.yp = self.idx.mods['lib.yaml_parser']
        self.cw = self.idx.mods['lib.code_writer']
        self.bg = self.idx.mods['lib.base_code_generator']
        self.tags = self._registered_tags()

    def _registered_tags(self):
        """{yaml tag: Cls} for the classes parse() registers on its YAML(typ='safe') object, tag = the class's yaml_tag.
        parse() itself is interpreted with a recording stand-in for ruamel's YAML class, so a list of register_class statements,
        a loop over a tuple of classes or a helper all read the same"""
        fn = self.yp.funcs.get('parse')
        if fn is None:
            raise AnalysisError('anchor vanished: lib/yaml_parser.py::parse')
        registered, made, loaded = [], [], []

        def h_yaml(it, args, kwargs):
            made.append((list(args), dict(kwargs)))

            def reg(it2, a, k):
                registered.append(a[0] if a else None)
                return a[0] if a else None

            def load(it2, a, k):
                loaded.append(len(registered))
                return {}
            return Native({'register_class': native(reg), 'load': native(load)}, 'YAML')
        it = Interp(self.idx, hooks={'name:YAML': h_yaml}, where='resource-generator lib/yaml_parser.py::parse', budget=100000)
        try:
            it.call_function(FuncRef(self.yp, fn, None), ['content'], {})
        except PyExc as e:
            raise AnalysisError('lib/yaml_parser.py::parse raises %s when interpreted' % e)
        if len(made) != 1 or made[0][0] or made[0][1] != {'typ': 'safe'}:
            raise AnalysisError('lib/yaml_parser.py::parse no longer builds exactly one YAML(typ="safe"): the scalar resolution '
                                'modelled here (YAML 1.2 core schema) may not apply')
        if loaded != [len(registered)]:
            raise AnalysisError('lib/yaml_parser.py::parse does not load the content once, after all classes are registered')
        out = {}
        for r in registered:
            if not isinstance(r, ClassRef) or r.cls.mod is not self.yp:
                raise AnalysisError('parse() registers %r, which is not a class of lib/yaml_parser.py' % (r,))
            c = r.cls
            t = c.attrs.get('yaml_tag')
            if not (isinstance(t, ast.Constant) and isinstance(t.value, str)):
                raise AnalysisError('%s.yaml_tag is not a string constant' % c.name)
            out[t.value] = c
        if not out:
            raise AnalysisError('lib/yaml_parser.py::parse registers no classes')
        return out

    # ---- ruamel-like node objects
    def node(self, n):
        kind = n[0]
        if kind == 'scalar':
            return Obj(None, {'value': n[2], 'tag': n[1], 'kind': 'scalar', 'style': n[3]})
        if kind == 'seq':
            return Obj(None, {'value': [self.node(x) for x in n[2]], 'tag': n[1], 'kind': 'seq'})
        return Obj(None, {'value': [(self.node(k), self.node(v)) for k, v in n[2]], 'tag': n[1], 'kind': 'map'})

    def construct(self, it, n):
        """what yaml.load hands back for a node"""
        tag = n[1]
        if tag:
            c = self.tags.get(tag)
            if c is None:
                raise AnalysisError('YAML tag %s has no registered class in lib/yaml_parser.py' % tag)
            k, fn = self.idx.find_method(c, 'from_yaml')
            if fn is None:
                raise AnalysisError('%s has no from_yaml' % c.name)
            return it.call_function(FuncRef(k.mod, fn, k), [None, self.node(n)], {}, None, selfobj=None)
        if n[0] == 'scalar':
            if n[3] in ("'", '"'):
                return n[2]
            return _scalar_resolve(n[2])
        if n[0] == 'seq':
            return [self.construct(it, x) for x in n[2]]
        d = {}
        for k, v in n[2]:
            kk = self.construct(it, k)
            d[it.key(kk)] = (kk, self.construct(it, v))
        return d

    def generate(self, root, header, footer, where):
        """text of the module the generator writes for the YAML tree `root`"""
        if root[0] != 'map':
            raise AnalysisError('%s: YAML root is not a mapping' % where)
        chunks = []

        def h_open(it, args, kwargs):
            mode = kwargs.get('mode', args[1] if len(args) > 1 else 'r')
            if 'w' in str(mode):
                return Native({'write': native(lambda it2, a, k: chunks.append(a[0]) if isinstance(a[0], str) else
                                               it2.fail(None, 'write of a non-string'))}, 'outfile')
            return Native({}, 'yamlfile')
        obj_holder = {}

        def h_parse(it, args, kwargs):
            d = {}
            for k, v in root[2]:
                name = k[2]
                d[name] = (name, self.construct(it, v))
            obj_holder['n'] = len(d)
            return d
        hooks = {'name:open': h_open, 'parse': h_parse,
                 'os.path.exists': lambda it, a, k: True, 'os.path.dirname': lambda it, a, k: os.path.dirname(a[0]),
                 'os.makedirs': lambda it, a, k: None,
                 'json.dumps': lambda it, a, k: self._json_dumps(it, a, k)}
        it = Interp(self.idx, hooks=hooks, where='resource-generator (%s)' % where, budget=60_000_000)
        fn = self.bg.funcs.get('generate')
        if fn is None:
            raise AnalysisError('anchor vanished: lib/base_code_generator.py::generate')
        try:
            it.call_function(FuncRef(self.bg, fn, None), ['in.yaml', 'out/out.py', header, footer], {})
        except PyExc as e:
            return None, 'the generator raises %s' % e
        return ''.join(chunks), None

    @staticmethod
    def _json_dumps(it, args, kwargs):
        v = args[0]
        if isinstance(v, Obj) or isinstance(v, Native):
            raise PyExc('TypeError: not JSON serializable')
        if isinstance(v, dict):
            it.fail(None, 'json.dumps of a dict')
        try:
            return json.dumps(v, ensure_ascii=bool(kwargs.get('ensure_ascii', True)))
        except (TypeError, ValueError):
            raise PyExc('TypeError in json.dumps')


def class_body_defs(src, where):
    """{name: ast.dump} of the single class of a generated module (assignments and functions), plus header text"""
    try:
        tree = ast.parse(src)
    except SyntaxError as e:
        return None, 'not parseable: %s' % e
    classes = [n for n in tree.body if isinstance(n, ast.ClassDef)]
    if len(classes) != 1:
        return None, '%d classes' % len(classes)
    out = {}
    for st in classes[0].body:
        if isinstance(st, ast.Assign) and len(st.targets) == 1 and isinstance(st.targets[0], ast.Name):
            out[st.targets[0].id] = ast.dump(st.value)
        elif isinstance(st, ast.FunctionDef):
            out[st.name] = ast.dump(st)
        elif isinstance(st, ast.Expr) and isinstance(st.value, ast.Constant):
            continue
        else:
            out['<stmt %d>' % st.lineno] = ast.dump(st)
    return out, None


def mismatching_definitions(gen, root, cf, module_src, where):
    """-> (set of names whose checked-in definition differs from what the generator as written yields, names only in one,
    problem text or None)"""
    header = '\n'.join(cf['header'])
    footer = '\n'.join(cf['footer'])
    text, err = gen.generate(root, header, footer, where)
    if err:
        return None, None, err
    want, e1 = class_body_defs(text, where)
    if e1:
        return None, None, 'the text the generator writes is %s' % e1
    have, e2 = class_body_defs(module_src, where)
    if e2:
        return None, None, 'the checked-in module is %s' % e2
    diff = {n for n in want if n in have and want[n] != have[n]}
    only = {n for n in want if n not in have} | {n for n in have if n not in want}
    return diff, only, None
