"""C14 - TIMEX strings survive parsing and formatting unchanged (grammar / template agreement).

Everything is read from the AST of the datatype package; nothing is imported or executed.

  grammar side   TimexRegex.timexRegex  ->  per family the list of patterns  ->  per pattern its *shapes*
                 (sequences of literal text and named groups; optional parts and top-level alternations are
                 expanded)  ->  through Timex.assign_properties / the unit handlers its *field shapes*
                 (which Timex field every group is written to, with which conversion).
  template side  every `return '<tpl>'.format(...)` / f-string of TimexFormat.format_*  ->  sequences of literal
                 text and field renderings (`fixed_format_number(x.f, w)` -> \\d{w}; bare `x.f` -> str(x.f)).

Rules compare the two sides token by token (C14.template: template in grammar, C14.shape: grammar in templates),
plus the plumbing in between (groups -> assign branches, parse dispatch, from_* constructors, __init__/clone,
the hour/minute/second properties that share one Time object, truthiness tests on fields that may be 0).
C14.roundtrip interprets TimexInference.infer and TimexFormat.format over abstract Timex objects
(each field None / 0 / non-zero) built from every grammar shape and compares the emitted template with the input.
"""
import ast
import itertools
import string

from .. import rx
from ..core import AnalysisError, rel
from ..index import get_index

LEVEL = 'other'
DESIGN_REF = 'DESIGN.md#c14'
META = {
    'text': 'TIMEX grammar/template agreement: every TimexRegex group is consumed by assign_properties; every '
            'TimexFormat template is a shape of the grammar and every grammar shape has a template (token-wise '
            'inclusion both ways, fixed_format_number(x,w) as \\d{w}); parse dispatch reaches every pattern family '
            'and its first-character / split-at-T routing is consistent with the patterns; from_date / '
            'from_date_time / from_time, __init__, clone and the hour/minute/second properties pass homonymous '
            'fields; no truthiness test on hour/minute/second in inference/format; the stored duration amount '
            '(conversion chain followed through locals and single-return helpers, stdlib conversions modelled) prints '
            'inside the amount group and denotes the parsed number for probe amounts; abstract interpretation of '
            'infer -> format over the None/0/non-zero shapes of every grammar shape and every date x time combination '
            '(both tiers).',
    'note': 'Not decided: amounts other than the probes 1, 10, 100, 1.5, 0.5, 60, 0.25, 2.50 and conversions outside the '
            'modelled stdlib calls (refused, exit 2), value ranges of the digit groups (month 13, '
            'day 32, year 0000), zero duration amounts (P0D formats to the empty string), the english/ natural '
            'language converters, the (start,end,duration) range form beyond its routing. The quick falsy-zero rule '
            'reports any truthiness test on hour/minute/second in TimexInference/TimexFormat even where an earlier '
            'None test makes it equivalent (C14.roundtrip decides those exactly). Inclusion of a padded field '
            'in a digit group is decided on the full set of w-digit strings when 10^w <= 10000, by representative '
            'strings for amounts.',
    'technique': 'ast + regex syntax trees (sa.rx): shape expansion of the 18 patterns, token-wise alignment with '
                 'the format templates, small abstract interpreter over nullness/zero-ness shapes (thorough)',
}

PKG = 'datatypes_timex_expression'
# calendar knowledge (reference, not read from the code): fields for which 0 is a valid value
ZERO_VALID = ('hour', 'minute', 'second')
# reference wiring of the datetime/Time constructors: Timex keyword <- attribute of the python value
FROM_REF = {'year': 'year', 'month': 'month', 'day_of_month': 'day', 'hour': 'hour', 'minute': 'minute',
            'second': 'second'}
FROM_EXPECT = {'from_date': ('year', 'month', 'day_of_month'),
               'from_date_time': ('year', 'month', 'day_of_month', 'hour', 'minute', 'second'),
               'from_time': ('hour', 'minute', 'second')}


# ---------------------------------------------------------------------------------------------------
# small AST helpers

def chain(node):
    """dotted name of a Name/Attribute chain, else None"""
    parts = []
    while isinstance(node, ast.Attribute):
        parts.append(node.attr)
        node = node.value
    if isinstance(node, ast.Name):
        parts.append(node.id)
        return '.'.join(reversed(parts))
    return None


def const_str(node):
    return node.value if isinstance(node, ast.Constant) and isinstance(node.value, str) else None


def params_of(fn):
    return [a.arg for a in fn.args.posonlyargs + fn.args.args]


def is_static(fn):
    return any(chain(d) in ('staticmethod',) for d in fn.decorator_list)


def first_param(fn):
    """the parameter holding the object for format_*/infer style helpers (skips self/cls)"""
    ps = params_of(fn)
    if ps and ps[0] in ('self', 'cls'):
        ps = ps[1:]
    if not ps:
        raise AnalysisError('%s has no object parameter' % fn.name)
    return ps[0]


class Ctx:
    """everything the rules share: index, modules, classes"""

    def __init__(self, chk):
        self.chk = chk
        self.idx = get_index()
        self.mods = {}
        for name in ('timex', 'timex_regex', 'timex_parsing', 'timex_format', 'timex_inference',
                     'timex_date_helpers', 'time', 'timex_constants'):
            m = self.idx.mod(PKG + '.' + name)
            self.mods[name] = m
            chk.consulted(m.path)

    def cls(self, modname, clsname):
        m = self.mods[modname]
        if clsname not in m.classes:
            raise AnalysisError('anchor vanished: class %s in %s' % (clsname, m.rel))
        return m.classes[clsname]

    def meth(self, modname, clsname, name):
        c = self.cls(modname, clsname)
        if name not in c.methods:
            raise AnalysisError('anchor vanished: %s.%s' % (clsname, name))
        return c.methods[name]


# ---------------------------------------------------------------------------------------------------
# grammar side

class Tok:
    __slots__ = ('kind', 'text', 'name', 'node', 'conv', 'width', 'flags')

    def __init__(self, kind, text=None, name=None, node=None, conv=None, width=None):
        self.kind = kind      # lit | grp | fld | chr
        self.text = text
        self.name = name      # group name (grp) or field name (fld)
        self.node = node      # regex sub-tree of the group
        self.conv = conv      # int | raw | num   (fld on the grammar side)
        self.width = width    # template side: pad width or None


def merge_lits(toks):
    out = []
    for t in toks:
        if t.kind == 'lit' and out and out[-1].kind == 'lit':
            out[-1] = Tok('lit', text=out[-1].text + t.text)
        elif t.kind == 'lit' and t.text == '':
            continue
        else:
            out.append(t)
    return out


def has_named_group(n):
    return any(x.kind == 'group' and x.name for x in rx.walk(n))


def expand(n, what):
    """regex tree -> list of token sequences (shapes). Named groups are atomic."""
    k = n.kind
    if k == 'seq':
        res = [[]]
        for it in n.items:
            sub = expand(it, what)
            res = [a + b for a in res for b in sub]
            if len(res) > 2000:
                raise AnalysisError('%s: more than 2000 shapes' % what)
        return res
    if k == 'alt':
        res = []
        for a in n.items:
            res.extend(expand(a, what))
        return res
    if k == 'group':
        if n.name:
            if has_named_group(n.node):
                raise AnalysisError('%s: nested named groups are not modelled' % what)
            return [[Tok('grp', name=n.name, node=n.node)]]
        return expand(n.node, what)
    if k in ('anchor', 'flags'):
        return [[]]
    if k == 'lit':
        return [[Tok('lit', text=n.c)]]
    if k in ('cc', 'class', 'any'):
        return [[Tok('chr', node=n)]]
    if k == 'rep':
        if n.hi is None:
            raise AnalysisError('%s: unbounded repeat outside a named group is not modelled' % what)
        sub = expand(n.node, what)
        res = []
        for cnt in range(n.lo, n.hi + 1):
            cur = [[]]
            for _ in range(cnt):
                cur = [a + b for a in cur for b in sub]
            res.extend(cur)
        return res
    raise AnalysisError('%s: regex construct %s is not modelled' % (what, k))


def digits_only(node):
    for x in rx.walk(node):
        if x.kind in ('seq', 'rep', 'group'):
            continue
        if x.kind == 'cc' and x.c == 'd':
            continue
        if x.kind == 'class' and not x.neg and all(
                (i.kind == 'range' and i.c[0].isdigit() and i.c[1].isdigit()) or (i.kind == 'lit' and i.c.isdigit())
                or (i.kind == 'cc' and i.c == 'd') for i in x.items):
            continue
        if x.kind == 'range':      # items of a class already judged above
            continue
        if x.kind == 'lit' and x.c.isdigit():
            continue
        return False
    return True


def finite_lang(node, limit=20000):
    try:
        return rx.enumerate_language(node, limit=limit)
    except rx.RxError:
        return None


def load_patterns(cx):
    """family -> [(source, lineno, tree)] from TimexRegex.timexRegex"""
    c = cx.cls('timex_regex', 'TimexRegex')
    node = c.attrs.get('timexRegex')
    if not isinstance(node, ast.Dict):
        raise AnalysisError('anchor vanished: TimexRegex.timexRegex is not a dict literal')
    fams = {}
    for k, v in zip(node.keys, node.values):
        fam = const_str(k)
        if fam is None or not isinstance(v, (ast.List, ast.Tuple)):
            raise AnalysisError('%s:%d TimexRegex.timexRegex entry is not  \'family\': [patterns]'
                                % (c.mod.rel, getattr(k, 'lineno', 0)))
        lst = []
        for e in v.elts:
            src = None
            if isinstance(e, ast.Call) and chain(e.func) in ('re.compile', 'compile', 'regex.compile') and e.args:
                src = const_str(e.args[0])
                if len(e.args) > 1 or e.keywords:
                    raise AnalysisError('%s:%d pattern compiled with flags: not modelled' % (c.mod.rel, e.lineno))
            elif const_str(e) is not None:
                src = const_str(e)
            if src is None:
                raise AnalysisError('%s:%d pattern is not re.compile(<string literal>)' % (c.mod.rel, e.lineno))
            try:
                tree = rx.parse(src)
            except rx.RxError as ex:
                raise AnalysisError('%s:%d pattern %r not analysable: %s' % (c.mod.rel, e.lineno, src, ex))
            lst.append((src, e.lineno, tree))
        fams[fam] = lst
    if not fams:
        raise AnalysisError('TimexRegex.timexRegex is empty')
    return c, fams


def inline_expr(cls, e, local_defs, where, depth=0):
    """copy of expression e with local names replaced by their defining expressions and calls to single-return
    helpers of the same class (Cls.h(x) / self.h(x) / cls.h(x)) replaced by the helper's return expression"""
    if depth > 6:
        raise AnalysisError('%s: helper/local chain too deep' % where)

    class T(ast.NodeTransformer):
        def visit_Name(self, n):
            if isinstance(n.ctx, ast.Load) and n.id in local_defs:
                return inline_expr(cls, local_defs[n.id], {k: v for k, v in local_defs.items() if k != n.id}, where,
                                   depth + 1)
            return n

        def visit_Call(self, n):
            ch = chain(n.func) or ''
            parts = ch.split('.')
            if len(parts) == 2 and parts[0] in (cls.name, 'self', 'cls') and parts[1] in cls.methods:
                fn = cls.methods[parts[1]]
                body = [st for st in fn.body if not (isinstance(st, ast.Expr) and isinstance(st.value, ast.Constant))
                        and not isinstance(st, ast.Pass)]
                if len(body) != 1 or not isinstance(body[0], ast.Return) or body[0].value is None or n.keywords:
                    raise AnalysisError('%s: helper %s.%s is not a single return expression' % (where, cls.name, parts[1]))
                ps = [p for p in params_of(fn) if p not in ('self', 'cls')]
                if len(ps) != len(n.args):
                    raise AnalysisError('%s: arity of helper %s' % (where, parts[1]))
                args = [self.visit(a) for a in n.args]
                return inline_expr(cls, body[0].value, dict(zip(ps, args)), where, depth + 1)
            return self.generic_visit(n)

    import copy
    return T().visit(copy.deepcopy(e))


class _Raises(Exception):
    pass


def model_amount(chain_ast, sp, text, where):
    """what the stored amount is for the extracted text, under a model of the stdlib conversions
    (Decimal / int / float / str / round, Decimal.normalize / quantize / to_integral_value, str.strip ...)"""
    import decimal

    def ev(e):
        if isinstance(e, ast.Subscript) and chain(e.value) == sp:
            return text
        if isinstance(e, ast.Constant) and isinstance(e.value, (int, float, str)):
            return e.value
        if isinstance(e, ast.Call):
            ch = chain(e.func) or ''
            args = [ev(a) for a in e.args]
            if e.keywords:
                raise AnalysisError('%s: conversion %s with keyword arguments not modelled' % (where, ch))
            try:
                if ch in ('Decimal', 'decimal.Decimal') and len(args) == 1:
                    return decimal.Decimal(args[0])
                if ch in ('int', 'float', 'str', 'round', 'abs'):
                    return getattr(__import__('builtins'), ch)(*args)
                if isinstance(e.func, ast.Attribute):
                    recv = ev(e.func.value)
                    m = e.func.attr
                    if isinstance(recv, decimal.Decimal) and m in ('normalize', 'quantize', 'to_integral_value',
                                                                   'to_integral', 'copy_abs'):
                        return getattr(recv, m)(*args)
                    if isinstance(recv, str) and m in ('strip', 'lstrip', 'rstrip', 'replace', 'lower', 'upper'):
                        return getattr(recv, m)(*args)
            except (ValueError, TypeError, ArithmeticError) as ex:
                raise _Raises('%s: %s' % (type(ex).__name__, ex))
            raise AnalysisError('%s: conversion %s not modelled' % (where, ast.unparse(e)))
        if isinstance(e, ast.BinOp) and isinstance(e.op, (ast.Add, ast.Sub, ast.Mult, ast.Div)):
            a, b = ev(e.left), ev(e.right)
            try:
                return {ast.Add: lambda: a + b, ast.Sub: lambda: a - b, ast.Mult: lambda: a * b,
                        ast.Div: lambda: a / b}[type(e.op)]()
            except (ValueError, TypeError, ArithmeticError) as ex:
                raise _Raises('%s: %s' % (type(ex).__name__, ex))
        raise AnalysisError('%s: conversion %s not modelled' % (where, ast.unparse(e)))
    return ev(chain_ast)


AMOUNT_PROBES = ('1', '10', '100', '1.5', '0.5', '60', '0.25', '2.50')


def rule_amount(cx, chk, fams, handlers):
    """the text the formatter prints for a duration amount ('{}'.format(field) = str(stored value)) must lie in the
    amount group of the grammar and denote the number that was parsed"""
    import decimal
    tcls = cx.cls('timex', 'Timex')
    chains = load_assign.chains
    for hname, (unitgroup, table) in handlers.items():
        for letter in sorted(table):
            fld, amt, conv, line = table[letter]
            v, sp, _ = chains[hname][letter]
            node = None
            for lst in fams.values():
                for src, ln, tree in lst:
                    if unitgroup in rx.group_names(tree) and rx.find_group(tree, amt):
                        node = rx.find_group(tree, amt)[0].node
            if node is None:
                raise AnalysisError('no pattern has both groups %r and %r' % (unitgroup, amt))
            where = '%s:%d Timex.%s' % (tcls.mod.rel, line, hname)
            nf = ast.unparse(v).replace("%s['%s']" % (sp, amt), 'text')
            bad = None
            for probe in AMOUNT_PROBES:
                if not rx.matches(node, probe):
                    continue
                try:
                    val = model_amount(v, sp, probe, where)
                    printed = '{}'.format(val)
                    same = rx.matches(node, printed) and decimal.Decimal(printed) == decimal.Decimal(probe)
                    why = 'is printed as %r' % printed
                except _Raises as ex:
                    same, why = False, 'raises %s' % ex
                except decimal.InvalidOperation:
                    same, why = False, 'is printed as %r' % printed
                if not same and bad is None:
                    bad = (probe, why)
            chk.judge(bad is None, 'C14.amount', tcls.mod.path, 'Timex.%s[%s] -> %s' % (hname, letter, fld), nf,
                      'the amount of a P..%s duration is stored as %s: the amount %r %s, which /%s/ does not accept or '
                      'which is not the same number - the formatted TIMEX does not parse back'
                      % ((letter, nf) + (bad or ('', '')) + (rx.unparse(node),)), line)


def load_assign(cx):
    """Timex.assign_properties -> {group: ('int'|'raw'|'num'|'flag', field, line) | ('handler', name, line)}
    and the unit handlers -> {handler: (unitgroup, {letter: (field, amountgroup, conv)})}"""
    c = cx.cls('timex', 'Timex')
    fn = cx.meth('timex', 'Timex', 'assign_properties')
    src_param = params_of(fn)[1] if len(params_of(fn)) > 1 else None
    loop = None
    for st in fn.body:
        if isinstance(st, ast.For):
            loop = st
    if loop is None or src_param is None:
        raise AnalysisError('Timex.assign_properties: expected `for key, value in source.items()`')
    tgt = loop.target
    if isinstance(tgt, ast.Tuple) and len(tgt.elts) == 2 and all(isinstance(e, ast.Name) for e in tgt.elts) \
            and chain(loop.iter.func if isinstance(loop.iter, ast.Call) else None) == src_param + '.items':
        keyv, valv = tgt.elts[0].id, tgt.elts[1].id
    elif isinstance(tgt, ast.Name) and chain(loop.iter) == src_param:
        keyv, valv = tgt.id, None
    else:
        raise AnalysisError('Timex.assign_properties: loop header not recognised')

    def is_value(e):
        if valv and isinstance(e, ast.Name) and e.id == valv:
            return True
        return isinstance(e, ast.Subscript) and chain(e.value) == src_param and isinstance(e.slice, ast.Name) \
            and e.slice.id == keyv

    branches = {}

    def branch(test, body, line):
        keys = []
        if isinstance(test, ast.Compare) and len(test.ops) == 1 and isinstance(test.left, ast.Name) \
                and test.left.id == keyv:
            if isinstance(test.ops[0], ast.Eq) and const_str(test.comparators[0]) is not None:
                keys = [const_str(test.comparators[0])]
            elif isinstance(test.ops[0], ast.In) and isinstance(test.comparators[0], (ast.Tuple, ast.List, ast.Set)):
                keys = [const_str(e) for e in test.comparators[0].elts]
        if not keys or None in keys:
            raise AnalysisError('%s:%d assign_properties: branch test not recognised: %s'
                                % (c.mod.rel, line, ast.unparse(test)))
        body = [s for s in body if not isinstance(s, ast.Pass)]
        if len(body) != 1:
            raise AnalysisError('%s:%d assign_properties: branch body has %d statements' % (c.mod.rel, line, len(body)))
        s = body[0]
        ent = None
        if isinstance(s, ast.Assign) and len(s.targets) == 1 and isinstance(s.targets[0], ast.Attribute) \
                and chain(s.targets[0].value) == 'self':
            fld = s.targets[0].attr
            v = s.value
            if is_value(v):
                ent = ('raw', fld, s.lineno)
            elif isinstance(v, ast.Call) and len(v.args) == 1 and is_value(v.args[0]) and chain(v.func) == 'int':
                ent = ('int', fld, s.lineno)
            elif isinstance(v, ast.Call) and len(v.args) == 1 and is_value(v.args[0]) \
                    and chain(v.func) in ('Decimal', 'float', 'decimal.Decimal'):
                ent = ('num', fld, s.lineno)
            elif isinstance(v, ast.Constant) and v.value is True:
                ent = ('flag', fld, s.lineno)
        elif isinstance(s, ast.Expr) and isinstance(s.value, ast.Call) and (chain(s.value.func) or '').startswith('self.') \
                and len(s.value.args) == 1 and chain(s.value.args[0]) == src_param:
            ent = ('handler', chain(s.value.func)[5:], s.lineno)
        if ent is None:
            raise AnalysisError('%s:%d assign_properties: branch body not recognised: %s'
                                % (c.mod.rel, s.lineno, ast.unparse(s)))
        for k in keys:
            if k in branches:
                raise AnalysisError('%s:%d assign_properties: key %r tested twice' % (c.mod.rel, line, k))
            branches[k] = ent

    def walk_if(st):
        branch(st.test, st.body, st.lineno)
        if len(st.orelse) == 1 and isinstance(st.orelse[0], ast.If):
            walk_if(st.orelse[0])
        elif st.orelse and not all(isinstance(s, ast.Pass) for s in st.orelse):
            raise AnalysisError('%s:%d assign_properties: unexpected else branch' % (c.mod.rel, st.lineno))

    n_if = 0
    for st in loop.body:
        if isinstance(st, ast.If):
            walk_if(st)
            n_if += 1
        elif not isinstance(st, (ast.Pass, ast.Expr)):
            raise AnalysisError('%s:%d assign_properties: statement not recognised' % (c.mod.rel, st.lineno))
    if not n_if:
        raise AnalysisError('Timex.assign_properties: no key dispatch found')

    handlers = {}
    chains = {}
    for hname in sorted({e[1] for e in branches.values() if e[0] == 'handler'}):
        if hname not in c.methods:
            raise AnalysisError('anchor vanished: Timex.%s' % hname)
        hf = c.methods[hname]
        sp = params_of(hf)[1]
        unitgroup = None
        table = {}
        chains[hname] = {}
        hlocals = {}

        def sub_key(e):
            if isinstance(e, ast.Subscript) and chain(e.value) == sp:
                return const_str(e.slice)
            return None

        def hbranch(st):
            nonlocal unitgroup
            t = st.test
            ok = isinstance(t, ast.Compare) and len(t.ops) == 1 and isinstance(t.ops[0], ast.Eq) \
                and sub_key(t.left) and const_str(t.comparators[0]) is not None
            body = [s for s in st.body if not isinstance(s, ast.Pass)]
            if ok and len(body) == 1 and isinstance(body[0], ast.Assign) and len(body[0].targets) == 1 \
                    and isinstance(body[0].targets[0], ast.Attribute) and chain(body[0].targets[0].value) == 'self':
                where = '%s:%d Timex.%s' % (c.mod.rel, body[0].lineno, hname)
                v = inline_expr(c, body[0].value, hlocals, where)
                keys = sorted({sub_key(n) for n in ast.walk(v) if sub_key(n)})
                if len(keys) != 1:
                    raise AnalysisError('%s: stored value reads %s of the extracted groups' % (where, keys or 'none'))
                amt = keys[0]
                if sub_key(v):
                    conv = 'raw'
                elif isinstance(v, ast.Call) and chain(v.func) == 'int':
                    conv = 'int'
                else:
                    conv = 'num'
                ug = sub_key(t.left)
                if unitgroup not in (None, ug):
                    raise AnalysisError('%s:%d %s tests two different keys' % (c.mod.rel, st.lineno, hname))
                unitgroup = ug
                letter = const_str(t.comparators[0])
                table[letter] = (body[0].targets[0].attr, amt, conv, body[0].lineno)
                chains[hname][letter] = (v, sp, amt)
                if len(st.orelse) == 1 and isinstance(st.orelse[0], ast.If):
                    hbranch(st.orelse[0])
                elif st.orelse:
                    raise AnalysisError('%s:%d %s: unexpected else' % (c.mod.rel, st.lineno, hname))
                return
            raise AnalysisError('%s:%d %s: branch not recognised: %s' % (c.mod.rel, st.lineno, hname, ast.unparse(st.test)))

        for st in hf.body:
            if isinstance(st, ast.If):
                hbranch(st)
            elif isinstance(st, ast.Assign) and len(st.targets) == 1 and isinstance(st.targets[0], ast.Name):
                hlocals[st.targets[0].id] = st.value
            elif not isinstance(st, (ast.Pass, ast.Expr)):
                raise AnalysisError('%s:%d %s: statement not recognised' % (c.mod.rel, st.lineno, hname))
        if not table:
            raise AnalysisError('Timex.%s: no unit dispatch found' % hname)
        handlers[hname] = (unitgroup, table)
    load_assign.chains = chains
    return c, fn, branches, handlers


class Shape:
    """one field shape of the grammar"""

    def __init__(self, fam, src, line, toks, flags, groups):
        self.fam = fam
        self.src = src
        self.line = line
        self.toks = toks          # lit / fld / chr
        self.flags = flags        # fields set to True by literal groups (weekend)
        self.groups = groups      # group names of the underlying regex shape

    def fields(self):
        return [t.name for t in self.toks if t.kind == 'fld']

    def nf(self):
        out = []
        for t in self.toks:
            if t.kind == 'lit':
                out.append(t.text)
            elif t.kind == 'fld':
                out.append('<%s:%s>' % (t.name, rx.unparse(t.node)))
            else:
                out.append('<?%s>' % rx.unparse(t.node))
        s = ''.join(out)
        if self.flags:
            s += ' [' + ','.join(sorted(self.flags)) + '=True]'
        return s


def field_shapes(cx, fams, branches, handlers, report):
    """expand every pattern into field shapes; `report(fam, src, line, group, verdict, detail, msg)` per group"""
    shapes = []
    for fam, lst in fams.items():
        for src, line, tree in lst:
            what = "TimexRegex['%s'] %s" % (fam, src)
            for seq in expand(tree, what):
                seq = merge_lits(seq)
                gnames = [t.name for t in seq if t.kind == 'grp']
                if len(set(gnames)) != len(gnames):
                    raise AnalysisError('%s: a group name occurs twice in one shape' % what)
                # unit handlers present in this shape
                unit = {}
                for g in gnames:
                    b = branches.get(g)
                    if b and b[0] == 'handler':
                        ug, table = handlers[b[1]]
                        if ug != g:
                            report(fam, src, line, g, False, 'handler %s reads %r' % (b[1], ug),
                                   'group %r dispatches to %s, which tests source[%r] instead' % (g, b[1], ug))
                            continue
                        unit[g] = (b[1], table)
                consumed = {}
                for g, (hn, table) in unit.items():
                    for letter, (fld, amt, conv, ln) in table.items():
                        consumed.setdefault(amt, []).append(hn)
                variants = [([], set())]
                broken = False
                for t in seq:
                    if t.kind != 'grp':
                        variants = [(v + [t], f) for v, f in variants]
                        continue
                    g = t.name
                    b = branches.get(g)
                    if b is None:
                        if g in consumed:
                            # amount group: becomes a field token once the unit letter is known (below)
                            variants = [(v + [Tok('grp', name=g, node=t.node)], f) for v, f in variants]
                            report(fam, src, line, g, True, 'consumed by ' + ','.join(sorted(set(consumed[g]))), '')
                            continue
                        report(fam, src, line, g, False, 'no branch',
                               'named group %r has no branch in Timex.assign_properties and no unit handler reads it: '
                               'the captured text is dropped' % g)
                        broken = True
                        continue
                    kind, fld, ln = b
                    if kind == 'handler':
                        if g not in unit:
                            broken = True
                            continue
                        hn, table = unit[g]
                        lang = finite_lang(t.node, 200)
                        if lang is None:
                            raise AnalysisError('%s: unit group %r has no finite language' % (what, g))
                        missing = sorted(x for x in lang if x not in table)
                        report(fam, src, line, g, not missing, 'letters %s -> %s' % (
                            ','.join(sorted(lang)), ','.join('%s:%s' % (k, table[k][0]) for k in sorted(table))),
                            'unit letters %s of group %r have no branch in Timex.%s' % (missing, g, hn))
                        nv = []
                        for letter in sorted(lang):
                            if letter not in table:
                                continue
                            for v, f in variants:
                                nv.append((v + [Tok('lit', text=letter), ('unit', table[letter])], f))
                        variants = nv
                        continue
                    if kind == 'flag':
                        lang = finite_lang(t.node, 50)
                        if lang is None or len(lang) != 1:
                            raise AnalysisError('%s: flag group %r is not a single literal' % (what, g))
                        variants = [(v + [Tok('lit', text=next(iter(lang)))], f | {fld}) for v, f in variants]
                        report(fam, src, line, g, True, 'flag -> %s' % fld, '')
                        continue
                    okc = True
                    why = ''
                    if kind == 'int' and not digits_only(t.node):
                        okc, why = False, 'int() applied to a group that is not all digits'
                    if kind == 'raw' and digits_only(t.node):
                        okc, why = False, 'digit group stored without int(): the field holds a string, ' \
                                          'comparisons with numbers and == 0 tests fail'
                    report(fam, src, line, g, okc, '%s -> %s' % (kind, fld),
                           'group %r: %s' % (g, why))
                    variants = [(v + [Tok('fld', name=fld, node=t.node, conv=kind)], f) for v, f in variants]
                if broken:
                    continue
                for v, f in variants:
                    # resolve amount groups with the unit seen in this variant
                    units = [x[1] for x in v if isinstance(x, tuple)]
                    toks = []
                    bad = False
                    for x in v:
                        if isinstance(x, tuple):
                            continue
                        if x.kind == 'grp':
                            tgt = [u for u in units if u[1] == x.name]
                            if len(tgt) != 1:
                                bad = True
                                break
                            toks.append(Tok('fld', name=tgt[0][0], node=x.node, conv=tgt[0][2]))
                        else:
                            toks.append(x)
                    if bad:
                        continue
                    toks = merge_lits(toks)
                    names = [t.name for t in toks if t.kind == 'fld']
                    if len(set(names)) != len(names):
                        report(fam, src, line, ','.join(names), False, 'two groups -> one field',
                               'two groups of one pattern are stored in the same field')
                        continue
                    shapes.append(Shape(fam, src, line, toks, f, gnames))
    return shapes


# ---------------------------------------------------------------------------------------------------
# template side

class Template:
    def __init__(self, fn, line, toks, guard_fields, guard_src):
        self.fn = fn
        self.line = line
        self.toks = toks
        self.guard_fields = guard_fields
        self.guard_src = guard_src

    def fields(self):
        return [t.name for t in self.toks if t.kind == 'fld']

    def mentions(self):
        return set(self.fields()) | set(self.guard_fields)

    def nf(self):
        return nf_tokens(self.toks)


def nf_tokens(toks):
    out = []
    for t in toks:
        if t.kind == 'lit':
            out.append(t.text)
        else:
            out.append('{%s%s}' % (t.name, ':%d' % t.width if t.width else ''))
    return ''.join(out)


def spec_width(spec):
    """'02d' / '02' / '0>2' -> 2 ; '' -> None ; anything else -> AnalysisError"""
    if spec in ('', None):
        return None
    import re
    m = re.fullmatch(r'0(\d+)d?', spec) or re.fullmatch(r'0>(\d+)', spec)
    if not m:
        raise AnalysisError('format spec %r not modelled' % spec)
    return int(m.group(1))


def render_arg(node, obj, where, env=None):
    """argument of a template -> Tok('fld') for `obj.f` or `X.fixed_format_number(obj.f, w)`, or a local name that
    was assigned one of those (env: name -> Tok)"""
    if isinstance(node, ast.Name) and env and node.id in env:
        t = env[node.id]
        return Tok('fld', name=t.name, width=t.width)
    if isinstance(node, ast.Attribute) and chain(node.value) == obj:
        return Tok('fld', name=node.attr)
    if isinstance(node, ast.Call) and (chain(node.func) or '').split('.')[-1] == 'fixed_format_number' \
            and len(node.args) == 2 and isinstance(node.args[0], ast.Attribute) and chain(node.args[0].value) == obj \
            and isinstance(node.args[1], ast.Constant) and isinstance(node.args[1].value, int):
        return Tok('fld', name=node.args[0].attr, width=node.args[1].value)
    if isinstance(node, ast.Call) and chain(node.func) == 'str' and len(node.args) == 1:
        return render_arg(node.args[0], obj, where, env)
    raise AnalysisError('%s: template argument not recognised: %s' % (where, ast.unparse(node)))


def template_tokens(node, obj, where, env=None):
    """'..{}..'.format(a, b) | f'..{a}..' | 'literal' -> token list, or None when not a string template"""
    if isinstance(node, ast.Constant) and isinstance(node.value, str):
        return [Tok('lit', text=node.value)] if node.value else []
    if isinstance(node, ast.JoinedStr):
        toks = []
        for p in node.values:
            if isinstance(p, ast.Constant):
                toks.append(Tok('lit', text=p.value))
            else:
                t = render_arg(p.value, obj, where, env)
                if p.format_spec is not None:
                    spec = ''.join(x.value for x in p.format_spec.values if isinstance(x, ast.Constant))
                    if len(p.format_spec.values) != sum(isinstance(x, ast.Constant) for x in p.format_spec.values):
                        raise AnalysisError('%s: nested format spec not modelled' % where)
                    w = spec_width(spec)
                    if w and t.width:
                        raise AnalysisError('%s: padded twice' % where)
                    t.width = t.width or w
                toks.append(t)
        return merge_lits(toks)
    if isinstance(node, ast.Call) and isinstance(node.func, ast.Attribute) and node.func.attr == 'format' \
            and const_str(node.func.value) is not None:
        if node.keywords:
            raise AnalysisError('%s: keyword arguments to str.format not modelled' % where)
        toks = []
        auto = 0
        for lit, fname, spec, conv in string.Formatter().parse(node.func.value.value):
            if lit:
                toks.append(Tok('lit', text=lit))
            if fname is None:
                continue
            if fname == '':
                i = auto
                auto += 1
            elif fname.isdigit():
                i = int(fname)
            else:
                raise AnalysisError('%s: placeholder {%s} not modelled' % (where, fname))
            if i >= len(node.args):
                raise AnalysisError('%s: placeholder %d has no argument' % (where, i))
            t = render_arg(node.args[i], obj, where, env)
            w = spec_width(spec)
            t.width = t.width or w
            toks.append(t)
        return merge_lits(toks)
    return None


def obj_fields_read(test, obj):
    return sorted({n.attr for n in ast.walk(test) if isinstance(n, ast.Attribute) and chain(n.value) == obj})


def load_templates(cx):
    c = cx.cls('timex_format', 'TimexFormat')
    out = []
    empties = 0
    fnames = []
    for name, fn in c.methods.items():
        if not name.startswith('format_'):
            continue
        fnames.append(name)
        obj = first_param(fn)
        n_ret = 0

        def assigned_names(stmts):
            return {t.id for st in stmts for n in ast.walk(st) if isinstance(n, ast.Assign) for t in n.targets
                    if isinstance(t, ast.Name)}

        def visit(stmts, guards, env):
            nonlocal n_ret, empties
            for st in stmts:
                if isinstance(st, ast.Return):
                    n_ret += 1
                    where = '%s:%d TimexFormat.%s' % (c.mod.rel, st.lineno, name)
                    if st.value is None:
                        raise AnalysisError(where + ': bare return')
                    toks = template_tokens(st.value, obj, where, env)
                    if toks is None:
                        raise AnalysisError(where + ': return value is not a string template: ' + ast.unparse(st.value))
                    if not toks:
                        empties += 1
                        continue
                    gf = sorted({f for g in guards for f in obj_fields_read(g, obj)})
                    out.append(Template(name, st.lineno, toks, gf, ' and '.join(ast.unparse(g) for g in guards)))
                elif isinstance(st, ast.If):
                    visit(st.body, guards + [st.test], dict(env))
                    visit(st.orelse, guards + [st.test], dict(env))
                    for nm in assigned_names(st.body) | assigned_names(st.orelse):
                        env.pop(nm, None)           # value after the if depends on the path: not tracked
                elif isinstance(st, ast.Assign) and len(st.targets) == 1 and isinstance(st.targets[0], ast.Name):
                    try:
                        env[st.targets[0].id] = render_arg(st.value, obj, '', env)
                    except AnalysisError:
                        env.pop(st.targets[0].id, None)   # not a field rendering; refused only if a template uses it
                elif isinstance(st, (ast.Assign, ast.Expr, ast.Pass, ast.AnnAssign)):
                    continue
                else:
                    raise AnalysisError('%s:%d TimexFormat.%s: statement %s not modelled'
                                        % (c.mod.rel, st.lineno, name, type(st).__name__))
        visit(fn.body, [], {})
        if not n_ret:
            raise AnalysisError('TimexFormat.%s has no return' % name)
    if not out:
        raise AnalysisError('anchor vanished: no TimexFormat.format_* templates')
    return c, out, fnames


def renders_into(tt, st):
    """does the rendering of template token tt lie in the language of grammar token st?  -> (bool, why)"""
    node = st.node
    if st.conv == 'int':
        if tt.width:
            lang = finite_lang(node)
            if lang is not None and 10 ** tt.width <= 10000:
                need = {str(i).rjust(tt.width, '0') for i in range(10 ** tt.width)}
                miss = need - lang
                return (not miss, 'padded to %d digits but the group is %s' % (tt.width, rx.unparse(node)))
            reps = ['1'.rjust(tt.width, '0'), '9' * tt.width]
        else:
            reps = ['1']      # str(n) of a one-digit value: the shortest rendering of a bare int field
        for r in reps:
            if not rx.matches(node, r):
                return False, 'renders %r but the group is %s' % (r, rx.unparse(node))
        return True, ''
    if st.conv == 'num':
        if tt.width:
            return False, 'amount rendered with padding'
        for r in ('2', '1.5', '0.5', '10'):
            if not rx.matches(node, r):
                return False, 'renders %r but the group is %s' % (r, rx.unparse(node))
        return True, ''
    if st.conv == 'raw':
        if tt.width:
            return False, 'text field rendered with padding'
        return True, ''
    return False, 'conversion %s' % st.conv


def align(tpl_toks, shape):
    """token-wise comparison -> (equal, first difference text)"""
    a, b = tpl_toks, shape.toks
    for i in range(max(len(a), len(b))):
        if i >= len(a):
            return False, 'template ends before %s' % (b[i].text if b[i].kind == 'lit' else '<%s>' % b[i].name)
        if i >= len(b):
            return False, 'template continues with %s' % (a[i].text if a[i].kind == 'lit' else '{%s}' % a[i].name)
        x, y = a[i], b[i]
        if x.kind == 'lit' or y.kind == 'lit':
            if x.kind != y.kind:
                return False, 'literal against field at token %d' % i
            if x.text != y.text:
                return False, 'literal %r against %r' % (x.text, y.text)
            continue
        if y.kind != 'fld':
            return False, 'anonymous character class in pattern'
        if x.name != y.name:
            return False, 'field %s against group field %s' % (x.name, y.name)
        ok, why = renders_into(x, y)
        if not ok:
            return False, 'field %s: %s' % (x.name, why)
    return True, ''


# ---------------------------------------------------------------------------------------------------
# rules

def rule_groups_and_shapes(cx, chk):
    rcls, fams = load_patterns(cx)
    tcls, afn, branches, handlers = load_assign(cx)
    chk.extra['patterns'] = sum(len(v) for v in fams.values())

    def report(fam, src, line, group, ok, detail, msg):
        construct = "TimexRegex['%s'] /%s/ group %s" % (fam, src, group)
        if ok:
            chk.ok('C14.groups', rcls.mod.path, construct, detail, line)
        else:
            chk.bad('C14.groups', rcls.mod.path, construct, detail, msg, line)

    shapes = field_shapes(cx, fams, branches, handlers, report)
    # branches never fed by any group: dead wiring is only an observation
    allgroups = {g for lst in fams.values() for _, _, t in lst for g in rx.group_names(t)}
    for k in sorted(set(branches) - allgroups):
        chk.observe('Timex.assign_properties has a branch for %r but no TimexRegex pattern has such a group' % k)
    return rcls, fams, branches, handlers, shapes


def rule_templates(cx, chk, shapes):
    fcls, templates, fnames = load_templates(cx)
    matrix = {}
    for ti, t in enumerate(templates):
        for si, s in enumerate(shapes):
            ok, why = align(t.toks, s)
            matrix[ti, si] = (ok, why)
    for ti, t in enumerate(templates):
        hits = [si for si in range(len(shapes)) if matrix[ti, si][0]]
        construct = 'TimexFormat.%s -> %s' % (t.fn, t.nf())
        if hits:
            chk.ok('C14.template', fcls.mod.path, construct, 'in /%s/' % shapes[hits[0]].src, t.line)
        else:
            near = [si for si, s in enumerate(shapes) if sorted(s.fields()) == sorted(t.fields())]
            if near:
                why = '; '.join('/%s/: %s' % (shapes[si].src, matrix[ti, si][1]) for si in near[:3])
            else:
                why = 'no pattern has exactly the groups {%s}' % ','.join(sorted(t.fields()))
            chk.bad('C14.template', fcls.mod.path, construct, t.nf(),
                    'TimexFormat.%s emits %r (when %s) but no TimexRegex pattern accepts that form: the emitted '
                    'string does not parse back (%s)' % (t.fn, t.nf(), t.guard_src or 'always', why), t.line)
    seen = set()
    for si, s in enumerate(shapes):
        key = (s.fam, s.nf())
        if key in seen:
            continue
        seen.add(key)
        hits = [ti for ti in range(len(templates)) if matrix[ti, si][0]]
        construct = "TimexRegex['%s'] /%s/ shape %s" % (s.fam, s.src, s.nf())
        full = [ti for ti in hits if s.flags <= templates[ti].mentions()]
        if full:
            t = templates[full[0]]
            chk.ok('C14.shape', cx.mods['timex_regex'].path, construct, 'emitted by %s %s' % (t.fn, t.nf()), s.line)
        elif hits:
            t = templates[hits[0]]
            chk.bad('C14.shape', cx.mods['timex_regex'].path, construct, 'flag not tested',
                    'the only template with this text (%s in %s) never looks at %s' % (t.nf(), t.fn, sorted(s.flags)),
                    s.line)
        else:
            near = [ti for ti, t in enumerate(templates) if sorted(t.fields()) == sorted(s.fields())]
            why = '; '.join('%s %r: %s' % (templates[ti].fn, templates[ti].nf(), matrix[ti, si][1]) for ti in near[:3]) \
                or 'no template reads exactly the fields {%s}' % ','.join(sorted(s.fields()))
            chk.bad('C14.shape', cx.mods['timex_regex'].path, construct, 'no template',
                    'strings of this form parse, but no TimexFormat template emits the form again (%s)' % why, s.line)
    return fcls, templates, fnames


def calls_in(fn):
    return [n for n in ast.walk(fn) if isinstance(n, ast.Call)]


def rule_reach(cx, chk, fcls, fnames):
    """every format_* helper is used by TimexFormat.format; timex_value / types delegate"""
    fmt = cx.meth('timex_format', 'TimexFormat', 'format')
    called = set()
    for c in calls_in(fmt):
        ch = chain(c.func) or ''
        if ch.startswith('TimexFormat.') or ch.startswith('cls.'):
            called.add(ch.split('.')[-1])
    for name in sorted(fnames):
        chk.judge(name in called, 'C14.delegate', fcls.mod.path, 'TimexFormat.format -> ' + name, 'called',
                  'TimexFormat.%s is never called from TimexFormat.format: its forms are never emitted' % name,
                  fcls.methods[name].lineno)
    tcls = cx.cls('timex', 'Timex')
    for mname, want_cls, want_m in (('timex_value', 'TimexFormat', 'format'), ('types', 'TimexInference', 'infer')):
        fn = cx.meth('timex', 'Timex', mname)
        rets = [n for n in ast.walk(fn) if isinstance(n, ast.Return) and n.value is not None]
        if len(rets) != 1 or not isinstance(rets[0].value, ast.Call):
            raise AnalysisError('Timex.%s: expected a single `return %s.%s(self)`' % (mname, want_cls, want_m))
        call = rets[0].value
        ch = chain(call.func) or ''
        if not ch.startswith(want_cls + '.'):
            raise AnalysisError('Timex.%s no longer delegates to %s (%s)' % (mname, want_cls, ast.unparse(call)))
        good = ch == '%s.%s' % (want_cls, want_m) and len(call.args) == 1 and chain(call.args[0]) == 'self'
        chk.judge(good, 'C14.delegate', tcls.mod.path, 'Timex.' + mname, ast.unparse(call) if not good else ch,
                  'Timex.%s must return %s.%s(self), found %s' % (mname, want_cls, want_m, ast.unparse(call)),
                  fn.lineno)


def first_chars(n):
    """set of possible first characters of a match (None = anything) ; nullable flag"""
    k = n.kind
    if k == 'lit':
        return {n.c}, False
    if k in ('anchor', 'flags', 'look'):
        return set(), True
    if k == 'group':
        return first_chars(n.node)
    if k == 'cc' and n.c == 'd':
        return set('0123456789'), False
    if k == 'class' and not n.neg:
        try:
            return rx.class_chars(n), False
        except rx.RxError:
            return None, False
    if k in ('cc', 'class', 'any'):
        return None, False
    if k == 'alt':
        s, nul = set(), False
        for a in n.items:
            f, e = first_chars(a)
            if f is None:
                return None, nul or e
            s |= f
            nul = nul or e
        return s, nul
    if k == 'seq':
        s = set()
        for it in n.items:
            f, e = first_chars(it)
            if f is None:
                return None, False
            s |= f
            if not e:
                return s, False
        return s, True
    if k == 'rep':
        f, e = first_chars(n.node)
        return f, e or n.lo == 0
    raise AnalysisError('first_chars: %s not modelled' % k)


def may_contain(n, ch):
    """can a match of n contain character ch?"""
    for x in rx.walk(n):
        if x.kind in ('lit', 'cc', 'class', 'any', 'range'):
            if x.kind == 'range':
                continue
            try:
                if rx._ch_match(x, ch) and x.kind != 'lit':
                    return True
                if x.kind == 'lit' and x.c == ch:
                    return True
            except rx.RxError:
                return True
    return False


def rule_dispatch(cx, chk, fams, templates):
    pcls = cx.cls('timex_parsing', 'TimexParsing')
    path = pcls.mod.path
    # which families does every TimexParsing method extract (directly), which methods does it call
    direct, callees, feeds = {}, {}, {}
    for name, fn in pcls.methods.items():
        direct[name] = []
        callees[name] = set()
        assigned = False
        for c in calls_in(fn):
            ch = chain(c.func) or ''
            if ch.endswith('TimexRegex.extract') or ch == 'TimexRegex.extract':
                fam = const_str(c.args[0]) if c.args else None
                if fam is None:
                    raise AnalysisError('%s:%d TimexRegex.extract with a non-literal family' % (pcls.mod.rel, c.lineno))
                direct[name].append((fam, c))
            elif ch.startswith('TimexParsing.') or ch.startswith('cls.'):
                callees[name].add(ch.split('.')[-1])
            elif ch.endswith('.assign_properties'):
                assigned = True
        feeds[name] = assigned
    for name in direct:
        for fam, c in direct[name]:
            chk.judge(fam in fams, 'C14.dispatch', path, 'TimexParsing.%s extract(%r)' % (name, fam), 'family exists',
                      "TimexRegex.extract(%r, ...): TimexRegex.timexRegex has no such family (KeyError)" % fam, c.lineno)
            # the dict the extraction fills must be handed to assign_properties
            tgt = chain(c.args[2]) if len(c.args) > 2 else None
            fn = pcls.methods[name]
            handed = any((chain(k.func) or '').endswith('.assign_properties') and k.args and chain(k.args[0]) == tgt
                         for k in calls_in(fn))
            chk.judge(handed, 'C14.dispatch', path, 'TimexParsing.%s extract(%r) -> assign_properties' % (name, fam),
                      'result dict handed on',
                      'the dict filled by extract(%r) is never passed to assign_properties: captured groups are lost'
                      % fam, c.lineno)

    def reach(name, seen=None):
        seen = seen or set()
        if name in seen or name not in direct:
            return set()
        seen.add(name)
        r = {f for f, _ in direct[name]}
        for cal in callees[name]:
            r |= reach(cal, seen)
        return r

    if 'parse_string' not in pcls.methods:
        raise AnalysisError('anchor vanished: TimexParsing.parse_string')
    ps = pcls.methods['parse_string']
    sparam = params_of(ps)[0]
    oparam = params_of(ps)[1]
    reached = reach('parse_string')
    for fam in fams:
        chk.judge(fam in reached, 'C14.dispatch', path, "TimexParsing.parse_string reaches family '%s'" % fam,
                  'reachable', "no call chain from parse_string extracts the '%s' patterns: those TIMEX strings parse "
                               'to an empty Timex' % fam, ps.lineno)

    # routing: the if-chain of parse_string
    chainif = [st for st in ps.body if isinstance(st, ast.If)]
    if len(chainif) != 1:
        raise AnalysisError('TimexParsing.parse_string: expected one if/elif chain')
    arms = []      # (test or None, body)
    st = chainif[0]
    while True:
        arms.append((st.test, st.body))
        if len(st.orelse) == 1 and isinstance(st.orelse[0], ast.If):
            st = st.orelse[0]
        else:
            arms.append((None, st.orelse))
            break

    def arm_families(body):
        r = set()
        for s in body:
            for c in ast.walk(s):
                if isinstance(c, ast.Call):
                    ch = chain(c.func) or ''
                    if ch.startswith('TimexParsing.') or ch.startswith('cls.'):
                        r |= reach(ch.split('.')[-1])
                    elif ch.endswith('TimexRegex.extract') and c.args and const_str(c.args[0]):
                        r.add(const_str(c.args[0]))
        return r

    def guard(test, firsts, lasts, tree):
        """three-valued: True / False / None(maybe) for strings of the pattern"""
        if isinstance(test, ast.BoolOp):
            vals = [guard(v, firsts, lasts, tree) for v in test.values]
            if isinstance(test.op, ast.And):
                return False if False in vals else (True if all(v is True for v in vals) else None)
            return True if True in vals else (False if all(v is False for v in vals) else None)
        if isinstance(test, ast.Compare) and len(test.ops) == 1 and isinstance(test.ops[0], ast.Eq) \
                and chain(test.left) == sparam and const_str(test.comparators[0]) is not None:
            w = const_str(test.comparators[0])
            return None if rx.matches(tree, w) else False
        if isinstance(test, ast.Call) and chain(test.func) in (sparam + '.startswith', sparam + '.endswith') \
                and len(test.args) == 1 and const_str(test.args[0]) and len(const_str(test.args[0])) == 1:
            chars = firsts if test.func.attr == 'startswith' else lasts
            ch = const_str(test.args[0])
            if chars is None:
                return None
            if chars == {ch}:
                return True
            return None if ch in chars else False
        raise AnalysisError('%s:%d parse_string: guard not modelled: %s' % (pcls.mod.rel, test.lineno, ast.unparse(test)))

    def rev(n):
        m = rx.Node(n.kind, items=None, node=None, name=n.name, lo=n.lo, hi=n.hi, c=n.c, neg=n.neg, dir=n.dir, lazy=n.lazy)
        if n.items is not None:
            m.items = [rev(x) for x in n.items]
            if n.kind == 'seq':
                m.items.reverse()
        if n.node is not None:
            m.node = rev(n.node)
        return m

    def route(tree, fam, construct, line, what):
        firsts, nul = first_chars(tree)
        lasts, nul2 = first_chars(rev(tree))
        if nul or nul2:
            firsts = lasts = None
        for test, body in arms:
            g = True if test is None else guard(test, firsts, lasts, tree)
            if g is False:
                continue
            got = arm_families(body)
            desc = 'else' if test is None else ast.unparse(test)
            chk.judge(fam in got, 'C14.route', path, construct, 'arm [%s] extracts %s' % (desc, ','.join(sorted(got)) or '-'),
                      "%s can take the parse_string arm `%s`, which extracts {%s} and never the '%s' patterns"
                      % (what, desc, ','.join(sorted(got)), fam), line)
            if g is True:
                return
        return

    for fam, lst in fams.items():
        for src, line, tree in lst:
            route(tree, fam, "TimexRegex['%s'] /%s/" % (fam, src), line, 'a string matching /%s/' % src)

    # the constant string emitted for the present reference must be recognised by parse_string
    fmt = cx.meth('timex_format', 'TimexFormat', 'format')
    consts = [const_str(r.value) for r in ast.walk(fmt) if isinstance(r, ast.Return) and const_str(r.value)]
    for w in sorted(set(consts)):
        hit = None
        for test, body in arms:
            if test is not None and isinstance(test, ast.Compare) and const_str(test.comparators[0]) == w \
                    and chain(test.left) == sparam:
                hit = body
        sets_now = hit is not None and any(
            isinstance(s, ast.Assign) and isinstance(s.targets[0], ast.Attribute) and chain(s.targets[0].value) == oparam
            for s in hit)
        chk.judge(sets_now, 'C14.route', path, 'TimexFormat.format constant %r' % w, 'recognised by parse_string',
                  'TimexFormat.format returns the constant %r but parse_string has no arm `%s == %r` that sets a field'
                  % (w, sparam, w), fmt.lineno)

    # split of date and time at a marker character: s[0:i] -> family A, s[i:] -> family B, i = s.find(<marker>)
    split_found = 0
    for name, fn in pcls.methods.items():
        sp = params_of(fn)[0] if params_of(fn) else None
        marker = {}
        for a in ast.walk(fn):
            if isinstance(a, ast.Assign) and len(a.targets) == 1 and isinstance(a.targets[0], ast.Name) \
                    and isinstance(a.value, ast.Call) and chain(a.value.func) in (sp + '.find', sp + '.index') \
                    and a.value.args and const_str(a.value.args[0]):
                marker[a.targets[0].id] = const_str(a.value.args[0])
        if not marker:
            continue
        for fam, c in direct[name]:
            arg = c.args[1] if len(c.args) > 1 else None
            if not isinstance(arg, ast.Subscript) or not isinstance(arg.slice, ast.Slice) or chain(arg.value) != sp:
                # whole string handed over: only reached when the marker is absent or handled elsewhere
                continue
            lo, hi = arg.slice.lower, arg.slice.upper
            lo_zero = lo is None or (isinstance(lo, ast.Constant) and lo.value == 0)
            if lo_zero and isinstance(hi, ast.Name) and hi.id in marker:
                mk = marker[hi.id]
                split_found += 1
                for src, line, tree in fams.get(fam, []):
                    chk.judge(not may_contain(tree, mk), 'C14.route', path,
                              "TimexParsing.%s prefix before %r: TimexRegex['%s'] /%s/" % (name, mk, fam, src),
                              'marker-free',
                              "the '%s' part is cut at the first %r, but /%s/ can itself contain %r: such strings are "
                              'split in the wrong place' % (fam, mk, src, mk), line)
            elif isinstance(lo, ast.Name) and lo.id in marker and hi is None:
                mk = marker[lo.id]
                split_found += 1
                for src, line, tree in fams.get(fam, []):
                    f, nul = first_chars(tree)
                    chk.judge(f == {mk} and not nul, 'C14.route', path,
                              "TimexParsing.%s suffix from %r: TimexRegex['%s'] /%s/" % (name, mk, fam, src),
                              'starts with marker',
                              "the '%s' part starts at the first %r, but /%s/ does not start with %r" % (fam, mk, src, mk),
                              line)
            else:
                raise AnalysisError('%s:%d TimexParsing.%s: slice handed to extract not modelled: %s'
                                    % (pcls.mod.rel, c.lineno, name, ast.unparse(arg)))
    multi = [name for name in direct if len({f for f, _ in direct[name]}) > 1]
    if multi and split_found < 2:
        # one method feeds two families from one string, so the string must be cut somewhere
        raise AnalysisError('TimexParsing: the date/time split idiom (i = s.find(<marker>); extract(A, s[0:i]); '
                            'extract(B, s[i:])) was not recognised')


def rule_wiring(cx, chk):
    tcls = cx.cls('timex', 'Timex')
    path = tcls.mod.path
    init = cx.meth('timex', 'Timex', '__init__')
    iparams = params_of(init)[1:]
    stores = {}
    for st in init.body:
        if isinstance(st, ast.Assign) and len(st.targets) == 1 and isinstance(st.targets[0], ast.Attribute) \
                and chain(st.targets[0].value) == 'self':
            stores[st.targets[0].attr] = (st.value, st.lineno)
    n = 0
    for p in iparams:
        if p == 'timex':
            continue
        hit = [(f, v, ln) for f, (v, ln) in stores.items() if isinstance(v, ast.Name) and v.id == p]
        if not hit:
            chk.bad('C14.wiring', path, 'Timex.__init__(%s=)' % p, 'not stored',
                    'constructor parameter %r is not stored in any field' % p, init.lineno)
            continue
        for f, v, ln in hit:
            n += 1
            chk.judge(f == p, 'C14.wiring', path, 'Timex.__init__(%s=)' % p, 'self.%s = %s' % (f, p),
                      'constructor parameter %r is stored in field %r' % (p, f), ln)
    fields = [f for f in stores]
    # from_* constructors
    for cname, want in FROM_EXPECT.items():
        fn = cx.meth('timex', 'Timex', cname)
        src = params_of(fn)[1]
        calls = [c for c in calls_in(fn) if chain(c.func) in ('cls', 'Timex')]
        if len(calls) != 1:
            raise AnalysisError('Timex.%s: expected one constructor call cls(...)' % cname)
        call = calls[0]
        if call.args:
            raise AnalysisError('Timex.%s: positional constructor arguments not modelled' % cname)
        got = {}
        for kw in call.keywords:
            if kw.arg is None:
                raise AnalysisError('Timex.%s: **kwargs not modelled' % cname)
            got[kw.arg] = kw.value
        for k in want:
            construct = 'Timex.%s %s=' % (cname, k)
            if k not in got:
                chk.bad('C14.from', path, construct, 'missing', 'Timex.%s does not pass %s' % (cname, k), call.lineno)
                continue
            v = got[k]
            if isinstance(v, ast.Attribute) and chain(v.value) == src:
                chk.judge(v.attr == FROM_REF[k], 'C14.from', path, construct, '%s <- .%s' % (k, v.attr),
                          'Timex.%s passes %s.%s as %s (expected .%s)' % (cname, src, v.attr, k, FROM_REF[k]), v.lineno)
            else:
                raise AnalysisError('%s:%d Timex.%s: argument %s=%s not modelled' % (tcls.mod.rel, v.lineno, cname, k,
                                                                                 ast.unparse(v)))
        for k in sorted(set(got) - set(want)):
            chk.bad('C14.from', path, 'Timex.%s %s=' % (cname, k), 'unexpected',
                    'Timex.%s also sets %s, which the python value does not carry' % (cname, k), call.lineno)
        for k in got:
            if k not in iparams:
                chk.bad('C14.from', path, 'Timex.%s %s=' % (cname, k), 'unknown keyword',
                        'Timex.__init__ has no parameter %r (TypeError)' % k, call.lineno)
    # clone copies field to homonymous field and covers every field of __init__
    clone = cx.meth('timex', 'Timex', 'clone')
    copied = {}
    for st in ast.walk(clone):
        if isinstance(st, ast.Assign) and len(st.targets) == 1 and isinstance(st.targets[0], ast.Attribute) \
                and isinstance(st.value, ast.Attribute) and chain(st.value.value) == 'self' \
                and isinstance(st.targets[0].value, ast.Name):
            copied[st.targets[0].attr] = (st.value.attr, st.lineno)
    if len(copied) < 5:
        raise AnalysisError('Timex.clone: field-by-field copy idiom not recognised')
    for f in fields:
        if f not in copied:
            chk.bad('C14.wiring', path, 'Timex.clone .%s' % f, 'not copied',
                    'Timex.clone does not copy field %r (clones feed the (start,end,duration) form)' % f, clone.lineno)
        else:
            chk.judge(copied[f][0] == f, 'C14.wiring', path, 'Timex.clone .%s' % f, '%s <- self.%s' % (f, copied[f][0]),
                      'Timex.clone copies self.%s into %s' % (copied[f][0], f), copied[f][1])
    return iparams, fields


def rule_time_plumbing(cx, chk):
    """hour / minute / second are properties over one shared Time object"""
    tcls = cx.cls('timex', 'Timex')
    path = tcls.mod.path
    time_init = cx.meth('time', 'Time', '__init__')
    tparams = params_of(time_init)[1:]
    tpath = cx.mods['time'].path
    tstores = {}
    for st in time_init.body:
        if isinstance(st, ast.Assign) and isinstance(st.targets[0], ast.Attribute) and chain(st.targets[0].value) == 'self' \
                and isinstance(st.value, ast.Name):
            tstores[st.value.id] = (st.targets[0].attr, st.lineno)
    for p in tparams:
        if p not in tstores:
            chk.bad('C14.timeprop', tpath, 'Time.__init__(%s)' % p, 'not stored', 'Time.__init__ drops %r' % p,
                    time_init.lineno)
        else:
            chk.judge(tstores[p][0] == p, 'C14.timeprop', tpath, 'Time.__init__(%s)' % p, 'self.%s = %s' % (tstores[p][0], p),
                      'Time.__init__ stores parameter %r in attribute %r' % (p, tstores[p][0]), tstores[p][1])
    keys = set()
    for name in ZERO_VALID:
        getter = tcls.methods.get(name)
        setter = tcls.methods.get(name + '#setter')
        if getter is None or setter is None or not any(chain(d) == 'property' for d in getter.decorator_list):
            raise AnalysisError('Timex.%s: expected a property with a setter' % name)
        # getter
        rets = [r for r in ast.walk(getter) if isinstance(r, ast.Return) and r.value is not None
                and not (isinstance(r.value, ast.Constant) and r.value.value is None)]
        if not rets:
            raise AnalysisError('Timex.%s getter returns nothing' % name)
        for r in rets:
            v = r.value
            if not (isinstance(v, ast.Attribute) and isinstance(v.value, ast.Call) and chain(v.value.func) == 'getattr'):
                raise AnalysisError('%s:%d Timex.%s getter: idiom getattr(self, K).<attr> not recognised'
                                    % (tcls.mod.rel, r.lineno, name))
            keys.add(const_str(v.value.args[1]))
            chk.judge(v.attr == name, 'C14.timeprop', path, 'Timex.%s getter' % name, 'reads .%s' % v.attr,
                      'the %s property returns the .%s of the shared Time object' % (name, v.attr), r.lineno)
        # setter
        vparam = params_of(setter)[1]
        made = False
        for c in calls_in(setter):
            ch = chain(c.func)
            if ch in ('getattr', 'setattr', 'hasattr', 'delattr') and len(c.args) >= 2:
                keys.add(const_str(c.args[1]))
            if ch == 'Time':
                made = True
                if c.keywords:
                    args = {k.arg: k.value for k in c.keywords}
                else:
                    args = dict(zip(tparams, c.args))
                pos = [p for p, a in args.items() if isinstance(a, ast.Name) and a.id == vparam]
                others = [p for p, a in args.items() if not (isinstance(a, ast.Name) and a.id == vparam)]
                zeros = all(isinstance(args[p], ast.Constant) and args[p].value == 0 and args[p].value is not False
                            for p in others)
                chk.judge(pos == [name] and len(args) == len(tparams), 'C14.timeprop', path,
                          'Timex.%s setter Time(...)' % name, 'value -> %s' % ','.join(pos),
                          'the %s setter creates the Time object with the value in position %s' % (name, pos or '-'),
                          c.lineno)
                chk.judge(zeros, 'C14.timeprop', path, 'Timex.%s setter Time(...) defaults' % name,
                          'others = %s' % ','.join(ast.unparse(args[p]) for p in others),
                          'the %s setter must default the other two components to 0 (T%s alone is a full time; '
                          'None or another value changes inference / the emitted form)' % (name, 'hh'), c.lineno)
        if not made:
            raise AnalysisError('Timex.%s setter: construction of the shared Time object not recognised' % name)
        wrote = False
        for st in ast.walk(setter):
            if isinstance(st, ast.Assign) and isinstance(st.targets[0], ast.Attribute) \
                    and isinstance(st.value, ast.Name) and st.value.id == vparam:
                wrote = True
                chk.judge(st.targets[0].attr == name, 'C14.timeprop', path, 'Timex.%s setter update' % name,
                          'writes .%s' % st.targets[0].attr,
                          'the %s setter writes .%s of the shared Time object' % (name, st.targets[0].attr), st.lineno)
        if not wrote:
            raise AnalysisError('Timex.%s setter: update of an existing Time object not recognised' % name)
    chk.judge(len(keys) == 1 and None not in keys, 'C14.timeprop', path, 'Timex hour/minute/second backing attribute',
              ','.join(sorted(str(k) for k in keys)),
              'the three properties do not share one backing attribute: %s' % sorted(str(k) for k in keys))
    # fixed_format_number pads on the left with zeros to the given width
    fn = cx.meth('timex_date_helpers', 'TimexDateHelpers', 'fixed_format_number')
    ps = params_of(fn)
    rets = [r for r in ast.walk(fn) if isinstance(r, ast.Return)]
    form = None
    if len(rets) == 1 and len(ps) == 2:
        v = rets[0].value
        if isinstance(v, ast.Call) and isinstance(v.func, ast.Attribute) and isinstance(v.func.value, ast.Call) \
                and chain(v.func.value.func) == 'str' and chain(v.func.value.args[0]) == ps[0]:
            if v.func.attr == 'rjust' and len(v.args) == 2 and chain(v.args[0]) == ps[1]:
                form = ('rjust', const_str(v.args[1]))
            elif v.func.attr == 'zfill' and len(v.args) == 1 and chain(v.args[0]) == ps[1]:
                form = ('rjust', '0')
            elif v.func.attr in ('ljust', 'center'):
                form = (v.func.attr, const_str(v.args[1]) if len(v.args) > 1 else ' ')
            elif v.func.attr == 'rjust' and len(v.args) == 1:
                form = ('rjust', ' ')
    if form is None:
        raise AnalysisError('TimexDateHelpers.fixed_format_number: padding idiom not recognised')
    chk.judge(form == ('rjust', '0'), 'C14.timeprop', cx.mods['timex_date_helpers'].path,
              'TimexDateHelpers.fixed_format_number', '%s with %r' % form,
              'fixed_format_number must left-pad with "0" to the width; it does %s with %r' % form, fn.lineno)


def truthy_reads(fn, obj, fields):
    """(attr node, kind) for every read of obj.<field in fields> : kind 'truth' when its truth value is taken,
    'cmp' when it is compared (is None / == 0 / ...), 'value' otherwise"""
    out = []

    def expr(e, boolctx):
        if isinstance(e, ast.Attribute) and chain(e.value) == obj and e.attr in fields:
            out.append((e, 'truth' if boolctx else 'value'))
            return
        if isinstance(e, ast.BoolOp):
            for v in e.values:
                expr(v, True)
            return
        if isinstance(e, ast.UnaryOp) and isinstance(e.op, ast.Not):
            expr(e.operand, True)
            return
        if isinstance(e, ast.Compare):
            for v in [e.left] + e.comparators:
                if isinstance(v, ast.Attribute) and chain(v.value) == obj and v.attr in fields:
                    out.append((v, 'cmp'))
                else:
                    expr(v, False)
            return
        if isinstance(e, ast.IfExp):
            expr(e.test, True)
            expr(e.body, boolctx)
            expr(e.orelse, boolctx)
            return
        for ch in ast.iter_child_nodes(e):
            if isinstance(ch, ast.expr):
                expr(ch, False)
            elif isinstance(ch, ast.comprehension):
                expr(ch.iter, False)
                for c in ch.ifs:
                    expr(c, True)

    def stmt(s, predicate):
        if isinstance(s, (ast.If, ast.While)):
            expr(s.test, True)
            for x in s.body + s.orelse:
                stmt(x, predicate)
        elif isinstance(s, ast.Return):
            if s.value is not None:
                expr(s.value, predicate)
        elif isinstance(s, ast.Assert):
            expr(s.test, True)
        elif isinstance(s, (ast.For, ast.With, ast.Try)):
            for ch in ast.iter_child_nodes(s):
                if isinstance(ch, ast.stmt):
                    stmt(ch, predicate)
                elif isinstance(ch, ast.expr):
                    expr(ch, False)
        else:
            for ch in ast.iter_child_nodes(s):
                if isinstance(ch, ast.expr):
                    expr(ch, False)

    predicate = '__is_' in fn.name or fn.name.startswith('is_') or fn.name.startswith('_is_')
    for s in fn.body:
        stmt(s, predicate)
    return out


def rule_falsy_zero(cx, chk, shapes):
    # fields whose grammar admits an all-zero text and for which 0 is a valid calendar value
    admits = set()
    for s in shapes:
        for t in s.toks:
            if t.kind == 'fld' and t.conv == 'int' and t.name in ZERO_VALID:
                lang = finite_lang(t.node)
                if lang is None or any(set(w) == {'0'} for w in lang):
                    admits.add(t.name)
    if not admits:
        raise AnalysisError('no zero-admitting field found in the grammar (hour/minute/second groups vanished?)')
    n = 0
    for modname, clsname in (('timex_inference', 'TimexInference'), ('timex_format', 'TimexFormat')):
        c = cx.cls(modname, clsname)
        for mname, fn in c.methods.items():
            if mname.endswith('#setter') or not params_of(fn):
                continue
            ps = [p for p in params_of(fn) if p not in ('self', 'cls')]
            for obj in ps:
                for node, kind in truthy_reads(fn, obj, admits):
                    if kind == 'value':
                        continue
                    n += 1
                    construct = '%s.%s reads %s.%s' % (clsname, mname.replace('_TimexInference', ''), obj, node.attr)
                    if kind == 'truth':
                        chk.bad('C14.falsy0', c.mod.path, construct, 'truth value of %s' % node.attr,
                                'the truth value of %s.%s is taken, but 0 is a valid %s (T00:00:00): a zero field is '
                                'treated like a missing one' % (obj, node.attr, node.attr), node.lineno)
                    else:
                        chk.ok('C14.falsy0', c.mod.path, construct, 'explicit comparison', node.lineno)
    # positive control
    ctl = ast.parse("def __is_time(obj):\n    return obj.hour and obj.minute is not None\n").body[0]
    fired = any(k == 'truth' for _, k in truthy_reads(ctl, 'obj', {'hour', 'minute'}))
    ctl2 = ast.parse("def format_time(t):\n    if not t.second:\n        return 'x'\n    return 'y'\n").body[0]
    fired = fired and any(k == 'truth' for _, k in truthy_reads(ctl2, 't', {'second'}))
    chk.control('C14.falsy0', fired)
    return admits


# ---------------------------------------------------------------------------------------------------

def run(chk):
    chk.explanation = ('grammar/template agreement of the TIMEX datatype: the named groups of the TimexRegex patterns, '
                       'the branches of Timex.assign_properties, and the string templates of TimexFormat.format_* are '
                       'extracted from the AST and compared token by token in both directions; parse dispatch, '
                       'constructor wiring, the shared Time object behind hour/minute/second and truthiness tests on '
                       'zero-admitting fields are checked structurally')
    chk.rule('C14.groups', 'every named group of every TimexRegex pattern is consumed by Timex.assign_properties '
                           '(own branch with a conversion that fits the group, or read by the unit handler)', floor=20)
    chk.rule('C14.template', 'template in grammar: every TimexFormat.format_* template is token-wise a shape of some '
                             'TimexRegex pattern (literals equal, field = group field, padded rendering in the group '
                             'language)', floor=12)
    chk.rule('C14.shape', 'grammar in templates: every shape of every TimexRegex pattern is emitted by some template '
                          'that mentions all of its groups', floor=14)
    chk.rule('C14.delegate', 'Timex.timex_value -> TimexFormat.format, Timex.types -> TimexInference.infer, every '
                             'format_* helper is used by format', floor=5)
    chk.rule('C14.dispatch', 'TimexParsing extracts only existing families, hands the result to assign_properties and '
                             'parse_string reaches every family', floor=6)
    chk.rule('C14.route', 'routing by first/last character and the split at the time marker are consistent with the '
                          'patterns of the family that is extracted', floor=20)
    chk.rule('C14.wiring', 'Timex.__init__ and Timex.clone store every field under its own name', floor=30)
    chk.rule('C14.from', 'from_date / from_date_time / from_time pass year,month,day,hour,minute,second homonymously',
             floor=12)
    chk.rule('C14.timeprop', 'hour/minute/second getters and setters address the same component of one shared Time '
                             'object, other components default to 0; fixed_format_number left-pads with 0', floor=15)
    chk.rule('C14.amount', 'the stored duration amount, as str() prints it, lies in the amount group and denotes the '
                           'parsed number (conversion chain followed through locals and single-return helpers, stdlib '
                           'conversions modelled, probe amounts)', floor=5)
    chk.rule('C14.falsy0', 'no truthiness test on hour/minute/second in TimexInference / TimexFormat', floor=3,
             control=True)
    chk.assume('digit groups hold valid calendar values (the checker does not bound month to 12 etc.); only hour, '
               'minute and second can legitimately be 0')
    cx = Ctx(chk)
    rcls, fams, branches, handlers, shapes = rule_groups_and_shapes(cx, chk)
    fcls, templates, fnames = rule_templates(cx, chk, shapes)
    rule_reach(cx, chk, fcls, fnames)
    rule_dispatch(cx, chk, fams, templates)
    rule_wiring(cx, chk)
    rule_time_plumbing(cx, chk)
    rule_falsy_zero(cx, chk, shapes)
    chk.extra['shapes'] = len(shapes)
    chk.extra['templates'] = len(templates)
    rule_amount(cx, chk, fams, handlers)
    chk._c14 = (cx, fams, shapes, templates)
    rule_roundtrip(chk)


# ---------------------------------------------------------------------------------------------------
# thorough tier: abstract interpretation of infer -> format over None / 0 / non-zero shapes

class FV:
    """abstract value of a Timex field"""
    __slots__ = ('field', 'kind')

    def __init__(self, field, kind):
        self.field = field
        self.kind = kind          # none | zero | nz | true | false

    def __repr__(self):
        return '%s=%s' % (self.field, self.kind)


class TplV:
    """an emitted string: list of Tok (lit / fld)"""
    __slots__ = ('toks',)

    def __init__(self, toks):
        self.toks = merge_lits(toks)


class ClassRef:
    def __init__(self, c):
        self.c = c


class ModRef:
    def __init__(self, m):
        self.m = m


class ObjRef:
    def __init__(self, fields):
        self.fields = fields


class _Return(Exception):
    def __init__(self, v):
        self.v = v


class Interp:
    def __init__(self, cx):
        self.cx = cx
        self.idx = cx.idx
        self.timex_cls = cx.cls('timex', 'Timex')
        self.depth = 0

    def err(self, mod, node, msg):
        raise AnalysisError('%s:%d abstract interpreter: %s: %s' % (mod.rel, getattr(node, 'lineno', 0), msg,
                                                                     ast.unparse(node)[:80]))

    # -- values
    def truth(self, v, mod, node):
        if isinstance(v, FV):
            return v.kind in ('nz', 'true')
        if isinstance(v, TplV):
            return bool(v.toks)
        if isinstance(v, (bool, str, int, set, frozenset, tuple, list)) or v is None:
            return bool(v)
        self.err(mod, node, 'truth value of %r not modelled' % (v,))

    def to_toks(self, v, mod, node, width=None):
        if isinstance(v, FV):
            if v.kind in ('nz', 'zero'):
                return [Tok('fld', name=v.field, width=width)]
            return [Tok('lit', text='<%s of %s>' % ({'none': 'None', 'true': 'True', 'false': 'False'}[v.kind], v.field))]
        if isinstance(v, TplV):
            if width:
                self.err(mod, node, 'padding of a composed string')
            return list(v.toks)
        if isinstance(v, str):
            return [Tok('lit', text=v)] if v else []
        self.err(mod, node, 'cannot render %r' % (v,))

    # -- expressions
    def ev(self, e, env, mod):
        if isinstance(e, ast.Constant):
            return e.value
        if isinstance(e, ast.Name):
            if e.id in env:
                return env[e.id]
            r = self.idx.resolve(mod, e.id)
            if r and r[0] == 'class':
                return ClassRef(r[1])
            if r and r[0] == 'module':
                return ModRef(r[1])
            self.err(mod, e, 'name not resolved')
        if isinstance(e, ast.Attribute):
            b = self.ev(e.value, env, mod)
            if isinstance(b, ObjRef):
                if e.attr in b.fields:
                    return b.fields[e.attr]
                fn = self.timex_cls.methods.get(e.attr)
                if fn is not None and any(chain(d) == 'property' for d in fn.decorator_list):
                    return self.call_fn(self.timex_cls, fn, [b], mod, e)
                self.err(mod, e, 'Timex has no field or property %r' % e.attr)
            if isinstance(b, ModRef):
                if e.attr in b.m.classes:
                    return ClassRef(b.m.classes[e.attr])
                r = self.idx.resolve(b.m, e.attr)
                if r and r[0] == 'class':
                    return ClassRef(r[1])
                self.err(mod, e, 'module attribute not resolved')
            if isinstance(b, ClassRef):
                k, v = self.idx.class_attr(b.c, e.attr)
                if v is not None and isinstance(v, ast.Constant):
                    return v.value
                if e.attr in b.c.methods:
                    return ('method', b.c, b.c.methods[e.attr])
                self.err(mod, e, 'class attribute not a constant')
            if isinstance(b, set) and e.attr == 'add':
                return ('setadd', b)
            self.err(mod, e, 'attribute of %s not modelled' % type(b).__name__)
        if isinstance(e, ast.BoolOp):
            v = None
            for x in e.values:
                v = self.ev(x, env, mod)
                t = self.truth(v, mod, x)
                if isinstance(e.op, ast.And) and not t:
                    return v
                if isinstance(e.op, ast.Or) and t:
                    return v
            return v
        if isinstance(e, ast.UnaryOp) and isinstance(e.op, ast.Not):
            return not self.truth(self.ev(e.operand, env, mod), mod, e.operand)
        if isinstance(e, ast.IfExp):
            return self.ev(e.body if self.truth(self.ev(e.test, env, mod), mod, e.test) else e.orelse, env, mod)
        if isinstance(e, ast.Compare):
            left = self.ev(e.left, env, mod)
            for op, rn in zip(e.ops, e.comparators):
                right = self.ev(rn, env, mod)
                r = self.cmp(left, op, right, mod, e)
                if not r:
                    return False
                left = right
            return True
        if isinstance(e, ast.JoinedStr):
            toks = []
            for p in e.values:
                if isinstance(p, ast.Constant):
                    toks.append(Tok('lit', text=p.value))
                else:
                    w = None
                    if p.format_spec is not None:
                        w = spec_width(''.join(x.value for x in p.format_spec.values if isinstance(x, ast.Constant)))
                    toks.extend(self.to_toks(self.ev(p.value, env, mod), mod, p, w))
            return TplV(toks)
        if isinstance(e, ast.Call):
            return self.call(e, env, mod)
        self.err(mod, e, 'expression %s not modelled' % type(e).__name__)

    def cmp(self, a, op, b, mod, node):
        if isinstance(op, (ast.In, ast.NotIn)):
            if not isinstance(b, (set, frozenset, tuple, list)):
                self.err(mod, node, 'membership in %s' % type(b).__name__)
            r = a in b
            return r if isinstance(op, ast.In) else not r
        if isinstance(a, FV) and not isinstance(b, FV):
            conc = {'none': None, 'zero': 0, 'true': True, 'false': False}
            if isinstance(op, (ast.Is, ast.IsNot)):
                if a.kind == 'nz':
                    r = False
                    if b not in (None, True, False):
                        self.err(mod, node, 'identity with a non-singleton')
                else:
                    r = conc[a.kind] is b if not isinstance(b, int) or isinstance(b, bool) else False
                return r if isinstance(op, ast.Is) else not r
            if isinstance(op, (ast.Eq, ast.NotEq)):
                if a.kind == 'nz':
                    if b is None or b == 0 or b is False:
                        r = False
                    else:
                        self.err(mod, node, 'comparison of a non-zero field with %r needs its value' % (b,))
                else:
                    r = conc[a.kind] == b
                return r if isinstance(op, ast.Eq) else not r
            self.err(mod, node, 'ordering comparison on an abstract field')
        if isinstance(b, FV):
            flip = {ast.Eq: ast.Eq, ast.NotEq: ast.NotEq, ast.Is: ast.Is, ast.IsNot: ast.IsNot}.get(type(op))
            if flip is None or isinstance(a, FV):
                self.err(mod, node, 'comparison between abstract fields')
            return self.cmp(b, op, a, mod, node)
        if isinstance(a, (TplV, ObjRef, ClassRef, ModRef)) or isinstance(b, (TplV, ObjRef, ClassRef, ModRef)):
            self.err(mod, node, 'comparison not modelled')
        if isinstance(op, ast.Eq):
            return a == b
        if isinstance(op, ast.NotEq):
            return a != b
        if isinstance(op, ast.Is):
            return a is b
        if isinstance(op, ast.IsNot):
            return a is not b
        self.err(mod, node, 'comparison operator not modelled')

    def call(self, e, env, mod):
        f = e.func
        # '<tpl>'.format(...)
        if isinstance(f, ast.Attribute) and f.attr == 'format' and const_str(f.value) is not None:
            if e.keywords:
                self.err(mod, e, 'keyword arguments to str.format')
            args = [self.ev(a, env, mod) for a in e.args]
            toks, auto = [], 0
            for lit, fname, spec, conv in string.Formatter().parse(f.value.value):
                if lit:
                    toks.append(Tok('lit', text=lit))
                if fname is None:
                    continue
                if fname == '':
                    i, auto = auto, auto + 1
                elif fname.isdigit():
                    i = int(fname)
                else:
                    self.err(mod, e, 'named placeholder')
                toks.extend(self.to_toks(args[i], mod, e, spec_width(spec)))
            return TplV(toks)
        ch = chain(f) or ''
        if ch == 'set' and not e.args:
            return set()
        if ch == 'len' and len(e.args) == 1:
            v = self.ev(e.args[0], env, mod)
            if isinstance(v, (set, frozenset, tuple, list, str)):
                return len(v)
            self.err(mod, e, 'len of %s' % type(v).__name__)
        if ch == 'str' and len(e.args) == 1:
            v = self.ev(e.args[0], env, mod)
            return TplV(self.to_toks(v, mod, e))
        fv = self.ev(f, env, mod)
        args = [self.ev(a, env, mod) for a in e.args]
        if e.keywords:
            self.err(mod, e, 'keyword arguments')
        if isinstance(fv, tuple) and fv[0] == 'setadd':
            fv[1].add(args[0])
            return None
        if isinstance(fv, tuple) and fv[0] == 'method':
            _, c, fn = fv
            if fn.name == 'fixed_format_number' and len(args) == 2 and isinstance(args[1], int):
                return TplV(self.to_toks(args[0], mod, e, args[1]))   # body checked by C14.timeprop
            return self.call_fn(c, fn, args, mod, e)
        self.err(mod, e, 'call not modelled')

    def call_fn(self, c, fn, args, mod, node):
        self.depth += 1
        if self.depth > 12:
            self.err(mod, node, 'recursion too deep')
        try:
            ps = params_of(fn)
            if not any(chain(d) in ('staticmethod',) for d in fn.decorator_list) and ps and ps[0] in ('self', 'cls')                     and len(args) == len(ps) - 1:
                args = [ClassRef(c)] + list(args)
            if len(args) != len(ps):
                self.err(mod, node, 'arity of %s.%s' % (c.name, fn.name))
            env = dict(zip(ps, args))
            try:
                self.block(fn.body, env, c.mod)
            except _Return as r:
                return r.v
            return None
        finally:
            self.depth -= 1

    def block(self, stmts, env, mod):
        for st in stmts:
            if isinstance(st, ast.Return):
                raise _Return(self.ev(st.value, env, mod) if st.value is not None else None)
            if isinstance(st, ast.If):
                self.block(st.body if self.truth(self.ev(st.test, env, mod), mod, st.test) else st.orelse, env, mod)
            elif isinstance(st, ast.Assign) and len(st.targets) == 1 and isinstance(st.targets[0], ast.Name):
                env[st.targets[0].id] = self.ev(st.value, env, mod)
            elif isinstance(st, ast.Expr):
                if isinstance(st.value, ast.Constant):
                    continue
                self.ev(st.value, env, mod)
            elif isinstance(st, (ast.Pass, ast.Import, ast.ImportFrom)):
                continue
            else:
                self.err(mod, st, 'statement %s not modelled' % type(st).__name__)


def abstract_object(cx, init_defaults, sets):
    fields = {}
    for p, d in init_defaults.items():
        if isinstance(d, ast.Constant) and d.value is None:
            fields[p] = FV(p, 'none')
        elif isinstance(d, ast.Constant) and d.value is False:
            fields[p] = FV(p, 'false')
        elif isinstance(d, ast.Constant) and d.value is True:
            fields[p] = FV(p, 'true')
        else:
            raise AnalysisError('Timex.__init__: default of %s not modelled' % p)
    for f, k in sets.items():
        if f not in fields:
            raise AnalysisError('grammar writes field %r which Timex.__init__ does not define' % f)
        fields[f] = FV(f, k)
    # shared Time object (C14.timeprop): setting one component creates the object with the others 0
    if any(fields[x].kind != 'none' for x in ZERO_VALID if x in fields):
        for x in ZERO_VALID:
            if fields[x].kind == 'none':
                fields[x] = FV(x, 'zero')
    return ObjRef(fields)


def thorough(chk):
    """nothing beyond the quick tier: the abstract round trip is cheap enough to run always"""
    return None


def rule_roundtrip(chk):
    cx, fams, shapes, templates = chk._c14
    chk.rule('C14.roundtrip', 'abstract round trip: for every grammar shape (and date x time combination) and every '
                              'None/0/non-zero assignment the parser can produce, infer -> format emits exactly the '
                              'canonical shape of the input (T hh:00[:00] -> T hh)', floor=40)
    init = cx.meth('timex', 'Timex', '__init__')
    ps = params_of(init)[1:]
    defaults = dict(zip(ps[len(ps) - len(init.args.defaults):], init.args.defaults))
    defaults.pop('timex', None)
    it = Interp(cx)
    fmt_cls = cx.cls('timex_format', 'TimexFormat')
    inf_cls = cx.cls('timex_inference', 'TimexInference')
    fmt = cx.meth('timex_format', 'TimexFormat', 'format')
    infer = cx.meth('timex_inference', 'TimexInference', 'infer')
    date_const = cx.idx.class_attr(cx.cls('timex_constants', 'Constants'), 'TIMEX_TYPES_DATE')[1]
    if not isinstance(date_const, ast.Constant):
        raise AnalysisError('anchor vanished: Constants.TIMEX_TYPES_DATE')

    uniq = {}
    for s in shapes:
        uniq.setdefault((s.fam, s.nf()), s)
    ushapes = list(uniq.values())

    def sets_of(toks, flags):
        base = {}
        for t in toks:
            if t.kind == 'fld':
                base[t.name] = 'nz'
        for f in flags:
            base[f] = 'true'
        return base

    def variants(base):
        zf = [f for f in ZERO_VALID if f in base]
        for combo in itertools.product(('nz', 'zero'), repeat=len(zf)):
            d = dict(base)
            d.update(zip(zf, combo))
            yield d

    def canonical_fields(sets):
        obj = abstract_object(cx, defaults, sets).fields
        fs = {f for f, k in sets.items() if k in ('nz', 'zero')}
        if 'hour' in fs or 'minute' in fs or 'second' in fs:
            fs |= set(ZERO_VALID)
            if obj['second'].kind == 'zero':
                fs.discard('second')
                if obj['minute'].kind == 'zero':
                    fs.discard('minute')
        return fs

    def run_one(construct, sets, parts, line, observe_only=False):
        """parts: list of families in order (['date'] / ['time'] / ['date','time'])"""
        obj = abstract_object(cx, defaults, sets)
        out = it.call_fn(fmt_cls, fmt, [obj], fmt_cls.mod, fmt)
        toks = it.to_toks(out, fmt_cls.mod, fmt) if not isinstance(out, TplV) else out.toks
        toks = merge_lits(toks)
        want_fields = canonical_fields(sets)
        flags = {f for f, k in sets.items() if k == 'true'}
        # candidate canonical shapes: concatenations of one shape per part with the wanted field set
        cands = []
        pools = [[s for s in ushapes if s.fam == fam] for fam in parts]
        for combo in itertools.product(*pools):
            ftoks = [t for s in combo for t in s.toks]
            fl = set().union(*[s.flags for s in combo])
            names = {t.name for t in ftoks if t.kind == 'fld'}
            if names == want_fields and fl == flags:
                cands.append(Shape('+'.join(parts), ' + '.join(s.src for s in combo), line, merge_lits(ftoks), fl, []))
        state = ','.join('%s=%s' % (f, sets[f]) for f in sorted(sets) if f in ZERO_VALID) or '-'
        got = nf_tokens(toks) if toks else "''"
        if not cands and observe_only:
            return
        if not cands:
            chk.bad('C14.roundtrip', cx.mods['timex_regex'].path, construct + ' [' + state + ']', got,
                    'no grammar shape carries exactly the canonical fields {%s}' % ','.join(sorted(want_fields)), line)
            return
        for c in cands:
            ok, why = align(toks, c)
            if ok:
                chk.ok('C14.roundtrip', cx.mods['timex_regex'].path, construct + ' [' + state + ']', got, line)
                return
        ok, why = align(toks, cands[0])
        if observe_only:
            lost.setdefault(construct, (got, cands[0].nf()))
            return
        chk.bad('C14.roundtrip', cx.mods['timex_regex'].path, construct + ' [' + state + ']', got,
                'parsing a string of this shape and formatting it again yields %s, expected the form %s (%s)'
                % (got, cands[0].nf(), why), line)

    is_date, is_range = [], []
    lost = {}
    range_const = cx.idx.class_attr(cx.cls('timex_constants', 'Constants'), 'TIMEX_TYPES_DATERANGE')[1]
    if not isinstance(range_const, ast.Constant):
        raise AnalysisError('anchor vanished: Constants.TIMEX_TYPES_DATERANGE')
    for s in ushapes:
        base = sets_of(s.toks, s.flags)
        for sets in variants(base):
            run_one("TimexRegex['%s'] %s" % (s.fam, s.nf()), sets, [s.fam], s.line)
        if s.fam != 'time' and s.fam != 'period':
            obj = abstract_object(cx, defaults, base)
            types = it.call_fn(inf_cls, infer, [obj], inf_cls.mod, infer)
            if not isinstance(types, set):
                raise AnalysisError('TimexInference.infer did not yield a set')
            if date_const.value in types and range_const.value not in types:
                is_date.append(s)
            elif date_const.value in types:
                is_range.append(s)
    if not is_date:
        raise AnalysisError('no grammar shape is inferred as a date: date x time combinations cannot be formed')
    # date x time: a date is a shape inferred as 'date' and not as 'daterange'; shapes that are both (week-of-month
    # with weekday) are run as well, but a lost time part is only an observation there
    for d in is_date + is_range:
        for t in ushapes:
            if t.fam != 'time':
                continue
            base = sets_of(d.toks + t.toks, d.flags | t.flags)
            for sets in variants(base):
                run_one("TimexRegex['%s'] %s + ['time'] %s" % (d.fam, d.nf(), t.nf()), sets, [d.fam, 'time'], d.line,
                        observe_only=d in is_range)
    for construct, (got, want) in sorted(lost.items()):
        chk.observe('%s: formats to %s, not to %s (shape is both date and daterange; outside the date x time '
                    'combinations the property names)' % (construct, got, want))
    chk.exhaustive = True
    chk.extra['abstract_objects'] = chk.rules['C14.roundtrip']['n']
