"""C14 - TIMEX strings survive parsing and formatting unchanged (grammar / template agreement).

Everything is read from the AST of the datatype package; nothing is imported or executed.

  grammar side   TimexRegex.timexRegex  ->  per family the list of patterns  ->  per pattern its *shapes*
                 (sequences of literal text and named groups; optional parts and top-level alternations are
                 expanded)  ->  its *field shapes*: the syntax tree of Timex.assign_properties (and whatever it calls)
                 is run by a small whitelisting interpreter on the group dictionary of every shape with representative
                 texts (the dictionary is produced by interpreting TimexRegex.extract / try_extract over a capturing
                 matcher on the regex syntax trees, so optional groups that did not take part are present as None
                 exactly when the code copies them), which tabulates the field every group is written to, with which
                 conversion, and that no field is set without its group - whether the
                 code is an if/elif chain, class-level tables + setattr, or a dict dispatch.
  parsing side   TimexParsing.parse_string is run the same way on canonical probe strings; the pieces it hands to the
                 regex tables must be the components of the string (C14.split).
  template side  every `return '<tpl>'.format(...)` / f-string of TimexFormat.format_*  ->  sequences of literal
                 text and field renderings (`fixed_format_number(x.f, w)` -> \\d{w}; bare `x.f` -> str(x.f)).

Rules compare the two sides token by token (C14.template: template in grammar, C14.shape: grammar in templates),
plus the plumbing in between (groups -> assign branches, parse dispatch, from_* constructors, __init__/clone,
the hour/minute/second properties that share one Time object, truthiness tests on fields that may be 0).
C14.roundtrip interprets TimexInference.infer and TimexFormat.format over abstract Timex objects
(each field None / 0 / non-zero) built from every grammar shape and compares the emitted template with the input.
"""
import ast
import builtins
import itertools
import re
import string

from .. import rx
from ..core import AnalysisError, rel
from ..index import get_index

LEVEL = 'other'
DESIGN_REF = 'DESIGN.md#c14'
META = {
    'text': 'TIMEX grammar/template agreement: assign_properties, interpreted on the group dictionary of every pattern '
            'shape, stores every group in a Timex field (int for digits) or uses it as unit selector, never raises, '
            'stores ISO designators in the right duration field; parse_string, interpreted on probe strings, hands '
            'exactly the components to the regex tables; hour/minute/second behave as one per-object time of day when '
            'run as properties (no state shared between objects; no mutable default argument stored in an attribute); '
            'from_time / from_date / from_date_time yield the canonical TIMEX on a grid of values; '
            'a Timex with one duration field set survives format -> '
            'parse concretely (probe amounts incl. fractions); every '
            'TimexFormat template is a shape of the grammar and every grammar shape has a template (token-wise '
            'inclusion both ways, fixed_format_number(x,w) as \\d{w}); parse dispatch reaches every pattern family '
            'and its first-character / split-at-T routing is consistent with the patterns; from_date / '
            'from_date_time / from_time, __init__, clone and the hour/minute/second properties pass homonymous '
            'fields; no truthiness test on hour/minute/second in inference/format; the stored duration amount '
            '(conversion chain followed through locals and single-return helpers, stdlib conversions modelled) prints '
            'inside the amount group and denotes the parsed number for probe amounts; abstract interpretation of '
            'infer -> format over the None/0/non-zero shapes of every grammar shape and every date x time combination '
            '(both tiers).',
    'note': 'Not decided: amounts other than the probes 1, 10, 100, 1.5, 0.5, 60, 0.25, 2.50 and conversions outside the '
            'modelled stdlib calls (refused, exit 2), value ranges of the digit groups (month 13, '
            'day 32, year 0000), zero duration amounts (P0D formats to the empty string), the english/ natural '
            'language converters, the (start,end,duration) range form beyond its routing. The quick falsy-zero rule '
            'reports any truthiness test on hour/minute/second in TimexInference/TimexFormat even where an earlier '
            'None test makes it equivalent (C14.roundtrip decides those exactly). Inclusion of a padded field '
            'in a digit group is decided on the full set of w-digit strings when 10^w <= 10000, by representative '
            'strings for amounts.',
    'technique': 'ast + regex syntax trees (sa.rx): shape expansion of the 18 patterns, tabulation of the parser and '
                 'of assign_properties by a whitelisting interpreter of their syntax trees on representative inputs, '
                 'token-wise alignment with the format templates, abstract interpreter over nullness/zero-ness shapes',
}

PKG = 'datatypes_timex_expression'
# calendar knowledge (reference, not read from the code): fields for which 0 is a valid value
ZERO_VALID = ('hour', 'minute', 'second')
# reference wiring of the datetime/Time constructors: Timex keyword <- attribute of the python value
FROM_REF = {'year': 'year', 'month': 'month', 'day_of_month': 'day', 'hour': 'hour', 'minute': 'minute',
            'second': 'second'}
FROM_EXPECT = {'from_date': ('year', 'month', 'day_of_month'),
               'from_date_time': ('year', 'month', 'day_of_month', 'hour', 'minute', 'second'),
               'from_time': ('hour', 'minute', 'second')}


# ---------------------------------------------------------------------------------------------------
# small AST helpers

def chain(node):
    """dotted name of a Name/Attribute chain, else None"""
    parts = []
    while isinstance(node, ast.Attribute):
        parts.append(node.attr)
        node = node.value
    if isinstance(node, ast.Name):
        parts.append(node.id)
        return '.'.join(reversed(parts))
    return None


def const_str(node):
    return node.value if isinstance(node, ast.Constant) and isinstance(node.value, str) else None


def params_of(fn):
    return [a.arg for a in fn.args.posonlyargs + fn.args.args]


def is_static(fn):
    return any(chain(d) in ('staticmethod',) for d in fn.decorator_list)


def first_param(fn):
    """the parameter holding the object for format_*/infer style helpers (skips self/cls)"""
    ps = params_of(fn)
    if ps and ps[0] in ('self', 'cls'):
        ps = ps[1:]
    if not ps:
        raise AnalysisError('%s has no object parameter' % fn.name)
    return ps[0]


def const_value(idx, mod, cls, node, depth=0):
    """value of a constant expression: literal, module-level or class-level constant name (followed through imports),
    Cls.NAME / self.NAME / cls.NAME, concatenation and simple arithmetic of those; AnalysisError when not constant"""
    if depth > 8:
        raise AnalysisError('%s:%d constant expression too deep' % (mod.rel, getattr(node, 'lineno', 0)))
    try:
        return ast.literal_eval(node)
    except (ValueError, SyntaxError, TypeError):
        pass
    if isinstance(node, ast.Name):
        r = idx.resolve(mod, node.id)
        if r and r[0] == 'const':
            return const_value(idx, r[1], None, r[2], depth + 1)
    if isinstance(node, ast.Attribute) and isinstance(node.value, ast.Name):
        owner = None
        if node.value.id in ('self', 'cls') and cls is not None:
            owner = cls
        else:
            r = idx.resolve(mod, node.value.id)
            if r and r[0] == 'class':
                owner = r[1]
        if owner is not None:
            k, v = idx.class_attr(owner, node.attr)
            if v is not None:
                return const_value(idx, k.mod, k, v, depth + 1)
    if isinstance(node, ast.BinOp) and isinstance(node.op, (ast.Add, ast.Sub, ast.Mult)):
        a = const_value(idx, mod, cls, node.left, depth + 1)
        b = const_value(idx, mod, cls, node.right, depth + 1)
        try:
            return a + b if isinstance(node.op, ast.Add) else a - b if isinstance(node.op, ast.Sub) else a * b
        except TypeError:
            pass
    if isinstance(node, ast.JoinedStr) and all(isinstance(p, ast.Constant) for p in node.values):
        return ''.join(p.value for p in node.values)
    raise AnalysisError('%s:%d not a constant expression: %s' % (mod.rel, getattr(node, 'lineno', 0), ast.unparse(node)))


class Ctx:
    """everything the rules share: index, modules, classes"""

    def __init__(self, chk):
        self.chk = chk
        self.idx = get_index()
        self.mods = {}
        for name in ('timex', 'timex_regex', 'timex_parsing', 'timex_format', 'timex_inference',
                     'timex_date_helpers', 'time', 'timex_constants'):
            m = self.idx.mod(PKG + '.' + name)
            self.mods[name] = m
            chk.consulted(m.path)

    def cls(self, modname, clsname):
        m = self.mods[modname]
        if clsname not in m.classes:
            raise AnalysisError('anchor vanished: class %s in %s' % (clsname, m.rel))
        return m.classes[clsname]

    def meth(self, modname, clsname, name):
        c = self.cls(modname, clsname)
        if name not in c.methods:
            raise AnalysisError('anchor vanished: %s.%s' % (clsname, name))
        return c.methods[name]


# ---------------------------------------------------------------------------------------------------
# grammar side

class Tok:
    __slots__ = ('kind', 'text', 'name', 'node', 'conv', 'width', 'flags')

    def __init__(self, kind, text=None, name=None, node=None, conv=None, width=None):
        self.kind = kind      # lit | grp | fld | chr
        self.text = text
        self.name = name      # group name (grp) or field name (fld)
        self.node = node      # regex sub-tree of the group
        self.conv = conv      # int | raw | num   (fld on the grammar side)
        self.width = width    # template side: pad width or None


def merge_lits(toks):
    out = []
    for t in toks:
        if t.kind == 'lit' and out and out[-1].kind == 'lit':
            out[-1] = Tok('lit', text=out[-1].text + t.text)
        elif t.kind == 'lit' and t.text == '':
            continue
        else:
            out.append(t)
    return out


def has_named_group(n):
    return any(x.kind == 'group' and x.name for x in rx.walk(n))


def expand(n, what):
    """regex tree -> list of token sequences (shapes). Named groups are atomic."""
    k = n.kind
    if k == 'seq':
        res = [[]]
        for it in n.items:
            sub = expand(it, what)
            res = [a + b for a in res for b in sub]
            if len(res) > 2000:
                raise AnalysisError('%s: more than 2000 shapes' % what)
        return res
    if k == 'alt':
        res = []
        for a in n.items:
            res.extend(expand(a, what))
        return res
    if k == 'group':
        if n.name:
            if has_named_group(n.node):
                raise AnalysisError('%s: nested named groups are not modelled' % what)
            return [[Tok('grp', name=n.name, node=n.node)]]
        return expand(n.node, what)
    if k in ('anchor', 'flags'):
        return [[]]
    if k == 'lit':
        return [[Tok('lit', text=n.c)]]
    if k in ('cc', 'class', 'any'):
        return [[Tok('chr', node=n)]]
    if k == 'rep':
        if n.hi is None:
            raise AnalysisError('%s: unbounded repeat outside a named group is not modelled' % what)
        sub = expand(n.node, what)
        res = []
        for cnt in range(n.lo, n.hi + 1):
            cur = [[]]
            for _ in range(cnt):
                cur = [a + b for a in cur for b in sub]
            res.extend(cur)
        return res
    raise AnalysisError('%s: regex construct %s is not modelled' % (what, k))


def digits_only(node):
    for x in rx.walk(node):
        if x.kind in ('seq', 'rep', 'group'):
            continue
        if x.kind == 'cc' and x.c == 'd':
            continue
        if x.kind == 'class' and not x.neg and all(
                (i.kind == 'range' and i.c[0].isdigit() and i.c[1].isdigit()) or (i.kind == 'lit' and i.c.isdigit())
                or (i.kind == 'cc' and i.c == 'd') for i in x.items):
            continue
        if x.kind == 'range':      # items of a class already judged above
            continue
        if x.kind == 'lit' and x.c.isdigit():
            continue
        return False
    return True


def finite_lang(node, limit=20000):
    try:
        return rx.enumerate_language(node, limit=limit)
    except rx.RxError:
        return None


def load_patterns(cx):
    """family -> [(source, lineno, tree)] from TimexRegex.timexRegex"""
    c = cx.cls('timex_regex', 'TimexRegex')
    node = c.attrs.get('timexRegex')
    if not isinstance(node, ast.Dict):
        raise AnalysisError('anchor vanished: TimexRegex.timexRegex is not a dict literal')
    fams = {}
    for k, v in zip(node.keys, node.values):
        fam = const_str(k)
        if fam is None or not isinstance(v, (ast.List, ast.Tuple)):
            raise AnalysisError('%s:%d TimexRegex.timexRegex entry is not  \'family\': [patterns]'
                                % (c.mod.rel, getattr(k, 'lineno', 0)))
        lst = []
        for e in v.elts:
            src = None
            if isinstance(e, ast.Call) and chain(e.func) in ('re.compile', 'compile', 'regex.compile') and e.args:
                src = const_str(e.args[0])
                if len(e.args) > 1 or e.keywords:
                    raise AnalysisError('%s:%d pattern compiled with flags: not modelled' % (c.mod.rel, e.lineno))
            elif const_str(e) is not None:
                src = const_str(e)
            if src is None:
                raise AnalysisError('%s:%d pattern is not re.compile(<string literal>)' % (c.mod.rel, e.lineno))
            try:
                tree = rx.parse(src)
            except rx.RxError as ex:
                raise AnalysisError('%s:%d pattern %r not analysable: %s' % (c.mod.rel, e.lineno, src, ex))
            lst.append((src, e.lineno, tree))
        fams[fam] = lst
    if not fams:
        raise AnalysisError('TimexRegex.timexRegex is empty')
    return c, fams


class Shape:
    """one field shape of the grammar"""

    def __init__(self, fam, src, line, toks, flags, groups):
        self.fam = fam
        self.src = src
        self.line = line
        self.toks = toks          # lit / fld / chr
        self.flags = flags        # fields set to True by literal groups (weekend)
        self.groups = groups      # group names of the underlying regex shape

    def fields(self):
        return [t.name for t in self.toks if t.kind == 'fld']

    def nf(self):
        out = []
        for t in self.toks:
            if t.kind == 'lit':
                out.append(t.text)
            elif t.kind == 'fld':
                out.append('<%s:%s>' % (t.name, rx.unparse(t.node)))
            else:
                out.append('<?%s>' % rx.unparse(t.node))
        s = ''.join(out)
        if self.flags:
            s += ' [' + ','.join(sorted(self.flags)) + '=True]'
        return s


# ---------------------------------------------------------------------------------------------------
# concrete interpreter for the parsing side (strings, ints, lists, dicts; whitelisted stdlib operations only).
# It runs the *syntax trees* of TimexParsing.* and Timex.assign_* on probe inputs; nothing of /repo is imported.

def match_groups(tree, word, names):
    """first match of tree at the start of word in backtracking order (alternatives left to right, greedy repeats),
    with ^ and $ honoured: -> (end, {group name: text or None}) or None"""
    import sys
    if sys.getrecursionlimit() < 20000:
        sys.setrecursionlimit(20000)
    n = len(word)

    def m(node, i, caps, k):
        kind = node.kind
        if kind in ('lit', 'any', 'cc', 'class', 'range'):
            if i < n and (word[i] == node.c if kind == 'lit' else rx._ch_match(node, word[i])):
                return k(i + 1, caps)
            return None
        if kind == 'seq':
            def run(idx, j, c):
                if idx == len(node.items):
                    return k(j, c)
                return m(node.items[idx], j, c, lambda j2, c2: run(idx + 1, j2, c2))
            return run(0, i, caps)
        if kind == 'alt':
            for a in node.items:
                r = m(a, i, caps, k)
                if r is not None:
                    return r
            return None
        if kind == 'group':
            if node.name:
                return m(node.node, i, caps, lambda j, c: k(j, dict(c, **{node.name: word[i:j]})))
            return m(node.node, i, caps, k)
        if kind == 'anchor':
            if node.c == '^' and i != 0:
                return None
            if node.c in ('$', '\\Z', '\\z') and i != n:
                return None
            if node.c not in ('^', '$', '\\Z', '\\z', '\\A'):
                raise rx.RxUnsupported('anchor ' + node.c)
            return k(i, caps)
        if kind == 'flags':
            return k(i, caps)
        if kind == 'rep':
            def rep(cnt, j, c):
                if node.hi is None or cnt < node.hi:
                    r = m(node.node, j, c, lambda j2, c2: rep(cnt + 1, j2, c2) if j2 > j else None)
                    if r is not None and not node.lazy:
                        return r
                    if node.lazy:
                        r0 = k(j, c) if cnt >= node.lo else None
                        return r0 if r0 is not None else r
                if cnt >= node.lo:
                    return k(j, c)
                return None
            return rep(0, i, caps)
        raise rx.RxUnsupported('construct %s in a capturing match' % kind)

    r = m(tree, 0, {}, lambda j, c: (j, c))
    if r is None:
        return None
    return r[0], {g: r[1].get(g) for g in names}


class MatchStandIn:
    """what re.Match offers to the code under analysis"""

    def __init__(self, word, end, groups):
        self._word, self._end, self._groups = word, end, groups

    def groupdict(self, default=None):
        return {k: (default if v is None else v) for k, v in self._groups.items()}

    def group(self, *names):
        def one(nm):
            if nm == 0:
                return self._word[:self._end]
            if nm not in self._groups:
                raise IndexError('no such group')
            return self._groups[nm]
        if not names:
            return one(0)
        return one(names[0]) if len(names) == 1 else tuple(one(x) for x in names)

    def end(self):
        return self._end


class RegexStandIn:
    """what a compiled pattern offers: match / fullmatch on the regex syntax tree"""

    def __init__(self, src):
        self.src = src
        try:
            self.tree, self.names = rx.parse_with_groups(src)
        except rx.RxError as ex:
            raise AnalysisError('pattern %r not analysable: %s' % (src, ex))

    def match(self, word):
        if not isinstance(word, str):
            raise TypeError('expected string or bytes-like object')
        try:
            r = match_groups(self.tree, word, self.names)
        except rx.RxError as ex:
            raise AnalysisError('pattern %r: %s' % (self.src, ex))
        return None if r is None else MatchStandIn(word, r[0], r[1])

    def fullmatch(self, word):
        r = self.match(word)
        return r if r is not None and r.end() == len(word) else None


class PyRaise(Exception):
    """the interpreted code raises an exception"""

    def __init__(self, name, msg=''):
        Exception.__init__(self, '%s: %s' % (name, msg) if msg else name)
        self.name = name


class Rec:
    """recording stand-in for an object: attribute stores, and calls when it has no class"""

    def __init__(self, cls=None):
        self.cls = cls
        self.attrs = {}
        self.calls = []


class PClass:
    def __init__(self, c):
        self.c = c


class _PReturn(Exception):
    def __init__(self, v):
        self.v = v


def _safe_methods():
    import decimal
    return {
        str: {'find', 'rfind', 'index', 'rindex', 'split', 'rsplit', 'partition', 'rpartition', 'startswith', 'endswith',
              'strip', 'lstrip', 'rstrip', 'count', 'replace', 'join', 'lower', 'upper', 'isdigit', 'format', 'zfill',
              'rjust', 'ljust'},
        list: {'append', 'extend', 'index', 'count', 'pop', 'insert'},
        tuple: {'index', 'count'},
        dict: {'items', 'keys', 'values', 'get', 'update', 'setdefault'},
        set: {'add'}, frozenset: set(),
        decimal.Decimal: {'normalize', 'quantize', 'to_integral_value', 'to_integral', 'copy_abs'},
        int: set(), float: set(), bool: set(), type(None): set(),
        RegexStandIn: {'match', 'fullmatch'}, MatchStandIn: {'groupdict', 'group', 'end'},
    }


_CONST_CACHE = {}


class PEv:
    LOOP_CAP = 500
    BUILTINS = ('int', 'str', 'len', 'float', 'range', 'list', 'tuple', 'dict', 'set', 'bool', 'min', 'max', 'abs',
                'round', 'enumerate', 'sorted', 'reversed', 'zip', 'any', 'all', 'sum')

    def __init__(self, cx, mod, hooks=None, depth=0):
        import decimal
        self.cx = cx
        self.mod = mod
        self.hooks = hooks or {}
        self.depth = depth
        self.safe = _safe_methods()
        self.decimal = decimal

    def err(self, node, msg):
        raise AnalysisError('%s:%d parsing interpreter: %s: %s' % (self.mod.rel, getattr(node, 'lineno', 0), msg,
                                                                   ast.unparse(node)[:80]))

    # ---- functions
    def call_fn(self, cls, fn, args, kwargs, selfobj, node):
        if self.depth > 10:
            self.err(node, 'call depth')
        ps = params_of(fn)
        deco = {chain(d) for d in fn.decorator_list}
        args = list(args)
        if 'staticmethod' in deco:
            pass
        elif 'classmethod' in deco:
            args = [PClass(cls)] + args
        elif selfobj is not None:
            args = [selfobj] + args
        defaults = dict(zip(ps[len(ps) - len(fn.args.defaults):], fn.args.defaults))
        env = {}
        for i, p in enumerate(ps):
            if i < len(args):
                env[p] = args[i]
            elif p in kwargs:
                env[p] = kwargs[p]
            elif p in defaults and isinstance(defaults[p], ast.Constant):
                env[p] = defaults[p].value
            else:
                raise PyRaise('TypeError', 'missing argument %s of %s' % (p, fn.name))
        if len(args) > len(ps) or set(kwargs) - set(ps):
            raise PyRaise('TypeError', 'arguments of %s' % fn.name)
        sub = PEv(self.cx, cls.mod if cls else self.mod, self.hooks, self.depth + 1)
        try:
            sub.block(fn.body, env)
        except _PReturn as r:
            return r.v
        return None

    # ---- statements
    def store(self, tgt, val, env):
        if isinstance(tgt, ast.Name):
            env[tgt.id] = val
        elif isinstance(tgt, (ast.Tuple, ast.List)):
            try:
                vals = list(val)
            except TypeError:
                raise PyRaise('TypeError', 'cannot unpack')
            if len(vals) != len(tgt.elts):
                raise PyRaise('ValueError', 'unpack')
            for t, v in zip(tgt.elts, vals):
                self.store(t, v, env)
        elif isinstance(tgt, ast.Attribute):
            o = self.ev(tgt.value, env)
            if not isinstance(o, Rec):
                self.err(tgt, 'attribute store on %s' % type(o).__name__)
            o.attrs[tgt.attr] = val
        elif isinstance(tgt, ast.Subscript):
            o = self.ev(tgt.value, env)
            k = self.ev(tgt.slice, env)
            if not isinstance(o, (dict, list)):
                self.err(tgt, 'item store')
            try:
                o[k] = val
            except (IndexError, KeyError, TypeError) as ex:
                raise PyRaise(type(ex).__name__)
        else:
            self.err(tgt, 'assignment target')

    def block(self, stmts, env):
        for st in stmts:
            if isinstance(st, ast.Return):
                raise _PReturn(self.ev(st.value, env) if st.value is not None else None)
            if isinstance(st, ast.Assign):
                v = self.ev(st.value, env)
                for t in st.targets:
                    self.store(t, v, env)
            elif isinstance(st, ast.AugAssign) and isinstance(st.target, ast.Name):
                env[st.target.id] = self.binop(st.op, env.get(st.target.id), self.ev(st.value, env), st)
            elif isinstance(st, ast.If):
                self.block(st.body if self.truth(self.ev(st.test, env)) else st.orelse, env)
            elif isinstance(st, ast.For):
                it = self.ev(st.iter, env)
                try:
                    items = list(it)
                except TypeError:
                    raise PyRaise('TypeError', 'not iterable')
                if len(items) > self.LOOP_CAP:
                    self.err(st, 'loop too long')
                for v in items:
                    self.store(st.target, v, env)
                    self.block(st.body, env)
                self.block(st.orelse, env)
            elif isinstance(st, ast.While):
                n = 0
                while self.truth(self.ev(st.test, env)):
                    n += 1
                    if n > self.LOOP_CAP:
                        raise PyRaise('NonTermination', 'loop exceeds %d iterations' % self.LOOP_CAP)
                    self.block(st.body, env)
            elif isinstance(st, ast.Expr):
                if not isinstance(st.value, ast.Constant):
                    self.ev(st.value, env)
            elif isinstance(st, ast.Try):
                try:
                    self.block(st.body, env)
                except PyRaise as ex:
                    for h in st.handlers:
                        names = []
                        if h.type is None:
                            names = None
                        elif isinstance(h.type, ast.Tuple):
                            names = [chain(x) for x in h.type.elts]
                        else:
                            names = [chain(h.type)]
                        if names is None or ex.name in names or 'Exception' in names or 'BaseException' in names:
                            self.block(h.body, env)
                            break
                    else:
                        raise
                else:
                    self.block(st.orelse, env)
                self.block(st.finalbody, env)
            elif isinstance(st, ast.Raise):
                raise PyRaise(chain(st.exc.func if isinstance(st.exc, ast.Call) else st.exc) or 'Exception')
            elif isinstance(st, (ast.Pass, ast.Import, ast.ImportFrom)):
                continue
            else:
                self.err(st, 'statement %s not modelled' % type(st).__name__)

    # ---- expressions
    def truth(self, v):
        if isinstance(v, (Rec, PClass)):
            return True
        return bool(v)

    def binop(self, op, a, b, node):
        try:
            if isinstance(op, ast.Add):
                return a + b
            if isinstance(op, ast.Sub):
                return a - b
            if isinstance(op, ast.Mult):
                return a * b
            if isinstance(op, ast.Mod):
                return a % b
            if isinstance(op, ast.FloorDiv):
                return a // b
            if isinstance(op, ast.Div):
                return a / b
        except (TypeError, ZeroDivisionError, ValueError, ArithmeticError) as ex:
            raise PyRaise(type(ex).__name__, str(ex))
        self.err(node, 'operator')

    def ev(self, e, env):
        if isinstance(e, ast.Constant):
            return e.value
        if isinstance(e, ast.Name):
            if e.id in env:
                return env[e.id]
            if e.id in self.BUILTINS:
                return getattr(builtins, e.id)
            if e.id == 'Decimal':
                return self.decimal.Decimal
            if e.id in ('setattr', 'getattr', 'hasattr'):
                return ('special', e.id)
            r = self.cx.idx.resolve(self.mod, e.id)
            if r and r[0] == 'class':
                return PClass(r[1])
            if r and r[0] == 'const':
                key = id(r[2])
                if key not in _CONST_CACHE:
                    _CONST_CACHE[key] = PEv(self.cx, r[1], self.hooks, self.depth + 1).ev(r[2], {})
                return _CONST_CACHE[key]
            if r and r[0] == 'func':
                return ('mfunc', r[1], r[2])        # module-level function: interpreted in its own module
            self.err(e, 'name not resolved')
        if isinstance(e, ast.Tuple):
            return tuple(self.ev(x, env) for x in e.elts)
        if isinstance(e, ast.List):
            return [self.ev(x, env) for x in e.elts]
        if isinstance(e, ast.Set):
            return {self.ev(x, env) for x in e.elts}
        if isinstance(e, ast.Dict):
            d = {}
            for k, v in zip(e.keys, e.values):
                if k is None:
                    self.err(e, 'dict unpacking')
                d[self.ev(k, env)] = self.ev(v, env)
            return d
        if isinstance(e, ast.JoinedStr):
            out = []
            for p in e.values:
                if isinstance(p, ast.Constant):
                    out.append(p.value)
                else:
                    if p.format_spec is not None or p.conversion != -1:
                        self.err(e, 'format spec')
                    out.append('{}'.format(self.ev(p.value, env)))
            return ''.join(out)
        if isinstance(e, ast.BinOp):
            return self.binop(e.op, self.ev(e.left, env), self.ev(e.right, env), e)
        if isinstance(e, ast.UnaryOp):
            v = self.ev(e.operand, env)
            if isinstance(e.op, ast.Not):
                return not self.truth(v)
            if isinstance(e.op, ast.USub):
                return -v
            self.err(e, 'unary operator')
        if isinstance(e, ast.BoolOp):
            v = None
            for x in e.values:
                v = self.ev(x, env)
                if isinstance(e.op, ast.And) and not self.truth(v):
                    return v
                if isinstance(e.op, ast.Or) and self.truth(v):
                    return v
            return v
        if isinstance(e, ast.IfExp):
            return self.ev(e.body if self.truth(self.ev(e.test, env)) else e.orelse, env)
        if isinstance(e, ast.Compare):
            left = self.ev(e.left, env)
            for op, rn in zip(e.ops, e.comparators):
                right = self.ev(rn, env)
                f = {ast.Lt: lambda a, b: a < b, ast.LtE: lambda a, b: a <= b, ast.Gt: lambda a, b: a > b,
                     ast.GtE: lambda a, b: a >= b, ast.Eq: lambda a, b: a == b, ast.NotEq: lambda a, b: a != b,
                     ast.Is: lambda a, b: a is b, ast.IsNot: lambda a, b: a is not b,
                     ast.In: lambda a, b: a in b, ast.NotIn: lambda a, b: a not in b}[type(op)]
                try:
                    if not f(left, right):
                        return False
                except TypeError as ex:
                    raise PyRaise('TypeError', str(ex))
                left = right
            return True
        if isinstance(e, ast.Subscript):
            b = self.ev(e.value, env)
            if isinstance(e.slice, ast.Slice):
                lo = self.ev(e.slice.lower, env) if e.slice.lower is not None else None
                hi = self.ev(e.slice.upper, env) if e.slice.upper is not None else None
                stp = self.ev(e.slice.step, env) if e.slice.step is not None else None
                k = slice(lo, hi, stp)
            else:
                k = self.ev(e.slice, env)
            if not isinstance(b, (str, list, tuple, dict)):
                self.err(e, 'subscript of %s' % type(b).__name__)
            try:
                return b[k]
            except (IndexError, KeyError, TypeError) as ex:
                raise PyRaise(type(ex).__name__, str(ex))
        if isinstance(e, ast.Attribute):
            b = self.ev(e.value, env)
            return self.attr(b, e.attr, e)
        if isinstance(e, ast.Call):
            return self.call(e, env)
        if isinstance(e, (ast.ListComp, ast.GeneratorExp, ast.SetComp, ast.DictComp)):
            if any(g.is_async for g in e.generators):
                self.err(e, 'async comprehension')

            def gen(i, env2):
                # lazy, in Python's order: a consumer such as any() stops evaluating elements when it has its answer
                if i == len(e.generators):
                    if isinstance(e, ast.DictComp):
                        yield (self.ev(e.key, env2), self.ev(e.value, env2))
                    else:
                        yield self.ev(e.elt, env2)
                    return
                g = e.generators[i]
                it = self.ev(g.iter, env2)
                try:
                    it = iter(it)
                except TypeError:
                    raise PyRaise('TypeError', 'not iterable')
                n = 0
                for v in it:
                    n += 1
                    if n > self.LOOP_CAP:
                        self.err(e, 'comprehension too long')
                    env3 = dict(env2)
                    self.store(g.target, v, env3)
                    if all(self.truth(self.ev(c, env3)) for c in g.ifs):
                        yield from gen(i + 1, env3)
            if isinstance(e, ast.ListComp):
                return list(gen(0, env))
            if isinstance(e, ast.SetComp):
                return set(gen(0, env))
            if isinstance(e, ast.DictComp):
                return dict(gen(0, env))
            return gen(0, env)
        self.err(e, 'expression %s not modelled' % type(e).__name__)

    def attr(self, b, name, node):
        if isinstance(b, Rec):
            if name in b.attrs:
                return b.attrs[name]
            if b.cls is not None and name in b.cls.methods:
                fn = b.cls.methods[name]
                if any(chain(d) == 'property' for d in fn.decorator_list):
                    return self.call_fn(b.cls, fn, [], {}, b, node)
                return ('func', b.cls, fn, b)
            if b.cls is None:
                return ('reccall', b, name)
            if b.cls is not None:
                k, v = self.cx.idx.class_attr(b.cls, name)
                if v is not None:
                    return self.class_const(v, node)
            raise PyRaise('AttributeError', name)
        if isinstance(b, PClass):
            if name in b.c.methods:
                return ('func', b.c, b.c.methods[name], None)
            k, v = self.cx.idx.class_attr(b.c, name)
            if v is not None:
                return self.class_const(v, node)
            raise PyRaise('AttributeError', name)
        for t, names in self.safe.items():
            if type(b) is t:
                if name in names:
                    return getattr(b, name)
                self.err(node, 'method %s.%s not whitelisted' % (t.__name__, name))
        self.err(node, 'attribute of %s' % type(b).__name__)

    def class_const(self, v, node):
        try:
            return ast.literal_eval(v)       # a dict literal with a repeated key keeps the last value, as Python does
        except (ValueError, SyntaxError):
            pass
        key = id(v)
        if key not in _CONST_CACHE:
            _CONST_CACHE[key] = self.ev(v, {})      # e.g. a table of re.compile(...) objects
        return _CONST_CACHE[key]

    def call(self, e, env):
        ch = chain(e.func) or ''
        args = []
        for a in e.args:
            if isinstance(a, ast.Starred):
                self.err(e, 'star arguments')
            args.append(self.ev(a, env))
        kwargs = {}
        for k in e.keywords:
            if k.arg is None:
                self.err(e, '** arguments')
            kwargs[k.arg] = self.ev(k.value, env)
        for suffix, hook in self.hooks.items():
            if ch == suffix or ch.endswith('.' + suffix):
                return hook(args, kwargs)
        if ch in ('re.compile', 'regex.compile') and len(args) == 1 and isinstance(args[0], str) and not kwargs:
            return RegexStandIn(args[0])
        f = self.ev(e.func, env)
        if isinstance(f, tuple) and f[0] == 'func':
            return self.call_fn(f[1], f[2], args, kwargs, f[3], e)
        if isinstance(f, tuple) and f[0] == 'mfunc':
            return PEv(self.cx, f[1], self.hooks, self.depth).call_fn(None, f[2], args, kwargs, None, e)
        if isinstance(f, tuple) and f[0] == 'reccall':
            f[1].calls.append((f[2], args))
            return None
        if isinstance(f, tuple) and f[0] == 'special':
            if not args or not isinstance(args[0], Rec) or len(args) < 2 or not isinstance(args[1], str):
                self.err(e, '%s on something else than the object' % f[1])
            if f[1] == 'setattr' and len(args) == 3:
                args[0].attrs[args[1]] = args[2]
                return None
            if f[1] == 'hasattr':
                return args[1] in args[0].attrs
            if f[1] == 'getattr':
                if args[1] in args[0].attrs:
                    return args[0].attrs[args[1]]
                if len(args) == 3:
                    return args[2]
                raise PyRaise('AttributeError', args[1])
            self.err(e, f[1])
        if isinstance(f, PClass):
            self.err(e, 'construction of %s' % f.c.name)
        if callable(f):
            try:
                r = f(*args, **kwargs)
            except Exception as ex:       # noqa - any exception of a whitelisted stdlib operation is the program's
                raise PyRaise(type(ex).__name__, str(ex))
            if isinstance(r, (range, enumerate, zip, reversed)) or type(r).__name__ in ('dict_items', 'dict_keys',
                                                                                       'dict_values'):
                r = list(r)
            return r
        self.err(e, 'call not modelled')


AMOUNT_PROBES = ('1', '10', '100', '1.5', '0.5', '60', '0.25', '2.50')
# ISO 8601 period designators (reference): date part after P, time part after PT
ISO_UNITS = {'P': {'Y': 'years', 'M': 'months', 'W': 'weeks', 'D': 'days'},
             'PT': {'H': 'hours', 'M': 'minutes', 'S': 'seconds'}}


def group_probes(node, i, what):
    """representative texts of a named group: ('alts', all alternatives) | ('digits', [one text]) | ('amount', probes)"""
    if digits_only(node):
        for w in range(1, 7):
            t = str(i + 2).rjust(w, '0')
            if rx.matches(node, t):
                return 'digits', [t]
        lang = finite_lang(node)
        if lang:
            return 'digits', [sorted(lang)[min(i + 2, len(lang) - 1)]]
        raise AnalysisError('%s: no representative for a digit group' % what)
    lang = finite_lang(node, 64)
    if lang is not None:
        return 'alts', sorted(lang)
    probes = [p for p in AMOUNT_PROBES if rx.matches(node, p)]
    if not probes:
        raise AnalysisError('%s: group %s accepts none of the probe amounts' % (what, rx.unparse(node)))
    return 'amount', probes


def regex_shapes(fams):
    """(fam, src, line, tree, token sequence) for every shape of every pattern"""
    out = []
    for fam, lst in fams.items():
        for src, line, tree in lst:
            what = "TimexRegex['%s'] %s" % (fam, src)
            for seq in expand(tree, what):
                seq = merge_lits(seq)
                names = [t.name for t in seq if t.kind == 'grp']
                if len(set(names)) != len(names):
                    raise AnalysisError('%s: a group name occurs twice in one shape' % what)
                out.append((fam, src, line, tree, seq))
    return out


def derived(text, v):
    """does stored value v come from the matched text?  -> conversion name or None"""
    import decimal
    if isinstance(v, bool) or v is None:
        return None
    if isinstance(v, str):
        return 'raw' if v == text else None
    if isinstance(v, int):
        return 'int' if text.isdigit() and int(text) == v else None
    if isinstance(v, (decimal.Decimal, float)):
        try:
            return 'num' if decimal.Decimal(text) == decimal.Decimal(str(v)) else None
        except decimal.InvalidOperation:
            return None
    return None


def tabulate_assign(cx, chk, fams):
    """run Timex.assign_properties (syntax tree) on the group dictionary of every shape and every representative text;
    returns the field shapes and reports C14.groups / C14.amount / C14.units"""
    import decimal
    tcls = cx.cls('timex', 'Timex')
    fn = cx.meth('timex', 'Timex', 'assign_properties')
    rcls = cx.cls('timex_regex', 'TimexRegex')
    extract_fn = cx.meth('timex_regex', 'TimexRegex', 'extract')
    init = cx.meth('timex', 'Timex', '__init__')
    fields = {st.targets[0].attr for st in init.body if isinstance(st, ast.Assign) and len(st.targets) == 1
              and isinstance(st.targets[0], ast.Attribute) and chain(st.targets[0].value) == 'self'}
    rpath = cx.mods['timex_regex'].path
    shapes = []
    verdicts = {}          # (fam, src, group) -> [ok, detail, msg, line]
    amount = {}            # (fam, src, selector text) -> [ok, detail, msg, line, field]

    def note(fam, src, line, group, ok, detail, msg):
        cur = verdicts.setdefault((fam, src, group), [True, detail, '', line])
        if not ok and cur[0]:
            cur[0], cur[1], cur[2] = False, detail, msg
        elif ok and cur[0] and detail not in cur[1].split(' | ') and len(cur[1]) < 200:
            cur[1] = cur[1] + ' | ' + detail if cur[1] != detail else cur[1]

    for fam, src, line, tree, seq in regex_shapes(fams):
        what = "TimexRegex['%s'] %s" % (fam, src)
        allgroups = rx.group_names(tree)
        gtoks = [t for t in seq if t.kind == 'grp']
        kinds = {}
        plists = []
        for i, t in enumerate(gtoks):
            k, probes = group_probes(t.node, i, what)
            kinds[t.name] = k
            plists.append(probes)
        runs = []
        for combo in itertools.product(*plists):
            texts = dict(zip([t.name for t in gtoks], combo))
            word = ''.join(t.text if t.kind == 'lit' else texts[t.name] for t in seq)
            # the group dictionary as the code under analysis builds it: TimexRegex.extract (interpreted on the regex
            # syntax trees) copies groupdict() - groups that did not participate are present with value None unless
            # the extraction code filters them
            source = {}
            rec = Rec(tcls)
            try:
                PEv(cx, rcls.mod).call_fn(rcls, extract_fn, [fam, word, source], {}, None, extract_fn)
                if {g: source.get(g) for g in texts} != texts:
                    err = 'extraction of %r yields %r, expected the groups %r' % (word, source, texts)
                else:
                    PEv(cx, tcls.mod).call_fn(tcls, fn, [source], {}, rec, fn)
                    err = None
            except PyRaise as ex:
                err = str(ex)
            runs.append((texts, rec.attrs, err, word))
        # which alternative groups act as selectors (their value decides where the rest is stored)
        selectors = set()
        for t in gtoks:
            if kinds[t.name] != 'alts':
                continue
            by_rest = {}
            for texts, attrs, err, word in runs:
                rest = tuple(sorted((k, v) for k, v in texts.items() if k != t.name))
                by_rest.setdefault(rest, set()).add(frozenset(attrs))
            if any(len(s) > 1 for s in by_rest.values()):
                selectors.add(t.name)
        for texts, attrs, err, word in runs:
            if err is not None:
                note(fam, src, line, '<all groups>', False, 'raises',
                     'Timex.assign_properties raises %s for the group dictionary %r of /%s/' % (
                         err, {g: texts.get(g) for g in allgroups}, src))
                continue
            toks, flags, ok_shape = [], set(), True
            sel_text = [texts[t.name] for t in gtoks if t.name in selectors]
            used_fields = {}
            for t in seq:
                if t.kind != 'grp':
                    toks.append(t)
                    continue
                g, text = t.name, texts[t.name]
                hits = [(f, derived(text, v)) for f, v in attrs.items() if derived(text, v)]
                lits = finite_lang(t.node, 4)
                if not hits and kinds[g] == 'alts' and lits is not None and len(lits) == 1:
                    fl = [f for f, v in attrs.items() if v is True]
                    if len(fl) == 1:
                        toks.append(Tok('lit', text=text))
                        flags.add(fl[0])
                        note(fam, src, line, g, fl[0] in fields, 'flag -> %s' % fl[0],
                             'group %r sets %s, which Timex.__init__ does not define' % (g, fl[0]))
                        continue
                if not hits and g in selectors:
                    toks.append(Tok('lit', text=text))
                    tgt = sorted(attrs)
                    note(fam, src, line, g, True, '%s selects %s' % (text, ','.join(tgt) or '-'), '')
                    continue
                if not hits:
                    ok_shape = False
                    note(fam, src, line, g, False, 'dropped' + (' for ' + '/'.join(sel_text) if sel_text else ''),
                         'the text captured by group %r (%r%s) is stored in no field by Timex.assign_properties (stored: '
                         '%s): the value is lost when such a TIMEX is parsed'
                         % (g, text, ', with ' + '/'.join(sel_text) if sel_text else '',
                            ', '.join('%s=%r' % kv for kv in sorted(attrs.items(), key=lambda kv: kv[0])) or 'nothing'))
                    continue
                if len(hits) > 1:
                    ok_shape = False
                    note(fam, src, line, g, False, 'stored twice: ' + ','.join(f for f, _ in hits),
                         'group %r is stored in several fields: %s' % (g, ', '.join(f for f, _ in hits)))
                    continue
                f, conv = hits[0]
                okc, why = True, ''
                if f not in fields:
                    okc, why = False, 'it is stored in attribute %r, which Timex.__init__ does not define (no template ' \
                                      'reads it)' % f
                elif conv == 'raw' and kinds[g] == 'digits':
                    okc, why = False, 'the digits are stored without int(): the field holds a string, == 0 tests and ' \
                                      'arithmetic on it fail'
                elif f in used_fields:
                    okc, why = False, 'groups %r and %r are stored in the same field %s' % (used_fields[f], g, f)
                used_fields[f] = g
                note(fam, src, line, g, okc, '%s -> %s' % (conv, f), 'group %r: %s' % (g, why))
                if not okc:
                    ok_shape = False
                    continue
                toks.append(Tok('fld', name=f, node=t.node, conv=conv))
                if kinds[g] == 'amount':
                    key = (fam, src, '/'.join(sel_text) or '-')
                    v = attrs[f]
                    printed = '{}'.format(v)
                    try:
                        same = rx.matches(t.node, printed) and decimal.Decimal(printed) == decimal.Decimal(text)
                    except decimal.InvalidOperation:
                        same = False
                    cur = amount.setdefault(key, [True, type(v).__name__, '', line, f])
                    if not same and cur[0]:
                        cur[0] = False
                        cur[1] = '%s: %s -> %s' % (type(v).__name__, text, printed)
                        cur[2] = ('the amount %r is stored in %s as %r, which str() prints as %r: /%s/ does not accept that '
                                  'text or it is another number - the formatted TIMEX does not parse back'
                                  % (text, f, v, printed, rx.unparse(t.node)))
            # every field that ends up set must come from a group that took part in the match
            explained = set(used_fields) | flags
            for f, v in sorted(attrs.items(), key=lambda kv: kv[0]):
                if f in explained or v is None or v is False:
                    continue
                absent = [g for g in allgroups if g not in texts]
                ok_shape = False
                note(fam, src, line, f if f in absent else '<field %s>' % f, False, 'set to %r without its group' % (v,),
                     'for %r (groups %s; %s did not take part in the match) Timex.assign_properties sets %s = %r: the '
                     'field does not come from the text, the string formats back differently'
                     % (word, ', '.join('%s=%r' % kv for kv in texts.items()), ', '.join(absent) or 'none', f, v))
            if ok_shape:
                shapes.append(Shape(fam, src, line, merge_lits(toks), flags, [t.name for t in gtoks]))
    for (fam, src, group), (ok, detail, msg, line) in verdicts.items():
        construct = "TimexRegex['%s'] /%s/ group %s" % (fam, src, group)
        if ok:
            chk.ok('C14.groups', rpath, construct, detail, line)
        else:
            chk.bad('C14.groups', rpath, construct, detail, msg, line)
    for (fam, src, sel), (ok, detail, msg, line, f) in amount.items():
        construct = "TimexRegex['%s'] /%s/ unit %s -> %s" % (fam, src, sel, f)
        if ok:
            chk.ok('C14.amount', rpath, construct, detail, line)
        else:
            chk.bad('C14.amount', rpath, construct, detail, msg, line)
    # ISO designators: P<n>{Y,M,W,D} and PT<n>{H,M,S}
    seen = set()
    for s in shapes:
        t = s.toks
        if len(t) == 3 and t[0].kind == 'lit' and t[1].kind == 'fld' and t[2].kind == 'lit' and t[1].conv in ('num', 'int') \
                and t[0].text in ISO_UNITS:
            key = (t[0].text, t[2].text)
            if key in seen:
                continue
            seen.add(key)
            want = ISO_UNITS[t[0].text].get(t[2].text)
            construct = 'duration %s<n>%s' % key
            if want is None:
                chk.exempt('C14.units', rpath, construct, 'designator outside the ISO 8601 reference table', t[1].name, s.line)
            else:
                chk.judge(t[1].name == want, 'C14.units', rpath, construct, '-> ' + t[1].name,
                          'a %s<n>%s duration is stored in %s; ISO 8601 (and TimexValue.duration_value, which converts the '
                          'field to seconds) read it as %s' % (key + (t[1].name, want)), s.line)
    # de-duplicate shapes (many probe amounts give the same shape)
    uniq = {}
    for s in shapes:
        uniq.setdefault((s.fam, s.src, s.nf()), s)
    return list(uniq.values())


def instantiate(seq, index_base=0):
    """one concrete string per alternative choice of a regex shape (digits / amounts by their first representative)"""
    outs = ['']
    gi = 0
    for t in seq:
        if t.kind == 'lit':
            outs = [o + t.text for o in outs]
        elif t.kind == 'grp':
            k, probes = group_probes(t.node, gi, 'probe')
            gi += 1
            if k != 'alts':
                probes = probes[:1]
            outs = [o + p for o in outs for p in probes]
        else:
            raise AnalysisError('anonymous character class in a pattern: no probe string')
    return outs


def rule_split(cx, chk, fams):
    """run TimexParsing.parse_string (syntax tree) on canonical probe strings: every shape alone, and every date shape
    followed by every time shape; the pieces handed to TimexRegex.extract must be exactly the components"""
    pcls = cx.cls('timex_parsing', 'TimexParsing')
    ps = cx.meth('timex_parsing', 'TimexParsing', 'parse_string')
    path = pcls.mod.path
    probes = []          # (word, [(family, component)])
    by_fam = {}
    for fam, src, line, tree, seq in regex_shapes(fams):
        for w in instantiate(seq):
            by_fam.setdefault(fam, []).append(w)
            probes.append((w, [(fam, w)]))
    if 'date' not in by_fam or 'time' not in by_fam:
        raise AnalysisError("anchor vanished: TimexRegex families 'date' and 'time'")
    for d in by_fam['date']:
        for t in by_fam['time']:
            probes.append((d + t, [('date', d), ('time', t)]))
    n_bad = 0
    for w, want in probes:
        log = []

        def extract(args, kwargs, log=log):
            if len(args) != 3 or not isinstance(args[0], str) or not isinstance(args[2], dict):
                raise AnalysisError('TimexRegex.extract called with unexpected arguments')
            if not isinstance(args[1], str):
                raise PyRaise('TypeError', 'extract on %r' % (args[1],))
            if args[0] not in fams:
                raise PyRaise('KeyError', args[0])
            hit = any(rx.matches(tree, args[1]) for _, _, tree in fams[args[0]])
            log.append((args[0], args[1], id(args[2])))
            if hit:
                args[2]['#' + args[0]] = args[1]
            return hit
        obj = Rec(None)
        try:
            PEv(cx, pcls.mod, {'TimexRegex.extract': extract}).call_fn(pcls, ps, [w, obj], {}, None, ps)
            err = None
        except PyRaise as ex:
            err = str(ex)
        got = sorted((f, p) for f, p, _ in log if p != '')
        handed = {k[1:]: v for name, a in obj.calls if name == 'assign_properties' and a and isinstance(a[0], dict)
                  for k, v in a[0].items()}
        construct = 'TimexParsing.parse_string(%r)' % w
        wantd = dict(want)
        if err is not None:
            ok, detail, msg = False, 'raises', 'parse_string(%r) raises %s' % (w, err)
        elif got != sorted(want):
            ok, detail = False, 'pieces ' + ', '.join('%s:%r' % x for x in got)
            msg = ('parse_string(%r) hands the pieces [%s] to the regex tables; the components of this TIMEX are [%s] - '
                   'a piece that is cut differently matches no pattern and its fields are lost'
                   % (w, ', '.join('%s:%r' % x for x in got), ', '.join('%s:%r' % x for x in sorted(want))))
        elif handed != wantd:
            ok, detail = False, 'handed on ' + ', '.join('%s:%r' % x for x in sorted(handed.items()))
            msg = ('parse_string(%r): the groups extracted for [%s] are not all handed to assign_properties (handed on: '
                   '[%s])' % (w, ', '.join(sorted(wantd)), ', '.join(sorted(handed))))
        else:
            ok, detail, msg = True, 'pieces = components', ''
        if not ok:
            n_bad += 1
            if n_bad > 12:
                continue                      # keep the report readable; the total is reported below
        chk.judge(ok, 'C14.split', path, construct, detail, msg, ps.lineno)
    if n_bad > 12:
        chk.observe('C14.split: %d of %d probe strings are cut wrongly; the first 12 are reported' % (n_bad, len(probes)))
    # the constant emitted for the present reference must set a field when parsed
    fmt = cx.meth('timex_format', 'TimexFormat', 'format')
    for w in sorted({const_str(r.value) for r in ast.walk(fmt) if isinstance(r, ast.Return) and const_str(r.value)}):
        obj = Rec(None)
        try:
            PEv(cx, pcls.mod, {'TimexRegex.extract': lambda a, k: False}).call_fn(pcls, ps, [w, obj], {}, None, ps)
            sets = sorted(k for k, v in obj.attrs.items() if v is True)
        except PyRaise as ex:
            sets = []
        chk.judge(bool(sets), 'C14.split', path, 'TimexParsing.parse_string(%r)' % w, 'sets ' + (','.join(sets) or 'nothing'),
                  'TimexFormat.format returns the constant %r, but parsing it sets no field to True' % w, ps.lineno)
    chk.extra['parse_probes'] = len(probes)


DURATION_PROBES = ('1', '5', '0.5', '90', '1.5', '10')


def rule_duration(cx, chk):
    """concrete round trip of durations: a Timex with exactly one duration field set is formatted by TimexFormat.format
    and the string is parsed by TimexParsing.parse_string (both interpreted); the same field must come back"""
    import decimal
    tcls = cx.cls('timex', 'Timex')
    fcls = cx.cls('timex_format', 'TimexFormat')
    pcls = cx.cls('timex_parsing', 'TimexParsing')
    fmt = cx.meth('timex_format', 'TimexFormat', 'format')
    ps = cx.meth('timex_parsing', 'TimexParsing', 'parse_string')
    init = cx.meth('timex', 'Timex', '__init__')
    pnames = params_of(init)[1:]
    defaults = dict(zip(pnames[len(pnames) - len(init.args.defaults):], init.args.defaults))
    base = {p: d.value for p, d in defaults.items() if p != 'timex' and isinstance(d, ast.Constant)}
    units = [f for unit in ISO_UNITS.values() for f in unit.values()]
    for f in units:
        if f not in base:
            raise AnalysisError('Timex.__init__ has no duration field %r' % f)
        bad = None
        shown = None
        for probe in DURATION_PROBES:
            obj = Rec(tcls)
            obj.attrs.update(base)
            obj.attrs[f] = decimal.Decimal(probe)
            try:
                w = PEv(cx, fcls.mod).call_fn(fcls, fmt, [obj], {}, None, fmt)
                back = Rec(tcls)
                back.attrs.update(base)
                if not isinstance(w, str):
                    raise PyRaise('TypeError', 'format returned %r' % (w,))
                PEv(cx, pcls.mod).call_fn(pcls, ps, [w, back], {}, None, ps)
                got = {k: v for k, v in back.attrs.items() if v != base.get(k)}
                same = set(got) == {f} and isinstance(got[f], (decimal.Decimal, int, float)) \
                    and decimal.Decimal(str(got[f])) == decimal.Decimal(probe)
                why = 'formats as %r, which parses back to %s' % (w, ', '.join('%s=%s' % kv for kv in sorted(
                    got.items(), key=lambda kv: kv[0])) or 'nothing')
            except PyRaise as ex:
                same, why, w = False, 'raises %s' % ex, None
            shown = shown or w
            if not same and bad is None:
                bad = (probe, why)
        chk.judge(bad is None, 'C14.duration', fcls.mod.path, 'duration round trip: Timex(%s=<n>)' % f,
                  'e.g. %s' % shown if bad is None else '%s=%s %s' % ((f,) + bad),
                  'a Timex with %s=%s %s - the duration changes its unit or value on the way through its own string'
                  % ((f,) + (bad or ('', ''))), fmt.lineno)


def rule_groups_and_shapes(cx, chk):
    rcls, fams = load_patterns(cx)
    chk.extra['patterns'] = sum(len(v) for v in fams.values())
    shapes = tabulate_assign(cx, chk, fams)
    if any(i.rule == 'C14.groups' and i.verdict == 'violation' for i in chk.insts):
        # shapes with a reported violation are not carried on; the floors of the rules that run over the remaining
        # shapes only guard against vacuous passes, and this run cannot pass any more
        for rid in ('C14.shape', 'C14.roundtrip', 'C14.units', 'C14.amount', 'C14.template'):
            if rid in chk.rules:
                chk.rules[rid]['floor'] = 0
    return rcls, fams, shapes


# ---------------------------------------------------------------------------------------------------
# template side

class Template:
    def __init__(self, fn, line, toks, guard_fields, guard_src):
        self.fn = fn
        self.line = line
        self.toks = toks
        self.guard_fields = guard_fields
        self.guard_src = guard_src

    def fields(self):
        return [t.name for t in self.toks if t.kind == 'fld']

    def mentions(self):
        return set(self.fields()) | set(self.guard_fields)

    def nf(self):
        return nf_tokens(self.toks)


def nf_tokens(toks):
    out = []
    for t in toks:
        if t.kind == 'lit':
            out.append(t.text)
        else:
            out.append('{%s%s}' % (t.name, ':%d' % t.width if t.width else ''))
    return ''.join(out)


def spec_width(spec):
    """'02d' / '02' / '0>2' -> 2 ; '' -> None ; anything else -> AnalysisError"""
    if spec in ('', None):
        return None
    import re
    m = re.fullmatch(r'0(\d+)d?', spec) or re.fullmatch(r'0>(\d+)', spec)
    if not m:
        raise AnalysisError('format spec %r not modelled' % spec)
    return int(m.group(1))


def render_arg(node, obj, where, env=None):
    """argument of a template -> Tok('fld') for `obj.f` or `X.fixed_format_number(obj.f, w)`, or a local name that
    was assigned one of those (env: name -> Tok)"""
    if isinstance(node, ast.Name) and env and node.id in env:
        t = env[node.id]
        return Tok('fld', name=t.name, width=t.width)
    if isinstance(node, ast.Attribute) and chain(node.value) == obj:
        return Tok('fld', name=node.attr)
    if isinstance(node, ast.Call) and (chain(node.func) or '').split('.')[-1] == 'fixed_format_number' \
            and len(node.args) == 2 and isinstance(node.args[0], ast.Attribute) and chain(node.args[0].value) == obj \
            and isinstance(node.args[1], ast.Constant) and isinstance(node.args[1].value, int):
        return Tok('fld', name=node.args[0].attr, width=node.args[1].value)
    if isinstance(node, ast.Call) and chain(node.func) == 'str' and len(node.args) == 1:
        return render_arg(node.args[0], obj, where, env)
    inl = inline_helper_call(node)
    if inl is not None:
        return render_arg(inl, obj, where, env)
    raise AnalysisError('%s: template argument not recognised: %s' % (where, ast.unparse(node)))


_RCTX = {}


def inline_helper_call(node, depth=0):
    """f(a, b) where f is a module-level function or Cls.method whose body is one return expression -> that expression
    with the parameters replaced by the argument expressions; None when the call is not of that kind"""
    if not isinstance(node, ast.Call) or node.keywords or 'idx' not in _RCTX or depth > 4:
        return None
    idx, mod = _RCTX['idx'], _RCTX['mod']
    fn = None
    if isinstance(node.func, ast.Name):
        r = idx.resolve(mod, node.func.id)
        if r and r[0] == 'func':
            fn = r[2]
    elif isinstance(node.func, ast.Attribute) and isinstance(node.func.value, ast.Name):
        r = idx.resolve(mod, node.func.value.id)
        if r and r[0] == 'class' and node.func.attr in r[1].methods and node.func.attr != 'fixed_format_number':
            fn = r[1].methods[node.func.attr]
    if fn is None:
        return None
    body = [st for st in fn.body if not (isinstance(st, ast.Expr) and isinstance(st.value, ast.Constant))
            and not isinstance(st, ast.Pass)]
    ps = [p for p in params_of(fn) if p not in ('self', 'cls')]
    if len(body) != 1 or not isinstance(body[0], ast.Return) or body[0].value is None or len(ps) != len(node.args):
        return None
    binding = dict(zip(ps, node.args))

    class T(ast.NodeTransformer):
        def visit_Name(self, n):
            return binding.get(n.id, n) if isinstance(n.ctx, ast.Load) else n

    import copy
    return T().visit(copy.deepcopy(body[0].value))


def template_tokens(node, obj, where, env=None):
    """'..{}..'.format(a, b) | f'..{a}..' | 'literal' -> token list, or None when not a string template"""
    if isinstance(node, ast.Constant) and isinstance(node.value, str):
        return [Tok('lit', text=node.value)] if node.value else []
    if isinstance(node, ast.JoinedStr):
        toks = []
        for p in node.values:
            if isinstance(p, ast.Constant):
                toks.append(Tok('lit', text=p.value))
            else:
                t = render_arg(p.value, obj, where, env)
                if p.format_spec is not None:
                    spec = ''.join(x.value for x in p.format_spec.values if isinstance(x, ast.Constant))
                    if len(p.format_spec.values) != sum(isinstance(x, ast.Constant) for x in p.format_spec.values):
                        raise AnalysisError('%s: nested format spec not modelled' % where)
                    w = spec_width(spec)
                    if w and t.width:
                        raise AnalysisError('%s: padded twice' % where)
                    t.width = t.width or w
                toks.append(t)
        return merge_lits(toks)
    if isinstance(node, ast.Call) and isinstance(node.func, ast.Attribute) and node.func.attr == 'format' \
            and const_str(node.func.value) is not None:
        if node.keywords:
            raise AnalysisError('%s: keyword arguments to str.format not modelled' % where)
        toks = []
        auto = 0
        for lit, fname, spec, conv in string.Formatter().parse(node.func.value.value):
            if lit:
                toks.append(Tok('lit', text=lit))
            if fname is None:
                continue
            if fname == '':
                i = auto
                auto += 1
            elif fname.isdigit():
                i = int(fname)
            else:
                raise AnalysisError('%s: placeholder {%s} not modelled' % (where, fname))
            if i >= len(node.args):
                raise AnalysisError('%s: placeholder %d has no argument' % (where, i))
            t = render_arg(node.args[i], obj, where, env)
            w = spec_width(spec)
            t.width = t.width or w
            toks.append(t)
        return merge_lits(toks)
    return None


def obj_fields_read(test, obj):
    return sorted({n.attr for n in ast.walk(test) if isinstance(n, ast.Attribute) and chain(n.value) == obj})


def interpreted_templates(cx, c, name, fn, shapes):
    """templates of one format_* function obtained by running it (abstract interpreter) on the object of every
    grammar shape; outputs that render a missing field belong to objects the function is not meant for"""
    init = cx.meth('timex', 'Timex', '__init__')
    ps = params_of(init)[1:]
    defaults = dict(zip(ps[len(ps) - len(init.args.defaults):], init.args.defaults))
    defaults.pop('timex', None)
    it = Interp(cx)
    seen, out = set(), []
    for s in shapes:
        sets = {t.name: 'nz' for t in s.toks if t.kind == 'fld'}
        sets.update({f: 'true' for f in s.flags})
        obj = abstract_object(cx, defaults, sets)
        r = it.call_fn(c, fn, [obj], c.mod, fn)
        toks = r.toks if isinstance(r, TplV) else ([Tok('lit', text=r)] if isinstance(r, str) and r else [])
        if not toks or any(t.kind == 'lit' and '<None of' in t.text for t in toks):
            continue
        nf = nf_tokens(toks)
        if nf in seen:
            continue
        seen.add(nf)
        out.append(Template(name, fn.lineno, toks, sorted(f for f, k in sets.items()), 'object of /%s/' % s.src))
    return out


def load_templates(cx, shapes=()):
    c = cx.cls('timex_format', 'TimexFormat')
    _RCTX.update(idx=cx.idx, mod=c.mod)
    out = []
    empties = 0
    fnames = []
    for name, fn in c.methods.items():
        if not name.startswith('format_'):
            continue
        fnames.append(name)
        obj = first_param(fn)
        n_ret = 0

        def assigned_names(stmts):
            return {t.id for st in stmts for n in ast.walk(st) if isinstance(n, ast.Assign) for t in n.targets
                    if isinstance(t, ast.Name)}

        def visit(stmts, guards, env):
            nonlocal n_ret, empties
            for st in stmts:
                if isinstance(st, ast.Return):
                    n_ret += 1
                    where = '%s:%d TimexFormat.%s' % (c.mod.rel, st.lineno, name)
                    if st.value is None:
                        raise AnalysisError(where + ': bare return')
                    toks = template_tokens(st.value, obj, where, env)
                    if toks is None:
                        raise AnalysisError(where + ': return value is not a string template: ' + ast.unparse(st.value))
                    if not toks:
                        empties += 1
                        continue
                    gf = sorted({f for g in guards for f in obj_fields_read(g, obj)})
                    out.append(Template(name, st.lineno, toks, gf, ' and '.join(ast.unparse(g) for g in guards)))
                elif isinstance(st, ast.If):
                    visit(st.body, guards + [st.test], dict(env))
                    visit(st.orelse, guards + [st.test], dict(env))
                    for nm in assigned_names(st.body) | assigned_names(st.orelse):
                        env.pop(nm, None)           # value after the if depends on the path: not tracked
                elif isinstance(st, ast.Assign) and len(st.targets) == 1 and isinstance(st.targets[0], ast.Name):
                    try:
                        env[st.targets[0].id] = render_arg(st.value, obj, '', env)
                    except AnalysisError:
                        env.pop(st.targets[0].id, None)   # not a field rendering; refused only if a template uses it
                elif isinstance(st, (ast.Assign, ast.Expr, ast.Pass, ast.AnnAssign)):
                    continue
                else:
                    raise AnalysisError('%s:%d TimexFormat.%s: statement %s not modelled'
                                        % (c.mod.rel, st.lineno, name, type(st).__name__))
        mark = len(out)
        try:
            visit(fn.body, [], {})
        except AnalysisError as why:
            # not a plain sequence of guarded returns (loop over a table, ...): take the templates the function
            # emits for the objects of the grammar's shapes instead
            del out[mark:]
            n_ret = 1
            got = interpreted_templates(cx, c, name, fn, shapes)
            if not got:
                raise why
            out.extend(got)
        if not n_ret:
            raise AnalysisError('TimexFormat.%s has no return' % name)
    if not out:
        raise AnalysisError('anchor vanished: no TimexFormat.format_* templates')
    return c, out, fnames


def renders_into(tt, st):
    """does the rendering of template token tt lie in the language of grammar token st?  -> (bool, why)"""
    node = st.node
    if st.conv == 'int':
        if tt.width:
            lang = finite_lang(node)
            if lang is not None and 10 ** tt.width <= 10000:
                need = {str(i).rjust(tt.width, '0') for i in range(10 ** tt.width)}
                miss = need - lang
                return (not miss, 'padded to %d digits but the group is %s' % (tt.width, rx.unparse(node)))
            reps = ['1'.rjust(tt.width, '0'), '9' * tt.width]
        else:
            reps = ['1']      # str(n) of a one-digit value: the shortest rendering of a bare int field
        for r in reps:
            if not rx.matches(node, r):
                return False, 'renders %r but the group is %s' % (r, rx.unparse(node))
        return True, ''
    if st.conv == 'num':
        if tt.width:
            return False, 'amount rendered with padding'
        for r in ('2', '1.5', '0.5', '10'):
            if not rx.matches(node, r):
                return False, 'renders %r but the group is %s' % (r, rx.unparse(node))
        return True, ''
    if st.conv == 'raw':
        if tt.width:
            return False, 'text field rendered with padding'
        return True, ''
    return False, 'conversion %s' % st.conv


def align(tpl_toks, shape):
    """token-wise comparison -> (equal, first difference text)"""
    a, b = tpl_toks, shape.toks
    for i in range(max(len(a), len(b))):
        if i >= len(a):
            return False, 'template ends before %s' % (b[i].text if b[i].kind == 'lit' else '<%s>' % b[i].name)
        if i >= len(b):
            return False, 'template continues with %s' % (a[i].text if a[i].kind == 'lit' else '{%s}' % a[i].name)
        x, y = a[i], b[i]
        if x.kind == 'lit' or y.kind == 'lit':
            if x.kind != y.kind:
                return False, 'literal against field at token %d' % i
            if x.text != y.text:
                return False, 'literal %r against %r' % (x.text, y.text)
            continue
        if y.kind != 'fld':
            return False, 'anonymous character class in pattern'
        if x.name != y.name:
            return False, 'field %s against group field %s' % (x.name, y.name)
        ok, why = renders_into(x, y)
        if not ok:
            return False, 'field %s: %s' % (x.name, why)
    return True, ''


# ---------------------------------------------------------------------------------------------------
# rules

def rule_templates(cx, chk, shapes):
    fcls, templates, fnames = load_templates(cx, shapes)
    matrix = {}
    for ti, t in enumerate(templates):
        for si, s in enumerate(shapes):
            ok, why = align(t.toks, s)
            matrix[ti, si] = (ok, why)
    for ti, t in enumerate(templates):
        hits = [si for si in range(len(shapes)) if matrix[ti, si][0]]
        construct = 'TimexFormat.%s -> %s' % (t.fn, t.nf())
        if hits:
            chk.ok('C14.template', fcls.mod.path, construct, 'in /%s/' % shapes[hits[0]].src, t.line)
        else:
            near = [si for si, s in enumerate(shapes) if sorted(s.fields()) == sorted(t.fields())]
            if near:
                why = '; '.join('/%s/: %s' % (shapes[si].src, matrix[ti, si][1]) for si in near[:3])
            else:
                why = 'no pattern has exactly the groups {%s}' % ','.join(sorted(t.fields()))
            chk.bad('C14.template', fcls.mod.path, construct, t.nf(),
                    'TimexFormat.%s emits %r (when %s) but no TimexRegex pattern accepts that form: the emitted '
                    'string does not parse back (%s)' % (t.fn, t.nf(), t.guard_src or 'always', why), t.line)
    seen = set()
    for si, s in enumerate(shapes):
        key = (s.fam, s.nf())
        if key in seen:
            continue
        seen.add(key)
        hits = [ti for ti in range(len(templates)) if matrix[ti, si][0]]
        construct = "TimexRegex['%s'] /%s/ shape %s" % (s.fam, s.src, s.nf())
        full = [ti for ti in hits if s.flags <= templates[ti].mentions()]
        if full:
            t = templates[full[0]]
            chk.ok('C14.shape', cx.mods['timex_regex'].path, construct, 'emitted by %s %s' % (t.fn, t.nf()), s.line)
        elif hits:
            t = templates[hits[0]]
            chk.bad('C14.shape', cx.mods['timex_regex'].path, construct, 'flag not tested',
                    'the only template with this text (%s in %s) never looks at %s' % (t.nf(), t.fn, sorted(s.flags)),
                    s.line)
        else:
            near = [ti for ti, t in enumerate(templates) if sorted(t.fields()) == sorted(s.fields())]
            why = '; '.join('%s %r: %s' % (templates[ti].fn, templates[ti].nf(), matrix[ti, si][1]) for ti in near[:3]) \
                or 'no template reads exactly the fields {%s}' % ','.join(sorted(s.fields()))
            chk.bad('C14.shape', cx.mods['timex_regex'].path, construct, 'no template',
                    'strings of this form parse, but no TimexFormat template emits the form again (%s)' % why, s.line)
    return fcls, templates, fnames


def calls_in(fn):
    return [n for n in ast.walk(fn) if isinstance(n, ast.Call)]


def rule_reach(cx, chk, fcls, fnames):
    """every format_* helper is used by TimexFormat.format; timex_value / types delegate"""
    fmt = cx.meth('timex_format', 'TimexFormat', 'format')
    called = set()
    for c in calls_in(fmt):
        ch = chain(c.func) or ''
        if ch.startswith('TimexFormat.') or ch.startswith('cls.'):
            called.add(ch.split('.')[-1])
    for name in sorted(fnames):
        chk.judge(name in called, 'C14.delegate', fcls.mod.path, 'TimexFormat.format -> ' + name, 'called',
                  'TimexFormat.%s is never called from TimexFormat.format: its forms are never emitted' % name,
                  fcls.methods[name].lineno)
    tcls = cx.cls('timex', 'Timex')
    for mname, want_cls, want_m in (('timex_value', 'TimexFormat', 'format'), ('types', 'TimexInference', 'infer')):
        fn = cx.meth('timex', 'Timex', mname)
        rets = [n for n in ast.walk(fn) if isinstance(n, ast.Return) and n.value is not None]
        if len(rets) != 1 or not isinstance(rets[0].value, ast.Call):
            raise AnalysisError('Timex.%s: expected a single `return %s.%s(self)`' % (mname, want_cls, want_m))
        call = rets[0].value
        ch = chain(call.func) or ''
        if not ch.startswith(want_cls + '.'):
            raise AnalysisError('Timex.%s no longer delegates to %s (%s)' % (mname, want_cls, ast.unparse(call)))
        good = ch == '%s.%s' % (want_cls, want_m) and len(call.args) == 1 and chain(call.args[0]) == 'self'
        chk.judge(good, 'C14.delegate', tcls.mod.path, 'Timex.' + mname, ast.unparse(call) if not good else ch,
                  'Timex.%s must return %s.%s(self), found %s' % (mname, want_cls, want_m, ast.unparse(call)),
                  fn.lineno)


def first_chars(n):
    """set of possible first characters of a match (None = anything) ; nullable flag"""
    k = n.kind
    if k == 'lit':
        return {n.c}, False
    if k in ('anchor', 'flags', 'look'):
        return set(), True
    if k == 'group':
        return first_chars(n.node)
    if k == 'cc' and n.c == 'd':
        return set('0123456789'), False
    if k == 'class' and not n.neg:
        try:
            return rx.class_chars(n), False
        except rx.RxError:
            return None, False
    if k in ('cc', 'class', 'any'):
        return None, False
    if k == 'alt':
        s, nul = set(), False
        for a in n.items:
            f, e = first_chars(a)
            if f is None:
                return None, nul or e
            s |= f
            nul = nul or e
        return s, nul
    if k == 'seq':
        s = set()
        for it in n.items:
            f, e = first_chars(it)
            if f is None:
                return None, False
            s |= f
            if not e:
                return s, False
        return s, True
    if k == 'rep':
        f, e = first_chars(n.node)
        return f, e or n.lo == 0
    raise AnalysisError('first_chars: %s not modelled' % k)


def may_contain(n, ch):
    """can a match of n contain character ch?"""
    for x in rx.walk(n):
        if x.kind in ('lit', 'cc', 'class', 'any', 'range'):
            if x.kind == 'range':
                continue
            try:
                if rx._ch_match(x, ch) and x.kind != 'lit':
                    return True
                if x.kind == 'lit' and x.c == ch:
                    return True
            except rx.RxError:
                return True
    return False


def rule_dispatch(cx, chk, fams, templates):
    pcls = cx.cls('timex_parsing', 'TimexParsing')
    path = pcls.mod.path
    # which families does every TimexParsing method extract (directly), which methods does it call
    direct, callees, feeds = {}, {}, {}
    for name, fn in pcls.methods.items():
        direct[name] = []
        callees[name] = set()
        assigned = False
        for c in calls_in(fn):
            ch = chain(c.func) or ''
            if ch.endswith('TimexRegex.extract') or ch == 'TimexRegex.extract':
                fam = const_str(c.args[0]) if c.args else None
                if fam is None:
                    raise AnalysisError('%s:%d TimexRegex.extract with a non-literal family' % (pcls.mod.rel, c.lineno))
                direct[name].append((fam, c))
            elif ch.startswith('TimexParsing.') or ch.startswith('cls.'):
                callees[name].add(ch.split('.')[-1])
            elif ch.endswith('.assign_properties'):
                assigned = True
        feeds[name] = assigned
    for name in direct:
        for fam, c in direct[name]:
            chk.judge(fam in fams, 'C14.dispatch', path, 'TimexParsing.%s extract(%r)' % (name, fam), 'family exists',
                      "TimexRegex.extract(%r, ...): TimexRegex.timexRegex has no such family (KeyError)" % fam, c.lineno)
            # the dict the extraction fills must be handed to assign_properties
            tgt = chain(c.args[2]) if len(c.args) > 2 else None
            fn = pcls.methods[name]
            handed = any((chain(k.func) or '').endswith('.assign_properties') and k.args and chain(k.args[0]) == tgt
                         for k in calls_in(fn))
            chk.judge(handed, 'C14.dispatch', path, 'TimexParsing.%s extract(%r) -> assign_properties' % (name, fam),
                      'result dict handed on',
                      'the dict filled by extract(%r) is never passed to assign_properties: captured groups are lost'
                      % fam, c.lineno)

    def reach(name, seen=None):
        seen = seen or set()
        if name in seen or name not in direct:
            return set()
        seen.add(name)
        r = {f for f, _ in direct[name]}
        for cal in callees[name]:
            r |= reach(cal, seen)
        return r

    if 'parse_string' not in pcls.methods:
        raise AnalysisError('anchor vanished: TimexParsing.parse_string')
    ps = pcls.methods['parse_string']
    sparam = params_of(ps)[0]
    oparam = params_of(ps)[1]
    reached = reach('parse_string')
    for fam in fams:
        chk.judge(fam in reached, 'C14.dispatch', path, "TimexParsing.parse_string reaches family '%s'" % fam,
                  'reachable', "no call chain from parse_string extracts the '%s' patterns: those TIMEX strings parse "
                               'to an empty Timex' % fam, ps.lineno)

    # routing: the if-chain of parse_string
    chainif = [st for st in ps.body if isinstance(st, ast.If)]
    if len(chainif) != 1:
        raise AnalysisError('TimexParsing.parse_string: expected one if/elif chain')
    arms = []      # (test or None, body)
    st = chainif[0]
    while True:
        arms.append((st.test, st.body))
        if len(st.orelse) == 1 and isinstance(st.orelse[0], ast.If):
            st = st.orelse[0]
        else:
            arms.append((None, st.orelse))
            break

    def arm_families(body):
        r = set()
        for s in body:
            for c in ast.walk(s):
                if isinstance(c, ast.Call):
                    ch = chain(c.func) or ''
                    if ch.startswith('TimexParsing.') or ch.startswith('cls.'):
                        r |= reach(ch.split('.')[-1])
                    elif ch.endswith('TimexRegex.extract') and c.args and const_str(c.args[0]):
                        r.add(const_str(c.args[0]))
        return r

    def guard(test, firsts, lasts, tree):
        """three-valued: True / False / None(maybe) for strings of the pattern"""
        if isinstance(test, ast.BoolOp):
            vals = [guard(v, firsts, lasts, tree) for v in test.values]
            if isinstance(test.op, ast.And):
                return False if False in vals else (True if all(v is True for v in vals) else None)
            return True if True in vals else (False if all(v is False for v in vals) else None)
        if isinstance(test, ast.Compare) and len(test.ops) == 1 and isinstance(test.ops[0], ast.Eq) \
                and chain(test.left) == sparam and const_str(test.comparators[0]) is not None:
            w = const_str(test.comparators[0])
            return None if rx.matches(tree, w) else False
        if isinstance(test, ast.Call) and chain(test.func) in (sparam + '.startswith', sparam + '.endswith') \
                and len(test.args) == 1 and const_str(test.args[0]) and len(const_str(test.args[0])) == 1:
            chars = firsts if test.func.attr == 'startswith' else lasts
            ch = const_str(test.args[0])
            if chars is None:
                return None
            if chars == {ch}:
                return True
            return None if ch in chars else False
        raise AnalysisError('%s:%d parse_string: guard not modelled: %s' % (pcls.mod.rel, test.lineno, ast.unparse(test)))

    def rev(n):
        m = rx.Node(n.kind, items=None, node=None, name=n.name, lo=n.lo, hi=n.hi, c=n.c, neg=n.neg, dir=n.dir, lazy=n.lazy)
        if n.items is not None:
            m.items = [rev(x) for x in n.items]
            if n.kind == 'seq':
                m.items.reverse()
        if n.node is not None:
            m.node = rev(n.node)
        return m

    def route(tree, fam, construct, line, what):
        firsts, nul = first_chars(tree)
        lasts, nul2 = first_chars(rev(tree))
        if nul or nul2:
            firsts = lasts = None
        for test, body in arms:
            g = True if test is None else guard(test, firsts, lasts, tree)
            if g is False:
                continue
            got = arm_families(body)
            desc = 'else' if test is None else ast.unparse(test)
            chk.judge(fam in got, 'C14.route', path, construct, 'arm [%s] extracts %s' % (desc, ','.join(sorted(got)) or '-'),
                      "%s can take the parse_string arm `%s`, which extracts {%s} and never the '%s' patterns"
                      % (what, desc, ','.join(sorted(got)), fam), line)
            if g is True:
                return
        return

    for fam, lst in fams.items():
        for src, line, tree in lst:
            route(tree, fam, "TimexRegex['%s'] /%s/" % (fam, src), line, 'a string matching /%s/' % src)


def rule_wiring(cx, chk):
    tcls = cx.cls('timex', 'Timex')
    path = tcls.mod.path
    init = cx.meth('timex', 'Timex', '__init__')
    iparams = params_of(init)[1:]
    stores = {}
    for st in init.body:
        if isinstance(st, ast.Assign) and len(st.targets) == 1 and isinstance(st.targets[0], ast.Attribute) \
                and chain(st.targets[0].value) == 'self':
            stores[st.targets[0].attr] = (st.value, st.lineno)
    n = 0
    for p in iparams:
        if p == 'timex':
            continue
        hit = [(f, v, ln) for f, (v, ln) in stores.items() if isinstance(v, ast.Name) and v.id == p]
        if not hit:
            chk.bad('C14.wiring', path, 'Timex.__init__(%s=)' % p, 'not stored',
                    'constructor parameter %r is not stored in any field' % p, init.lineno)
            continue
        for f, v, ln in hit:
            n += 1
            chk.judge(f == p, 'C14.wiring', path, 'Timex.__init__(%s=)' % p, 'self.%s = %s' % (f, p),
                      'constructor parameter %r is stored in field %r' % (p, f), ln)
    fields = [f for f in stores]
    # from_* constructors
    for cname, want in FROM_EXPECT.items():
        fn = cx.meth('timex', 'Timex', cname)
        src = params_of(fn)[1]
        calls = [c for c in calls_in(fn) if chain(c.func) in ('cls', 'Timex')]
        if len(calls) != 1:
            raise AnalysisError('Timex.%s: expected one constructor call cls(...)' % cname)
        call = calls[0]
        if call.args:
            raise AnalysisError('Timex.%s: positional constructor arguments not modelled' % cname)
        got = {}
        for kw in call.keywords:
            if kw.arg is None:
                raise AnalysisError('Timex.%s: **kwargs not modelled' % cname)
            got[kw.arg] = kw.value
        for k in want:
            construct = 'Timex.%s %s=' % (cname, k)
            if k not in got:
                chk.bad('C14.from', path, construct, 'missing', 'Timex.%s does not pass %s' % (cname, k), call.lineno)
                continue
            v = got[k]
            if isinstance(v, ast.Attribute) and chain(v.value) == src:
                chk.judge(v.attr == FROM_REF[k], 'C14.from', path, construct, '%s <- .%s' % (k, v.attr),
                          'Timex.%s passes %s.%s as %s (expected .%s)' % (cname, src, v.attr, k, FROM_REF[k]), v.lineno)
            else:
                raise AnalysisError('%s:%d Timex.%s: argument %s=%s not modelled' % (tcls.mod.rel, v.lineno, cname, k,
                                                                                 ast.unparse(v)))
        for k in sorted(set(got) - set(want)):
            chk.bad('C14.from', path, 'Timex.%s %s=' % (cname, k), 'unexpected',
                    'Timex.%s also sets %s, which the python value does not carry' % (cname, k), call.lineno)
        for k in got:
            if k not in iparams:
                chk.bad('C14.from', path, 'Timex.%s %s=' % (cname, k), 'unknown keyword',
                        'Timex.__init__ has no parameter %r (TypeError)' % k, call.lineno)
    # clone copies field to homonymous field and covers every field of __init__
    clone = cx.meth('timex', 'Timex', 'clone')
    copied = {}
    for st in ast.walk(clone):
        if isinstance(st, ast.Assign) and len(st.targets) == 1 and isinstance(st.targets[0], ast.Attribute) \
                and isinstance(st.value, ast.Attribute) and chain(st.value.value) == 'self' \
                and isinstance(st.targets[0].value, ast.Name):
            copied[st.targets[0].attr] = (st.value.attr, st.lineno)
    if len(copied) < 5:
        raise AnalysisError('Timex.clone: field-by-field copy idiom not recognised')
    for f in fields:
        if f not in copied:
            chk.bad('C14.wiring', path, 'Timex.clone .%s' % f, 'not copied',
                    'Timex.clone does not copy field %r (clones feed the (start,end,duration) form)' % f, clone.lineno)
        else:
            chk.judge(copied[f][0] == f, 'C14.wiring', path, 'Timex.clone .%s' % f, '%s <- self.%s' % (f, copied[f][0]),
                      'Timex.clone copies self.%s into %s' % (copied[f][0], f), copied[f][1])
    return iparams, fields


def _oi():
    from .. import ointerp
    return ointerp


def _env(**kw):
    e = _oi().Env()
    e.vars.update(kw)
    return e


def make_ointerp(cx, where, budget=3000000):
    """the shared object interpreter (sa/ointerp.py) with the stand-ins this package needs: compiled patterns over the
    regex syntax trees, Decimal, floor, and the attribute builtins on interpreted objects"""
    import decimal
    import math
    oi = _oi()

    def odict(d):
        return {k: (k, v) for k, v in d.items()}

    def rx_compile(it, a, k):
        if len(a) != 1 or not isinstance(a[0], str) or k:
            raise AnalysisError('%s: re.compile with flags is not modelled' % where)
        r = RegexStandIn(a[0])

        def match(it2, a2, k2):
            if len(a2) != 1 or not isinstance(a2[0], str):
                raise oi.PyExc('TypeError: expected string')
            m = r.match(a2[0])
            if m is None:
                return None
            return oi.Native({'groupdict': oi.native(lambda i3, a3, k3: odict(m.groupdict())),
                              'group': oi.native(lambda i3, a3, k3: m.group(*a3))}, 'match')
        return oi.Native({'match': oi.native(match)}, 'pattern')

    def _getattr(it, a, k):
        o, n = a[0], a[1]
        if isinstance(o, oi.Obj) and n in o.attrs:
            return o.attrs[n]
        try:
            return it.getattr(o, n, None, None)
        except oi.PyExc:
            if len(a) == 3:
                return a[2]
            raise

    def _hasattr(it, a, k):
        try:
            _getattr(it, a[:2], k)
            return True
        except oi.PyExc:
            return False

    def _setattr(it, a, k):
        o, n, v = a
        if not isinstance(o, oi.Obj) or not isinstance(n, str):
            raise AnalysisError('%s: setattr on something else than an interpreted object' % where)
        if o.cls is not None and hasattr(o.cls, 'methods'):
            for kk in it.idx.mro(o.cls):
                st = kk.methods.get('%s#setter' % n)
                if st is not None:
                    it.call_function(oi.FuncRef(kk.mod, st, kk), [v], {}, None, selfobj=o)
                    return None
        o.attrs[n] = v
        return None

    def _delattr(it, a, k):
        o, n = a
        if not isinstance(o, oi.Obj) or n not in o.attrs:
            raise oi.PyExc('AttributeError: %s' % n)
        del o.attrs[n]
        return None

    def _int(it, a, k):
        try:
            return int(*a)
        except (TypeError, ValueError, ArithmeticError) as ex:
            raise oi.PyExc('%s: %s' % (type(ex).__name__, ex))

    def _str(it, a, k):
        if len(a) == 1 and isinstance(a[0], (str, int, float, bool, type(None), decimal.Decimal)):
            return str(a[0])
        raise AnalysisError('%s: str() of %r is not modelled' % (where, a))

    def _num(f, a):
        if not all(isinstance(x, (int, float, decimal.Decimal)) and not isinstance(x, bool) for x in a):
            raise oi.PyExc('TypeError: %s of %r' % (f.__name__, a))
        try:
            return f(*a)
        except (TypeError, ValueError, ArithmeticError) as ex:
            raise oi.PyExc('%s: %s' % (type(ex).__name__, ex))

    def _dedupe(it, a, k):
        out = []
        for x in a[-1]:
            if x not in out:
                out.append(x)
        return out

    hooks = {'regex.compile': rx_compile, 'name:getattr': _getattr, 'name:hasattr': _hasattr, 'name:setattr': _setattr,
             'name:delattr': _delattr, 'name:int': _int, 'name:str': _str,
             'name:Decimal': lambda it, a, k: decimal.Decimal(a[0]),
             'name:floor': lambda it, a, k: math.floor(a[0]), 'name:ceil': lambda it, a, k: math.ceil(a[0]),
             'name:divmod': lambda it, a, k: _num(divmod, a), 'name:round': lambda it, a, k: _num(round, a),
             'TimexRangeResolver.remove_duplicates': _dedupe}
    class Interp(oi.Interp):
        """+ f-strings with a format spec or conversion (values: numbers, strings, Decimal)"""

        def ev(self, e, env, mod, cls):
            if isinstance(e, ast.JoinedStr) and any(isinstance(p, ast.FormattedValue) and
                                                    (p.format_spec is not None or p.conversion != -1) for p in e.values):
                out = []
                for p in e.values:
                    if isinstance(p, ast.Constant):
                        out.append(p.value)
                        continue
                    v = self.ev(p.value, env, mod, cls)
                    if not isinstance(v, (int, float, str, decimal.Decimal, type(None))):
                        self.fail(e, 'f-string field of %r' % (v,))
                    spec = self.ev(p.format_spec, env, mod, cls) if p.format_spec is not None else ''
                    if p.conversion == ord('r'):
                        v = repr(v)
                    elif p.conversion == ord('s'):
                        v = str(v)
                    elif p.conversion != -1:
                        self.fail(e, 'f-string conversion')
                    try:
                        out.append(format(v, spec))
                    except (TypeError, ValueError) as ex:
                        raise oi.PyExc('%s: %s' % (type(ex).__name__, ex))
                return ''.join(out)
            return oi.Interp.ev(self, e, env, mod, cls)

    return Interp(cx.idx, hooks, budget=budget, where=where)


MUTABLE_CTORS_OK = ('int', 'str', 'float', 'bool', 'tuple', 'frozenset', 'bytes', 'Decimal')


def mutable_default_stores(fn):
    """(parameter, default text, store text, node) for parameters whose default is a mutable object created once at
    definition time (a call, a list/dict/set display) and that are stored into an attribute or handed to setattr"""
    ps = fn.args.posonlyargs + fn.args.args
    defaults = dict(zip([a.arg for a in ps][len(ps) - len(fn.args.defaults):], fn.args.defaults))
    for a, d in zip(fn.args.kwonlyargs, fn.args.kw_defaults):
        if d is not None:
            defaults[a.arg] = d
    risky = {}
    for p, d in defaults.items():
        if isinstance(d, (ast.List, ast.Dict, ast.Set, ast.ListComp, ast.DictComp, ast.SetComp)):
            risky[p] = d
        elif isinstance(d, ast.Call) and (chain(d.func) or '').split('.')[-1] not in MUTABLE_CTORS_OK:
            risky[p] = d
    out = []
    if not risky:
        return out
    alias = {p: p for p in risky}
    for n in ast.walk(fn):
        if isinstance(n, ast.Assign) and isinstance(n.value, ast.Name) and n.value.id in alias:
            for t in n.targets:
                if isinstance(t, ast.Name):
                    alias[t.id] = alias[n.value.id]
    for n in ast.walk(fn):
        if isinstance(n, ast.Assign) and isinstance(n.value, ast.Name) and n.value.id in alias:
            for t in n.targets:
                if isinstance(t, ast.Attribute):
                    p = alias[n.value.id]
                    out.append((p, ast.unparse(risky[p]), ast.unparse(t) + ' = ' + n.value.id, n))
        elif isinstance(n, ast.Call) and chain(n.func) == 'setattr' and len(n.args) == 3 \
                and isinstance(n.args[2], ast.Name) and n.args[2].id in alias:
            p = alias[n.args[2].id]
            out.append((p, ast.unparse(risky[p]), ast.unparse(n), n))
    return out


def rule_shared(cx, chk):
    """no mutable default argument ends up in instance state"""
    n = 0
    for name, m in sorted(cx.idx.mods.items()):
        if not (name == PKG or name.startswith(PKG + '.')):
            continue
        for mm, c, fn in cx.idx.functions(m):
            if not fn.args.defaults and not any(d is not None for d in fn.args.kw_defaults):
                continue
            n += 1
            hits = mutable_default_stores(fn)
            q = '%s.%s' % (c.name, fn.name) if c else fn.name
            if not hits:
                chk.ok('C14.shared', m.path, q + ' defaults', 'no mutable default reaches an attribute', fn.lineno)
            for p, dflt, store, node in hits:
                chk.bad('C14.shared', m.path, '%s(%s=%s)' % (q, p, dflt), store,
                        'the default %s=%s is created once, when the function is defined, and `%s` installs that one object '
                        'in every instance: two Timex objects then share mutable state and one TIMEX changes what another '
                        'formats to' % (p, dflt, store), node.lineno)
    ctl = ast.parse("def f(self, part, value, initial=Time(0, 0, 0)):\n    setattr(self, '__time', initial)\n").body[0]
    ctl2 = ast.parse("def g(self, a, b=None, c=(), d=Decimal('1')):\n    self.a = b\n    self.c = c\n    self.d = d\n").body[0]
    chk.control('C14.shared', len(mutable_default_stores(ctl)) == 1 and not mutable_default_stores(ctl2))


def rule_fromvalue(cx, chk):
    """Timex.from_time / from_date / from_date_time, run on a grid of python values: the canonical TIMEX comes out"""
    oi = _oi()
    tcls = cx.cls('timex', 'Timex')
    time_cls = cx.cls('time', 'Time')
    it = make_ointerp(cx, 'C14.fromvalue')

    def canon_time(h, m, s):
        return 'T%02d' % h if (m, s) == (0, 0) else 'T%02d:%02d' % (h, m) if s == 0 else 'T%02d:%02d:%02d' % (h, m, s)

    def fmt(o):
        return it.call_value(it.getattr(o, 'timex_value', None, None), [], {}, None)

    def run(mname, arg):
        fn = cx.meth('timex', 'Timex', mname)
        return fmt(it.call_function(oi.FuncRef(tcls.mod, fn, tcls), [arg], {}, None))

    times = [(h, m, s) for h in (0, 9, 10, 23) for m in (0, 5, 20, 59) for s in (0, 7, 30, 59)]
    dates = [(2016, 2, 29), (1, 1, 1), (9999, 12, 31), (2020, 10, 5)]
    cases = [('from_time', times, lambda v: it.instantiate(time_cls, list(v), {}, None), lambda v: canon_time(*v)),
             ('from_date', dates,
              lambda v: oi.Native(dict(zip(('year', 'month', 'day', 'hour', 'minute', 'second'), v + (11, 12, 13))), 'date'),
              lambda v: '%04d-%02d-%02d' % v),
             ('from_date_time', [d + t for d in dates for t in ((0, 0, 0), (10, 20, 30), (23, 59, 0), (0, 0, 5))],
              lambda v: oi.Native(dict(zip(('year', 'month', 'day', 'hour', 'minute', 'second'), v)), 'datetime'),
              lambda v: '%04d-%02d-%02d' % v[:3] + canon_time(*v[3:]))]
    for mname, grid, make, want in cases:
        bad = None
        for v in grid:
            try:
                got = run(mname, make(v))
            except oi.PyExc as ex:
                got = 'raises %s' % ex
            if got != want(v) and bad is None:
                bad = (v, got, want(v))
        chk.judge(bad is None, 'C14.fromvalue', tcls.mod.path, 'Timex.%s on %d values' % (mname, len(grid)),
                  'canonical TIMEX' if bad is None else '%s -> %r' % bad[:2],
                  'Timex.%s(%s).timex_value() is %r, the canonical TIMEX of that value is %r'
                  % ((mname,) + (bad or ('', '', ''))), cx.meth('timex', 'Timex', mname).lineno)


def rule_time_plumbing(cx, chk):
    """hour / minute / second are properties over one shared Time object"""
    tcls = cx.cls('timex', 'Timex')
    path = tcls.mod.path
    time_init = cx.meth('time', 'Time', '__init__')
    tparams = params_of(time_init)[1:]
    tpath = cx.mods['time'].path
    tstores = {}
    for st in time_init.body:
        if isinstance(st, ast.Assign) and isinstance(st.targets[0], ast.Attribute) and chain(st.targets[0].value) == 'self' \
                and isinstance(st.value, ast.Name):
            tstores[st.value.id] = (st.targets[0].attr, st.lineno)
    for p in tparams:
        if p not in tstores:
            chk.bad('C14.timeprop', tpath, 'Time.__init__(%s)' % p, 'not stored', 'Time.__init__ drops %r' % p,
                    time_init.lineno)
        else:
            chk.judge(tstores[p][0] == p, 'C14.timeprop', tpath, 'Time.__init__(%s)' % p, 'self.%s = %s' % (tstores[p][0], p),
                      'Time.__init__ stores parameter %r in attribute %r' % (p, tstores[p][0]), tstores[p][1])
    # the properties themselves, decided by running them (object interpreter: property getters and setters,
    # hasattr/getattr/setattr/delattr, default arguments evaluated once as Python does)
    it = make_ointerp(cx, 'C14.timeprop')
    parts = list(ZERO_VALID)

    def new():
        return it.instantiate(tcls, [], {}, None)

    def read(o):
        return tuple(it.getattr(o, p, None, None) for p in parts)

    def write(o, p, v):
        it.assign(ast.Attribute(value=ast.Name(id='o', ctx=ast.Load()), attr=p, ctx=ast.Store()), v, _env(o=o), tcls.mod, None)

    def scenario(construct, detail_ok, run, msg):
        try:
            ok, got = run()
        except _oi().PyExc as ex:
            ok, got = False, 'raises %s' % ex
        chk.judge(ok, 'C14.timeprop', path, construct, detail_ok if ok else str(got), msg % {'got': got}, tcls.node.lineno)

    for k, p in enumerate(parts):
        want = tuple(7 if q == p else 0 for q in parts)

        def one(p=p, want=want):
            o = new()
            if read(o) != (None, None, None):
                return False, 'fresh Timex reads %s' % (read(o),)
            write(o, p, 7)
            return read(o) == want, read(o)
        scenario('Timex().%s = 7' % p, '(hour, minute, second) = %s' % (want,), one,
                 'after setting only ' + p + ' = 7 on a fresh Timex, (hour, minute, second) reads %(got)s, expected ' + str(want) +
                 ': the value must land in its own component and the other two start at 0')

        def two(p=p, k=k):
            o = new()
            write(o, p, 7)
            q = parts[(k + 1) % 3]
            write(o, q, 9)
            want2 = tuple(7 if x == p else 9 if x == q else 0 for x in parts)
            ok = read(o) == want2
            write(o, p, None)
            return ok and read(o) == (None, None, None), (want2, read(o))
        scenario('Timex().%s = 7, then the next component = 9, then %s = None' % (p, p), 'both kept, None clears the time', two,
                 'setting a second component or resetting to None does not behave as one shared time of day: %(got)s')

    def isolation():
        a = new()
        for p, v in zip(parts, (10, 30, 45)):
            write(a, p, v)
        b = new()
        write(b, parts[0], 8)
        return read(b) == (8, 0, 0) and read(a) == (10, 30, 45), 'second object %s, first object %s' % (read(b), read(a))
    scenario('two Timex objects: a = 10:30:45, then b.hour = 8', 'b = (8, 0, 0), a unchanged', isolation,
             'two Timex objects share their time of day: %(got)s - state created once (a default argument, a class attribute) '
             'is installed in every instance, so parsing one TIMEX changes what another one formats to')

    # two objects whose time of day starts from the same value (the backing object is created as Time(v, 0, 0) /
    # Time(0, v, 0) / Time(0, 0, v) by the first setter that runs): a constructor that hands out a cached instance
    # makes them one object
    for k, p in enumerate(parts):
        for v in (10, 0):
            def same(p=p, k=k, v=v):
                a = new()
                write(a, p, v)
                others = [q for q in parts if q != p]
                write(a, others[0], 31)
                write(a, others[1], 47)
                want_a = read(a)
                b = new()
                write(b, p, v)
                want_b = tuple(v if q == p else 0 for q in parts)
                return read(a) == want_a and read(b) == want_b, 'first object %s (was %s), second object %s' % (
                    read(a), want_a, read(b))
            scenario('two Timex objects: a.%s = %d and the other two components set, then b.%s = %d' % (p, v, p, v),
                     'a unchanged, b starts at 0 elsewhere', same,
                     'two Timex objects whose time of day starts from the same value share it: %(got)s - the object behind '
                     'hour/minute/second is mutated in place by the setters, so it must be a fresh one per Timex')

    def sequence_same_hour():
        a = it.instantiate(tcls, ['T10:30'], {}, None)
        it.instantiate(tcls, ['T10:45:10'], {}, None)
        w = it.call_value(it.getattr(a, 'timex_value', None, None), [], {}, None)
        return w == 'T10:30', w
    scenario("Timex('T10:30'), then Timex('T10:45:10') is parsed, then the first one's timex_value()", "'T10:30'",
             sequence_same_hour, "after parsing 'T10:45:10' the earlier Timex('T10:30') formats as %(got)r: two TIMEX in the "
                                 'same hour share their time of day')

    def sequence():
        it.instantiate(tcls, ['T10:30:45'], {}, None)
        b = it.instantiate(tcls, ['T08'], {}, None)
        w = it.call_value(it.getattr(b, 'timex_value', None, None), [], {}, None)
        return w == 'T08', w
    scenario("Timex('T10:30:45') then Timex('T08').timex_value()", "'T08'", sequence,
             "after parsing 'T10:30:45', parsing 'T08' formats as %(got)r: the second object carries the first one's minutes "
             'and seconds')

    rule_pad(cx, chk)


# the (field, width) classes of the TIMEX grammar the property quantifies over: years 0001-9999 in four digits, every
# other calendar / clock field in two (that the templates pass these widths is C14.template's business)
PAD_CLASSES = ((4, range(1, 10000), 'year 1..9999'), (2, range(0, 60), 'month/day/week/hour/minute/second 0..59'))


def pad_reference(n, size):
    """decimal digits of n, left-padded with '0' to `size` (written without str.rjust / zfill / % on purpose)"""
    digits = ''
    m = n
    while True:
        digits = '0123456789'[m % 10] + digits
        m //= 10
        if m == 0:
            break
    return '0' * max(0, size - len(digits)) + digits


def tabulate_pad(it, mod, fn, c):
    """run the function as written on every (n, size) of PAD_CLASSES -> first difference per class:
    [(size, label, count, None | (n, got, want))]"""
    oi = _oi()
    out = []
    for size, dom, label in PAD_CLASSES:
        bad = None
        for n in dom:
            try:
                got = it.call_function(oi.FuncRef(mod, fn, c), [n, size], {}, None)
            except oi.PyExc as ex:
                got = 'raises %s' % ex
            want = pad_reference(n, size)
            if got != want or type(got) is not str:
                bad = (n, got, want)
                break
        out.append((size, label, len(dom), bad))
    return out


def rule_pad(cx, chk):
    """TimexDateHelpers.fixed_format_number, interpreted as written (whatever its body is: rjust, zfill, %-format,
    f-string, a precomputed table, ...), tabulated against the reference on the fields of the grammar"""
    c = cx.cls('timex_date_helpers', 'TimexDateHelpers')
    fn = cx.meth('timex_date_helpers', 'TimexDateHelpers', 'fixed_format_number')
    if len(params_of(fn)) != 2:
        raise AnalysisError('TimexDateHelpers.fixed_format_number: expected the two parameters (n, size), found %r'
                            % (params_of(fn),))
    path = cx.mods['timex_date_helpers'].path
    it = make_ointerp(cx, 'C14.pad')
    for size, label, count, bad in tabulate_pad(it, c.mod, fn, c):
        construct = 'TimexDateHelpers.fixed_format_number(n, %d) for %s' % (size, label)
        if bad is None:
            chk.ok('C14.pad', path, construct, 'digits of n left-padded with 0 to %d on %d values' % (size, count), fn.lineno)
        else:
            chk.bad('C14.pad', path, construct, 'n=%d -> %r' % bad[:2],
                    'fixed_format_number(%d, %d) yields %r; the TIMEX field needs the decimal digits of n left-padded with '
                    '"0" to %d characters, %r (first difference of %d values tabulated)'
                    % (bad[0], size, bad[1], size, bad[2], count), fn.lineno)
    # positive control: the same tabulation on embedded functions - one that forgets the width for small numbers (must
    # be reported at size 4 only), one that pads in a loop (must pass)
    chk.control('C14.pad', pad_control())


PAD_CONTROL = """
class Bad:
    _T = [str(i).rjust(2, '0') for i in range(100)]

    @staticmethod
    def fixed_format_number(n, size):
        if 0 <= n < len(Bad._T):
            return Bad._T[n]
        return str(n).rjust(size, '0')


class Good:
    @staticmethod
    def fixed_format_number(n, size):
        text = str(n)
        while len(text) < size:
            text = '0' + text
        return text
"""


def pad_control():
    from sa.index import Index, Mod

    class _Cx:
        pass
    ix = Index.__new__(Index)
    ix.mods, ix.by_path, ix.classes_by_name, ix.errors = {}, {}, {}, []
    m = Mod('c14_pad_control', '<control:C14.pad>', ast.parse(PAD_CONTROL), PAD_CONTROL)
    ix.mods[m.name] = m
    ix._scan(m)
    cx = _Cx()
    cx.idx = ix
    try:
        it = make_ointerp(cx, 'C14.pad control')
        bad = tabulate_pad(it, m, m.classes['Bad'].methods['fixed_format_number'], m.classes['Bad'])
        good = tabulate_pad(it, m, m.classes['Good'].methods['fixed_format_number'], m.classes['Good'])
    except AnalysisError:
        return False
    return [b[3] for b in bad] == [(1, '01', '0001'), None] and all(g[3] is None for g in good)


def fresh_new_returns(fn):
    """returns of a __new__: [(node, verdict, text)] with verdict 'fresh' (object.__new__ / super().__new__ result, directly
    or through a local bound only to such calls), 'stored' (read out of a container / attribute / another call) or
    'unread'"""
    def is_fresh_call(e):
        if not (isinstance(e, ast.Call) and isinstance(e.func, ast.Attribute) and e.func.attr == '__new__'):
            return False
        b = e.func.value
        return (isinstance(b, ast.Name) and b.id == 'object') or \
            (isinstance(b, ast.Call) and isinstance(b.func, ast.Name) and b.func.id == 'super')

    binds = {}
    for n in ast.walk(fn):
        if isinstance(n, ast.Assign):
            for t in n.targets:
                for x in ast.walk(t):
                    if isinstance(x, ast.Name) and isinstance(x.ctx, ast.Store):
                        binds.setdefault(x.id, []).append(n.value if t is x else None)
        elif isinstance(n, (ast.AugAssign, ast.AnnAssign, ast.NamedExpr)) and isinstance(n.target, ast.Name):
            binds.setdefault(n.target.id, []).append(getattr(n, 'value', None) if not isinstance(n, ast.AugAssign) else None)
        elif isinstance(n, (ast.For, ast.comprehension)):
            for x in ast.walk(n.target):
                if isinstance(x, ast.Name):
                    binds.setdefault(x.id, []).append(None)
        elif isinstance(n, ast.withitem) and n.optional_vars is not None:
            for x in ast.walk(n.optional_vars):
                if isinstance(x, ast.Name):
                    binds.setdefault(x.id, []).append(None)
    out = []
    for r in ast.walk(fn):
        if not isinstance(r, ast.Return):
            continue
        v = r.value
        if v is None:
            out.append((r, 'unread', 'bare return'))
        elif is_fresh_call(v):
            out.append((r, 'fresh', ast.unparse(v)))
        elif isinstance(v, ast.Name) and v.id in binds and all(b is not None and is_fresh_call(b) for b in binds[v.id]):
            out.append((r, 'fresh', ast.unparse(v)))
        elif isinstance(v, (ast.Subscript, ast.Attribute, ast.Call, ast.Name)):
            out.append((r, 'stored', ast.unparse(v)))
        else:
            out.append((r, 'unread', ast.unparse(v)))
    return out


def rule_fresh(cx, chk):
    """every class of the package that Timex instantiates and whose instances it then mutates in place (a store through
    a held object: getattr(self, '__time').hour = value) must construct a fresh object on every path"""
    tcls = cx.cls('timex', 'Timex')
    made, stores, any_attr = {}, set(), False
    for mname, fn in tcls.methods.items():
        for n in ast.walk(fn):
            if isinstance(n, ast.Call):
                if chain(n.func) == 'setattr' and len(n.args) == 3 and not isinstance(n.args[0], ast.Name):
                    # setattr(getattr(self, '__time'), part, value): a store through a held object, attribute by name
                    name = n.args[1].value if isinstance(n.args[1], ast.Constant) else None
                    if isinstance(name, str):
                        stores.add(name)
                    else:
                        any_attr = True
                c = cx.idx.resolve_class(tcls.mod, n.func) if isinstance(n.func, (ast.Name, ast.Attribute)) else None
                if c is not None and c is not tcls and (c.mod.name == PKG or c.mod.name.startswith(PKG + '.')):
                    made.setdefault(c.qual, (c, n))
            targets = n.targets if isinstance(n, ast.Assign) else [n.target] if isinstance(n, (ast.AugAssign, ast.AnnAssign)) \
                else []
            for t in targets:
                if isinstance(t, ast.Attribute) and not isinstance(t.value, ast.Name):
                    stores.add(t.attr)
    n = 0
    for qual, (c, site) in sorted(made.items()):
        inst_attrs = set()
        for k in cx.idx.mro(c):
            for fn in k.methods.values():
                for x in ast.walk(fn):
                    if isinstance(x, ast.Attribute) and isinstance(x.ctx, ast.Store) and chain(x.value) == 'self':
                        inst_attrs.add(x.attr)
        mutated = sorted(inst_attrs if any_attr else inst_attrs & stores)
        if not mutated:
            continue
        n += 1
        construct = 'constructor of %s (Timex stores into .%s of an instance it holds)' % (c.name, ' .'.join(mutated))
        if c.node.decorator_list or c.node.keywords or c.name in c.mod.assigns:
            raise AnalysisError('%s:%d C14.fresh: class %s is decorated, has a metaclass or its name is rebound: what '
                                'calling it returns is not read' % (c.mod.rel, c.node.lineno, c.name))
        k, new = cx.idx.find_method(c, '__new__')
        if new is None:
            chk.ok('C14.fresh', c.mod.path, construct, 'no __new__: every call creates an object', c.node.lineno)
            continue
        rets = fresh_new_returns(new)
        if not rets or any(v == 'unread' for _, v, _t in rets):
            raise AnalysisError('%s:%d C14.fresh: %s.__new__ returns something this rule does not read'
                                % (k.mod.rel, new.lineno, k.name))
        stored = [(r, t) for r, v, t in rets if v == 'stored']
        if not stored:
            chk.ok('C14.fresh', k.mod.path, construct, '__new__ returns the result of object.__new__ on every path',
                   new.lineno)
        for r, t in stored:
            chk.bad('C14.fresh', k.mod.path, construct, '__new__ returns ' + t,
                    '%s.__new__ returns `%s`, an object that was stored earlier, not one created by this call: Timex keeps '
                    'the instance and its setters store into .%s in place, so two Timex objects that are handed the same '
                    'instance change each other (and __init__ runs again on it)' % (k.name, t, ' / .'.join(mutated)),
                    r.lineno)
    if not n:
        raise AnalysisError('C14.fresh: Timex no longer instantiates a class of the package whose attributes it stores '
                            'into in place (hour/minute/second plumbing restructured?)')
    ctl = ast.parse("class Time:\n    _c = {}\n    def __new__(cls, h, m, s):\n        if m == 0 and s == 0:\n"
                    "            try:\n                return cls._c[h]\n            except KeyError:\n"
                    "                cls._c[h] = super().__new__(cls)\n                return cls._c[h]\n"
                    "        return super().__new__(cls)\n").body[0].body[1]
    ctl2 = ast.parse("def __new__(cls, *a):\n    inst = object.__new__(cls)\n    inst.seen = 0\n    return inst\n").body[0]
    chk.control('C14.fresh', sorted(v for _, v, _t in fresh_new_returns(ctl)) == ['fresh', 'stored', 'stored']
                and [v for _, v, _t in fresh_new_returns(ctl2)] == ['fresh'])


def truthy_reads(fn, obj, fields):
    """(attr node, kind) for every read of obj.<field in fields> : kind 'truth' when its truth value is taken,
    'cmp' when it is compared (is None / == 0 / ...), 'value' otherwise"""
    out = []

    def expr(e, boolctx):
        if isinstance(e, ast.Attribute) and chain(e.value) == obj and e.attr in fields:
            out.append((e, 'truth' if boolctx else 'value'))
            return
        if isinstance(e, ast.BoolOp):
            for v in e.values:
                expr(v, True)
            return
        if isinstance(e, ast.UnaryOp) and isinstance(e.op, ast.Not):
            expr(e.operand, True)
            return
        if isinstance(e, ast.Compare):
            for v in [e.left] + e.comparators:
                if isinstance(v, ast.Attribute) and chain(v.value) == obj and v.attr in fields:
                    out.append((v, 'cmp'))
                else:
                    expr(v, False)
            return
        if isinstance(e, ast.IfExp):
            expr(e.test, True)
            expr(e.body, boolctx)
            expr(e.orelse, boolctx)
            return
        for ch in ast.iter_child_nodes(e):
            if isinstance(ch, ast.expr):
                expr(ch, False)
            elif isinstance(ch, ast.comprehension):
                expr(ch.iter, False)
                for c in ch.ifs:
                    expr(c, True)

    def stmt(s, predicate):
        if isinstance(s, (ast.If, ast.While)):
            expr(s.test, True)
            for x in s.body + s.orelse:
                stmt(x, predicate)
        elif isinstance(s, ast.Return):
            if s.value is not None:
                expr(s.value, predicate)
        elif isinstance(s, ast.Assert):
            expr(s.test, True)
        elif isinstance(s, (ast.For, ast.With, ast.Try)):
            for ch in ast.iter_child_nodes(s):
                if isinstance(ch, ast.stmt):
                    stmt(ch, predicate)
                elif isinstance(ch, ast.expr):
                    expr(ch, False)
        else:
            for ch in ast.iter_child_nodes(s):
                if isinstance(ch, ast.expr):
                    expr(ch, False)

    predicate = '__is_' in fn.name or fn.name.startswith('is_') or fn.name.startswith('_is_')
    for s in fn.body:
        stmt(s, predicate)
    return out


def rule_falsy_zero(cx, chk, shapes):
    # fields whose grammar admits an all-zero text and for which 0 is a valid calendar value
    admits = set()
    for s in shapes:
        for t in s.toks:
            if t.kind == 'fld' and t.conv == 'int' and t.name in ZERO_VALID:
                lang = finite_lang(t.node)
                if lang is None or any(set(w) == {'0'} for w in lang):
                    admits.add(t.name)
    if not admits and any(i.rule == 'C14.groups' and i.verdict == 'violation' for i in chk.insts):
        admits = set(ZERO_VALID)        # the time shapes were reported and dropped: use the reference fields
    if not admits:
        raise AnalysisError('no zero-admitting field found in the grammar (hour/minute/second groups vanished?)')
    n = 0
    roundtrip_ran = any(i.rule == 'C14.roundtrip' for i in chk.insts)
    for modname, clsname in (('timex_inference', 'TimexInference'), ('timex_format', 'TimexFormat')):
        c = cx.cls(modname, clsname)
        for mname, fn in c.methods.items():
            if mname.endswith('#setter') or not params_of(fn):
                continue
            ps = [p for p in params_of(fn) if p not in ('self', 'cls')]
            for obj in ps:
                for node, kind in truthy_reads(fn, obj, admits):
                    if kind == 'value':
                        continue
                    n += 1
                    construct = '%s.%s reads %s.%s' % (clsname, mname.replace('_TimexInference', ''), obj, node.attr)
                    if kind == 'truth':
                        # a truth test is a defect only where 0 and None (or 0 and non-zero) must be told apart: the
                        # shape interpreter (C14.roundtrip, run before this rule) formats every none/zero/non-zero
                        # assignment the parser can produce, so the test is blamed iff some shape with this field
                        # at zero does not round-trip; `if timex.second:` to omit a zero component is the same
                        # function as `!= 0` there and stays silent
                        lostz = [i for i in chk.insts if i.rule == 'C14.roundtrip' and i.verdict == 'violation'
                                 and re.search(r'\b%s=zero\b' % re.escape(node.attr), i.construct)]
                        if not roundtrip_ran:
                            if any(i.verdict == 'violation' for i in chk.insts):
                                chk.observe('%s takes the truth value of %s; not judged, C14.roundtrip did not run on the '
                                            'reported tree' % (construct, node.attr))
                                continue
                            raise AnalysisError('C14.falsy0 needs the verdicts of C14.roundtrip (rule order changed?)')
                        if lostz:
                            chk.bad('C14.falsy0', c.mod.path, construct, 'truth value of %s' % node.attr,
                                    'the truth value of %s.%s is taken, but 0 is a valid %s (T00:00:00) and %d shape(s) with '
                                    '%s = 0 do not round-trip (first: %s): a zero field is treated like a missing one'
                                    % (obj, node.attr, node.attr, len(lostz), node.attr, lostz[0].construct), node.lineno)
                        else:
                            chk.exempt('C14.falsy0', c.mod.path, construct,
                                       'truth value taken, but every shape with %s = 0 round-trips (C14.roundtrip): the test '
                                       'is equivalent to an explicit comparison on all shapes the parser produces' % node.attr,
                                       'truth value of %s' % node.attr, node.lineno)
                    else:
                        chk.ok('C14.falsy0', c.mod.path, construct, 'explicit comparison', node.lineno)
    # positive control
    ctl = ast.parse("def __is_time(obj):\n    return obj.hour and obj.minute is not None\n").body[0]
    fired = any(k == 'truth' for _, k in truthy_reads(ctl, 'obj', {'hour', 'minute'}))
    ctl2 = ast.parse("def format_time(t):\n    if not t.second:\n        return 'x'\n    return 'y'\n").body[0]
    fired = fired and any(k == 'truth' for _, k in truthy_reads(ctl2, 't', {'second'}))
    chk.control('C14.falsy0', fired)
    return admits


# ---------------------------------------------------------------------------------------------------

def run(chk):
    chk.explanation = ('grammar/template agreement of the TIMEX datatype: the named groups of the TimexRegex patterns, '
                       'the branches of Timex.assign_properties, and the string templates of TimexFormat.format_* are '
                       'extracted from the AST and compared token by token in both directions; parse dispatch, '
                       'constructor wiring, the shared Time object behind hour/minute/second and truthiness tests on '
                       'zero-admitting fields are checked structurally')
    chk.rule('C14.groups', 'Timex.assign_properties, run on the group dictionary of every pattern shape, stores every '
                           'named group in a field Timex defines (int for digit groups) or uses it as unit selector; it '
                           'never raises', floor=20)
    chk.rule('C14.template', 'template in grammar: every TimexFormat.format_* template is token-wise a shape of some '
                             'TimexRegex pattern (literals equal, field = group field, padded rendering in the group '
                             'language)', floor=12)
    chk.rule('C14.shape', 'grammar in templates: every shape of every TimexRegex pattern is emitted by some template '
                          'that mentions all of its groups', floor=14)
    chk.rule('C14.delegate', 'Timex.timex_value -> TimexFormat.format, Timex.types -> TimexInference.infer, every '
                             'format_* helper is used by format', floor=5)
    chk.rule('C14.dispatch', 'TimexParsing extracts only existing families, hands the result to assign_properties and '
                             'parse_string reaches every family', floor=6)
    chk.rule('C14.route', 'routing of parse_string by first/last character is consistent with the patterns of the '
                          'family that each arm extracts (three-valued, all strings of a pattern)', floor=15)
    chk.rule('C14.wiring', 'Timex.__init__ and Timex.clone store every field under its own name', floor=30)
    chk.rule('C14.from', 'from_date / from_date_time / from_time pass year,month,day,hour,minute,second homonymously',
             floor=12)
    chk.rule('C14.timeprop', 'hour/minute/second, run as properties: a value lands in its own component, the other two '
                             'start at 0, None clears the time, two objects do not share their time of day (also '
                             'when both start from the same value); Time.__init__ stores homonymously', floor=10)
    chk.rule('C14.pad', 'TimexDateHelpers.fixed_format_number, interpreted as written and tabulated over years 1..9999 at '
                        'width 4 and the two-digit fields 0..59 at width 2, yields the decimal digits left-padded with "0"',
             floor=2, control=True)
    chk.rule('C14.shared', 'no mutable default argument (object created once at definition time) is stored into an '
                           'attribute', floor=3, control=True)
    chk.rule('C14.fresh', 'a class whose instances Timex holds and stores into in place (Time behind hour/minute/second) '
                          'constructs a fresh object on every path: no __new__ that returns a stored instance', floor=1,
             control=True)
    chk.rule('C14.fromvalue', 'from_time / from_date / from_date_time, run on a grid of values, yield the canonical TIMEX',
             floor=3)
    chk.rule('C14.amount', 'the stored duration amount, as str() prints it, lies in the amount group and denotes the '
                           'parsed number (assign_properties run on probe amounts for every unit letter)', floor=5)
    chk.rule('C14.units', 'ISO 8601 designators: P<n>Y/M/W/D are stored in years/months/weeks/days, PT<n>H/M/S in '
                          'hours/minutes/seconds', floor=7)
    chk.rule('C14.split', 'parse_string, run on canonical probe strings (every shape alone, every date shape followed by '
                          'every time shape, every part-of-day code), hands exactly the components to the regex tables and '
                          'their groups to assign_properties', floor=12)
    chk.rule('C14.duration', 'concrete round trip: a Timex with one duration field set (probe amounts incl. fractions) is '
                             'formatted and parsed again by the interpreted code; the same field and amount come back',
             floor=7)
    chk.rule('C14.falsy0', 'no truthiness test on hour/minute/second in TimexInference / TimexFormat that loses a shape '
                           'with that field at 0 (blamed through the verdicts of C14.roundtrip)', floor=3,
             control=True)
    chk.assume('digit groups hold valid calendar values (the checker does not bound month to 12 etc.); only hour, '
               'minute and second can legitimately be 0')
    cx = Ctx(chk)
    rcls, fams, shapes = rule_groups_and_shapes(cx, chk)
    fcls, templates, fnames = rule_templates(cx, chk, shapes)
    rule_reach(cx, chk, fcls, fnames)
    rule_dispatch(cx, chk, fams, templates)
    rule_wiring(cx, chk)
    rule_time_plumbing(cx, chk)
    rule_shared(cx, chk)
    rule_fresh(cx, chk)
    rule_fromvalue(cx, chk)
    chk.extra['shapes'] = len(shapes)
    chk.extra['templates'] = len(templates)
    rule_split(cx, chk, fams)
    rule_duration(cx, chk)
    chk._c14 = (cx, fams, shapes, templates)
    rule_roundtrip(chk)
    rule_falsy_zero(cx, chk, shapes)        # after C14.roundtrip: it reads that rule's verdicts
    if any(i.rule == 'C14.groups' and i.verdict == 'violation' for i in chk.insts):
        # shapes with a reported violation are not carried on; floors only guard against vacuous passes and this run
        # cannot pass any more
        for rid, r in chk.rules.items():
            if rid != 'C14.groups':
                r['floor'] = 0


# ---------------------------------------------------------------------------------------------------
# thorough tier: abstract interpretation of infer -> format over None / 0 / non-zero shapes

class FV:
    """abstract value of a Timex field"""
    __slots__ = ('field', 'kind')

    def __init__(self, field, kind):
        self.field = field
        self.kind = kind          # none | zero | nz | true | false

    def __repr__(self):
        return '%s=%s' % (self.field, self.kind)


class TplV:
    """an emitted string: list of Tok (lit / fld)"""
    __slots__ = ('toks',)

    def __init__(self, toks):
        self.toks = merge_lits(toks)


class ClassRef:
    def __init__(self, c):
        self.c = c


class ModRef:
    def __init__(self, m):
        self.m = m


class FuncRef:
    """reference to a method (c = its class) or to a module-level function (c = None)"""

    def __init__(self, c, fn, mod):
        self.c, self.fn, self.mod = c, fn, mod


class ObjRef:
    def __init__(self, fields):
        self.fields = fields


class _Return(Exception):
    def __init__(self, v):
        self.v = v


class Interp:
    def __init__(self, cx):
        self.cx = cx
        self.idx = cx.idx
        self.timex_cls = cx.cls('timex', 'Timex')
        self.depth = 0

    def err(self, mod, node, msg):
        raise AnalysisError('%s:%d abstract interpreter: %s: %s' % (mod.rel, getattr(node, 'lineno', 0), msg,
                                                                     ast.unparse(node)[:80]))

    # -- values
    def truth(self, v, mod, node):
        if isinstance(v, FV):
            return v.kind in ('nz', 'true')
        if isinstance(v, TplV):
            return bool(v.toks)
        if isinstance(v, (bool, str, int, set, frozenset, tuple, list)) or v is None:
            return bool(v)
        self.err(mod, node, 'truth value of %r not modelled' % (v,))

    def to_toks(self, v, mod, node, width=None):
        if isinstance(v, FV):
            if v.kind in ('nz', 'zero'):
                return [Tok('fld', name=v.field, width=width)]
            return [Tok('lit', text='<%s of %s>' % ({'none': 'None', 'true': 'True', 'false': 'False'}[v.kind], v.field))]
        if isinstance(v, TplV):
            if width:
                self.err(mod, node, 'padding of a composed string')
            return list(v.toks)
        if isinstance(v, str):
            return [Tok('lit', text=v)] if v else []
        self.err(mod, node, 'cannot render %r' % (v,))

    # -- expressions
    def ev(self, e, env, mod):
        if isinstance(e, ast.Constant):
            return e.value
        if isinstance(e, ast.Name):
            if e.id in env:
                return env[e.id]
            r = self.idx.resolve(mod, e.id)
            if r and r[0] == 'class':
                return ClassRef(r[1])
            if r and r[0] == 'module':
                return ModRef(r[1])
            if r and r[0] == 'const':
                return const_value(self.idx, r[1], None, r[2])
            if r and r[0] == 'func':
                return FuncRef(None, r[2], r[1])
            self.err(mod, e, 'name not resolved')
        if isinstance(e, ast.Attribute):
            b = self.ev(e.value, env, mod)
            if isinstance(b, ObjRef):
                if e.attr in b.fields:
                    return b.fields[e.attr]
                fn = self.timex_cls.methods.get(e.attr)
                if fn is not None and any(chain(d) == 'property' for d in fn.decorator_list):
                    return self.call_fn(self.timex_cls, fn, [b], mod, e)
                self.err(mod, e, 'Timex has no field or property %r' % e.attr)
            if isinstance(b, ModRef):
                if e.attr in b.m.classes:
                    return ClassRef(b.m.classes[e.attr])
                r = self.idx.resolve(b.m, e.attr)
                if r and r[0] == 'class':
                    return ClassRef(r[1])
                self.err(mod, e, 'module attribute not resolved')
            if isinstance(b, ClassRef):
                k, v = self.idx.class_attr(b.c, e.attr)
                if v is not None and isinstance(v, ast.Constant):
                    return v.value
                if e.attr in b.c.methods:
                    return FuncRef(b.c, b.c.methods[e.attr], b.c.mod)
                if v is not None:
                    try:
                        return ast.literal_eval(v)
                    except (ValueError, SyntaxError):
                        pass
                self.err(mod, e, 'class attribute not a constant')
            if isinstance(b, set) and e.attr == 'add':
                return ('setadd', b)
            if isinstance(b, list) and e.attr in ('pop', 'append', 'insert', 'extend', 'reverse', 'clear'):
                return ('listm', b, e.attr)
            if isinstance(b, str) and e.attr == 'join':
                return ('strjoin', b)
            self.err(mod, e, 'attribute of %s not modelled' % type(b).__name__)
        if isinstance(e, ast.Tuple):
            return tuple(self.ev(x, env, mod) for x in e.elts)
        if isinstance(e, ast.List):
            return [self.ev(x, env, mod) for x in e.elts]
        if isinstance(e, ast.BinOp) and isinstance(e.op, ast.Add):
            a, b = self.ev(e.left, env, mod), self.ev(e.right, env, mod)
            if isinstance(a, (list, tuple)) and type(a) is type(b):
                return a + b
            if isinstance(a, int) and isinstance(b, int) and not isinstance(a, bool) and not isinstance(b, bool):
                return a + b
            if isinstance(a, (str, TplV)) and isinstance(b, (str, TplV)):
                if isinstance(a, str) and isinstance(b, str):
                    return a + b
                return TplV(self.to_toks(a, mod, e) + self.to_toks(b, mod, e))
            self.err(mod, e, 'addition of %s and %s' % (type(a).__name__, type(b).__name__))
        if isinstance(e, (ast.GeneratorExp, ast.ListComp)) and len(e.generators) == 1 and not e.generators[0].is_async \
                and isinstance(e.generators[0].target, ast.Name):
            g = e.generators[0]
            it = self.ev(g.iter, env, mod)
            if not isinstance(it, (list, tuple)) or len(it) > 200:
                self.err(mod, e, 'comprehension over something else than a list')
            out = []
            for v in it:
                env2 = dict(env)
                env2[g.target.id] = v
                if all(self.truth(self.ev(c, env2, mod), mod, c) for c in g.ifs):
                    out.append(self.ev(e.elt, env2, mod))
            return out
        if isinstance(e, ast.Subscript):
            b = self.ev(e.value, env, mod)
            if isinstance(b, (list, tuple)):
                def idx_of(n):
                    if n is None:
                        return None
                    v = self.ev(n, env, mod)
                    if not isinstance(v, int) or isinstance(v, bool):
                        self.err(mod, e, 'subscript that is not a constant integer')
                    return v
                try:
                    if isinstance(e.slice, ast.Slice):
                        return b[slice(idx_of(e.slice.lower), idx_of(e.slice.upper), idx_of(e.slice.step))]
                    return b[idx_of(e.slice)]
                except IndexError:
                    self.err(mod, e, 'index out of range')
            self.err(mod, e, 'subscript of %s' % type(b).__name__)
        if isinstance(e, ast.UnaryOp) and isinstance(e.op, ast.USub) and isinstance(e.operand, ast.Constant) \
                and isinstance(e.operand.value, int):
            return -e.operand.value
        if isinstance(e, ast.BoolOp):
            v = None
            for x in e.values:
                v = self.ev(x, env, mod)
                t = self.truth(v, mod, x)
                if isinstance(e.op, ast.And) and not t:
                    return v
                if isinstance(e.op, ast.Or) and t:
                    return v
            return v
        if isinstance(e, ast.UnaryOp) and isinstance(e.op, ast.Not):
            return not self.truth(self.ev(e.operand, env, mod), mod, e.operand)
        if isinstance(e, ast.IfExp):
            return self.ev(e.body if self.truth(self.ev(e.test, env, mod), mod, e.test) else e.orelse, env, mod)
        if isinstance(e, ast.Compare):
            left = self.ev(e.left, env, mod)
            for op, rn in zip(e.ops, e.comparators):
                right = self.ev(rn, env, mod)
                r = self.cmp(left, op, right, mod, e)
                if not r:
                    return False
                left = right
            return True
        if isinstance(e, ast.JoinedStr):
            toks = []
            for p in e.values:
                if isinstance(p, ast.Constant):
                    toks.append(Tok('lit', text=p.value))
                else:
                    w = None
                    if p.format_spec is not None:
                        w = spec_width(''.join(x.value for x in p.format_spec.values if isinstance(x, ast.Constant)))
                    toks.extend(self.to_toks(self.ev(p.value, env, mod), mod, p, w))
            return TplV(toks)
        if isinstance(e, ast.Call):
            return self.call(e, env, mod)
        self.err(mod, e, 'expression %s not modelled' % type(e).__name__)

    def cmp(self, a, op, b, mod, node):
        if isinstance(op, (ast.In, ast.NotIn)):
            if not isinstance(b, (set, frozenset, tuple, list)):
                self.err(mod, node, 'membership in %s' % type(b).__name__)
            r = a in b
            return r if isinstance(op, ast.In) else not r
        if isinstance(a, FV) and not isinstance(b, FV):
            conc = {'none': None, 'zero': 0, 'true': True, 'false': False}
            if isinstance(op, (ast.Is, ast.IsNot)):
                if a.kind == 'nz':
                    r = False
                    if b not in (None, True, False):
                        self.err(mod, node, 'identity with a non-singleton')
                else:
                    r = conc[a.kind] is b if not isinstance(b, int) or isinstance(b, bool) else False
                return r if isinstance(op, ast.Is) else not r
            if isinstance(op, (ast.Eq, ast.NotEq)):
                if a.kind == 'nz':
                    if b is None or b == 0 or b is False:
                        r = False
                    else:
                        self.err(mod, node, 'comparison of a non-zero field with %r needs its value' % (b,))
                else:
                    r = conc[a.kind] == b
                return r if isinstance(op, ast.Eq) else not r
            self.err(mod, node, 'ordering comparison on an abstract field')
        if isinstance(b, FV):
            flip = {ast.Eq: ast.Eq, ast.NotEq: ast.NotEq, ast.Is: ast.Is, ast.IsNot: ast.IsNot}.get(type(op))
            if flip is None or isinstance(a, FV):
                self.err(mod, node, 'comparison between abstract fields')
            return self.cmp(b, op, a, mod, node)
        if isinstance(a, (TplV, ObjRef, ClassRef, ModRef)) or isinstance(b, (TplV, ObjRef, ClassRef, ModRef)):
            self.err(mod, node, 'comparison not modelled')
        if isinstance(op, ast.Eq):
            return a == b
        if isinstance(op, ast.NotEq):
            return a != b
        if isinstance(op, ast.Is):
            return a is b
        if isinstance(op, ast.IsNot):
            return a is not b
        self.err(mod, node, 'comparison operator not modelled')

    def call(self, e, env, mod):
        f = e.func
        # '<tpl>'.format(...)  (the template may be a literal or a value taken from a table)
        tpl = None
        if isinstance(f, ast.Attribute) and f.attr == 'format':
            tpl = const_str(f.value)
            if tpl is None:
                base = self.ev(f.value, env, mod)
                tpl = base if isinstance(base, str) else None
        if tpl is not None:
            if e.keywords:
                self.err(mod, e, 'keyword arguments to str.format')
            args = [self.ev(a, env, mod) for a in e.args]
            toks, auto = [], 0
            for lit, fname, spec, conv in string.Formatter().parse(tpl):
                if lit:
                    toks.append(Tok('lit', text=lit))
                if fname is None:
                    continue
                if fname == '':
                    i, auto = auto, auto + 1
                elif fname.isdigit():
                    i = int(fname)
                else:
                    self.err(mod, e, 'named placeholder')
                toks.extend(self.to_toks(args[i], mod, e, spec_width(spec)))
            return TplV(toks)
        ch = chain(f) or ''
        if ch == 'set' and not e.args:
            return set()
        if ch == 'getattr' and len(e.args) in (2, 3) and not e.keywords:
            o = self.ev(e.args[0], env, mod)
            nm = self.ev(e.args[1], env, mod)
            if isinstance(o, ObjRef) and isinstance(nm, str):
                if nm in o.fields:
                    return o.fields[nm]
                if len(e.args) == 3:
                    return self.ev(e.args[2], env, mod)
                self.err(mod, e, 'Timex has no field %r' % nm)
            self.err(mod, e, 'getattr on something else than the object')
        if ch == 'len' and len(e.args) == 1:
            v = self.ev(e.args[0], env, mod)
            if isinstance(v, (set, frozenset, tuple, list, str)):
                return len(v)
            self.err(mod, e, 'len of %s' % type(v).__name__)
        if ch == 'str' and len(e.args) == 1:
            v = self.ev(e.args[0], env, mod)
            return TplV(self.to_toks(v, mod, e))
        fv = self.ev(f, env, mod)
        args = [self.ev(a, env, mod) for a in e.args]
        if e.keywords:
            self.err(mod, e, 'keyword arguments')
        if isinstance(fv, tuple) and fv[0] == 'setadd':
            fv[1].add(args[0])
            return None
        if isinstance(fv, tuple) and fv and fv[0] == 'listm':
            lst, name = fv[1], fv[2]
            try:
                if name == 'pop' and len(args) <= 1 and all(isinstance(a, int) for a in args):
                    return lst.pop(*args)
                if name == 'append' and len(args) == 1:
                    return lst.append(args[0])
                if name == 'extend' and len(args) == 1 and isinstance(args[0], (list, tuple)):
                    return lst.extend(args[0])
                if name == 'insert' and len(args) == 2 and isinstance(args[0], int):
                    return lst.insert(args[0], args[1])
                if name in ('reverse', 'clear') and not args:
                    return getattr(lst, name)()
            except IndexError:
                self.err(mod, e, 'pop from an empty list')
            self.err(mod, e, 'list.%s with these arguments' % name)
        if isinstance(fv, tuple) and fv and fv[0] == 'strjoin':
            if len(args) != 1 or not isinstance(args[0], (list, tuple)):
                self.err(mod, e, 'str.join over something else than a list')
            toks = []
            for i, part in enumerate(args[0]):
                if not isinstance(part, (str, TplV)):
                    self.err(mod, e, 'str.join of %s' % type(part).__name__)     # Python raises TypeError for non-strings
                if i and fv[1]:
                    toks.append(Tok('lit', text=fv[1]))
                toks.extend(self.to_toks(part, mod, e))
            return TplV(toks)
        if isinstance(fv, FuncRef):
            c, fn = fv.c, fv.fn
            if c is not None and fn.name == 'fixed_format_number' and len(args) == 2 and isinstance(args[1], int):
                return TplV(self.to_toks(args[0], mod, e, args[1]))   # body checked by C14.pad
            return self.call_fn(c, fn, args, mod, e, fv.mod)
        self.err(mod, e, 'call of %s not modelled' % type(fv).__name__)

    def call_fn(self, c, fn, args, mod, node, fmod=None):
        fmod = fmod or (c.mod if c is not None else mod)
        self.depth += 1
        if self.depth > 12:
            self.err(mod, node, 'recursion too deep')
        try:
            ps = params_of(fn)
            if c is not None and not any(chain(d) in ('staticmethod',) for d in fn.decorator_list) and ps \
                    and ps[0] in ('self', 'cls') and len(args) == len(ps) - 1:
                args = [ClassRef(c)] + list(args)
            if len(args) != len(ps):
                self.err(mod, node, 'arity of %s' % fn.name)
            env = dict(zip(ps, args))
            try:
                self.block(fn.body, env, fmod)
            except _Return as r:
                return r.v
            return None
        finally:
            self.depth -= 1

    def block(self, stmts, env, mod):
        for st in stmts:
            if isinstance(st, ast.Return):
                raise _Return(self.ev(st.value, env, mod) if st.value is not None else None)
            if isinstance(st, ast.If):
                self.block(st.body if self.truth(self.ev(st.test, env, mod), mod, st.test) else st.orelse, env, mod)
            elif isinstance(st, ast.Assign) and len(st.targets) == 1 and isinstance(st.targets[0], ast.Name):
                env[st.targets[0].id] = self.ev(st.value, env, mod)
            elif isinstance(st, ast.AugAssign) and isinstance(st.target, ast.Name):
                # `x += e` on a local is `x = x + e` (strings / templates are immutable values here; lists are rebuilt
                # by ev, so no aliasing is lost); operators other than those ev models fail closed there
                if st.target.id not in env:
                    self.err(mod, st, 'augmented assignment to the unbound local %s' % st.target.id)
                both = ast.copy_location(ast.BinOp(left=ast.copy_location(ast.Name(id=st.target.id, ctx=ast.Load()), st),
                                                   op=st.op, right=st.value), st)
                env[st.target.id] = self.ev(both, env, mod)
            elif isinstance(st, ast.Expr):
                if isinstance(st.value, ast.Constant):
                    continue
                self.ev(st.value, env, mod)
            elif isinstance(st, ast.For) and not st.orelse:
                it = self.ev(st.iter, env, mod)
                if not isinstance(it, (tuple, list)) or len(it) > 200:
                    self.err(mod, st, 'loop over something else than a literal table')
                for v in it:
                    if isinstance(st.target, ast.Name):
                        env[st.target.id] = v
                    elif isinstance(st.target, ast.Tuple) and all(isinstance(x, ast.Name) for x in st.target.elts) \
                            and isinstance(v, (tuple, list)) and len(v) == len(st.target.elts):
                        for x, vv in zip(st.target.elts, v):
                            env[x.id] = vv
                    else:
                        self.err(mod, st, 'loop target')
                    self.block(st.body, env, mod)
            elif isinstance(st, (ast.Pass, ast.Import, ast.ImportFrom)):
                continue
            else:
                self.err(mod, st, 'statement %s not modelled' % type(st).__name__)


def abstract_object(cx, init_defaults, sets):
    fields = {}
    for p, d in init_defaults.items():
        if isinstance(d, ast.Constant) and d.value is None:
            fields[p] = FV(p, 'none')
        elif isinstance(d, ast.Constant) and d.value is False:
            fields[p] = FV(p, 'false')
        elif isinstance(d, ast.Constant) and d.value is True:
            fields[p] = FV(p, 'true')
        else:
            raise AnalysisError('Timex.__init__: default of %s not modelled' % p)
    for f, k in sets.items():
        if f not in fields:
            raise AnalysisError('grammar writes field %r which Timex.__init__ does not define' % f)
        fields[f] = FV(f, k)
    # shared Time object (C14.timeprop): setting one component creates the object with the others 0
    if any(fields[x].kind != 'none' for x in ZERO_VALID if x in fields):
        for x in ZERO_VALID:
            if fields[x].kind == 'none':
                fields[x] = FV(x, 'zero')
    return ObjRef(fields)


def thorough(chk):
    """nothing beyond the quick tier: the abstract round trip is cheap enough to run always"""
    return None


def rule_roundtrip(chk):
    cx, fams, shapes, templates = chk._c14
    chk.rule('C14.roundtrip', 'abstract round trip: for every grammar shape (and date x time combination) and every '
                              'None/0/non-zero assignment the parser can produce, infer -> format emits exactly the '
                              'canonical shape of the input (T hh:00[:00] -> T hh)', floor=40)
    if any(x.rule == 'C14.groups' and x.verdict == 'violation' for x in chk.insts):
        chk.rules['C14.roundtrip']['floor'] = 0          # some shapes were already reported and dropped
    init = cx.meth('timex', 'Timex', '__init__')
    ps = params_of(init)[1:]
    defaults = dict(zip(ps[len(ps) - len(init.args.defaults):], init.args.defaults))
    defaults.pop('timex', None)
    it = Interp(cx)
    fmt_cls = cx.cls('timex_format', 'TimexFormat')
    inf_cls = cx.cls('timex_inference', 'TimexInference')
    fmt = cx.meth('timex_format', 'TimexFormat', 'format')
    infer = cx.meth('timex_inference', 'TimexInference', 'infer')
    date_const = cx.idx.class_attr(cx.cls('timex_constants', 'Constants'), 'TIMEX_TYPES_DATE')[1]
    if not isinstance(date_const, ast.Constant):
        raise AnalysisError('anchor vanished: Constants.TIMEX_TYPES_DATE')

    uniq = {}
    for s in shapes:
        uniq.setdefault((s.fam, s.nf()), s)
    ushapes = list(uniq.values())

    def sets_of(toks, flags):
        base = {}
        for t in toks:
            if t.kind == 'fld':
                base[t.name] = 'nz'
        for f in flags:
            base[f] = 'true'
        return base

    def variants(base):
        zf = [f for f in ZERO_VALID if f in base]
        for combo in itertools.product(('nz', 'zero'), repeat=len(zf)):
            d = dict(base)
            d.update(zip(zf, combo))
            yield d

    def canonical_fields(sets):
        obj = abstract_object(cx, defaults, sets).fields
        fs = {f for f, k in sets.items() if k in ('nz', 'zero')}
        if 'hour' in fs or 'minute' in fs or 'second' in fs:
            fs |= set(ZERO_VALID)
            if obj['second'].kind == 'zero':
                fs.discard('second')
                if obj['minute'].kind == 'zero':
                    fs.discard('minute')
        return fs

    def run_one(construct, sets, parts, line, observe_only=False):
        """parts: list of families in order (['date'] / ['time'] / ['date','time'])"""
        obj = abstract_object(cx, defaults, sets)
        out = it.call_fn(fmt_cls, fmt, [obj], fmt_cls.mod, fmt)
        toks = it.to_toks(out, fmt_cls.mod, fmt) if not isinstance(out, TplV) else out.toks
        toks = merge_lits(toks)
        want_fields = canonical_fields(sets)
        flags = {f for f, k in sets.items() if k == 'true'}
        # candidate canonical shapes: concatenations of one shape per part with the wanted field set
        cands = []
        pools = [[s for s in ushapes if s.fam == fam] for fam in parts]
        for combo in itertools.product(*pools):
            ftoks = [t for s in combo for t in s.toks]
            fl = set().union(*[s.flags for s in combo])
            names = {t.name for t in ftoks if t.kind == 'fld'}
            if names == want_fields and fl == flags:
                cands.append(Shape('+'.join(parts), ' + '.join(s.src for s in combo), line, merge_lits(ftoks), fl, []))
        state = ','.join('%s=%s' % (f, sets[f]) for f in sorted(sets) if f in ZERO_VALID) or '-'
        got = nf_tokens(toks) if toks else "''"
        if not cands and observe_only:
            return
        if not cands:
            chk.bad('C14.roundtrip', cx.mods['timex_regex'].path, construct + ' [' + state + ']', got,
                    'no grammar shape carries exactly the canonical fields {%s}' % ','.join(sorted(want_fields)), line)
            return
        for c in cands:
            ok, why = align(toks, c)
            if ok:
                chk.ok('C14.roundtrip', cx.mods['timex_regex'].path, construct + ' [' + state + ']', got, line)
                return
        ok, why = align(toks, cands[0])
        if observe_only:
            lost.setdefault(construct, (got, cands[0].nf()))
            return
        chk.bad('C14.roundtrip', cx.mods['timex_regex'].path, construct + ' [' + state + ']', got,
                'parsing a string of this shape and formatting it again yields %s, expected the form %s (%s)'
                % (got, cands[0].nf(), why), line)

    is_date, is_range = [], []
    lost = {}
    range_const = cx.idx.class_attr(cx.cls('timex_constants', 'Constants'), 'TIMEX_TYPES_DATERANGE')[1]
    if not isinstance(range_const, ast.Constant):
        raise AnalysisError('anchor vanished: Constants.TIMEX_TYPES_DATERANGE')
    for s in ushapes:
        base = sets_of(s.toks, s.flags)
        for sets in variants(base):
            run_one("TimexRegex['%s'] %s" % (s.fam, s.nf()), sets, [s.fam], s.line)
        if s.fam != 'time' and s.fam != 'period':
            obj = abstract_object(cx, defaults, base)
            types = it.call_fn(inf_cls, infer, [obj], inf_cls.mod, infer)
            if not isinstance(types, set):
                raise AnalysisError('TimexInference.infer did not yield a set')
            if date_const.value in types and range_const.value not in types:
                is_date.append(s)
            elif date_const.value in types:
                is_range.append(s)
    if not is_date:
        raise AnalysisError('no grammar shape is inferred as a date: date x time combinations cannot be formed')
    # date x time: a date is a shape inferred as 'date' and not as 'daterange'; shapes that are both (week-of-month
    # with weekday) are run as well, but a lost time part is only an observation there
    for d in is_date + is_range:
        for t in ushapes:
            if t.fam != 'time':
                continue
            base = sets_of(d.toks + t.toks, d.flags | t.flags)
            for sets in variants(base):
                run_one("TimexRegex['%s'] %s + ['time'] %s" % (d.fam, d.nf(), t.nf()), sets, [d.fam, 'time'], d.line,
                        observe_only=d in is_range)
    for construct, (got, want) in sorted(lost.items()):
        chk.observe('%s: formats to %s, not to %s (shape is both date and daterange; outside the date x time '
                    'combinations the property names)' % (construct, got, want))
    chk.exhaustive = True
    chk.extra['abstract_objects'] = chk.rules['C14.roundtrip']['n']
