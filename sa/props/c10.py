"""C10 - durations and explicit ranges are arithmetically self-consistent.

Decided (necessary conditions):
  C10.wiring     unit_map / unit_value_map / duration patterns of every culture's duration parser configuration resolve
                 to evaluated resource constants
  C10.lexicon    reference unit words (second..year) that the culture's duration patterns capture map to the right
                 TIMEX unit letter and the right number of seconds
  C10.seconds    for every spelling the duration patterns capture (witness input): the seconds value denotes the same
                 unit as the TIMEX letter (Y 31536000, MON 2592000, W 604800, D 86400, H 3600, M 60, S 1; multiples kMON
                 etc. as k times the base)
  C10.letter     the designator emitted for a unit letter (unit[0], 'T' iff is_less_than_day) is the ISO-8601 one;
                 is_less_than_day / is_time_duration_unit hold exactly for H, M, S
  C10.assembly   every copy of the TIMEX/seconds assembly in BaseDurationParser has the reference normal form and the
                 copies agree (TIMEX from unit_map[source_unit], seconds from unit_value_map[source_unit], same num)
  C10.span-seconds  field-wise PT..H..M..S durations of two clock times given to the second are the canonical split of
                 end - start (tabulated over second borrow x minute difference x hour wrap), seconds of a span with a
                 zero minute component included
  C10.year-span  hand-assembled (start,end,P{n}Y) year ranges name the stored dates and start + n years = end, for two-
                 and four-digit years (self-consistency; the century pivot itself is not decided)
  C10.timespan   luis_time_span and generate_date_period_timex_unit_count, interpreted on sample ranges, give the
                 duration of (end - start); the period-type -> suffix table is D/W/M/Y
"""
import ast
import datetime as _dt

from .. import rx
from ..core import AnalysisError
from ..index import get_index
from .c06 import CULTURES, DT, PyPattern, Wiring, _callee_name, _is_name, class_consts
from .c08 import MiniEval, Obj, Undetermined
from .c08 import _Return as _ReturnSignal

LEVEL = 'other'
DESIGN_REF = 'DESIGN.md#c10'

SEC = {'Y': 31536000, 'MON': 2592000, 'W': 604800, 'D': 86400, 'H': 3600, 'M': 60, 'S': 1}
# ISO-8601 duration designator (with the time marker) the TIMEX must carry for each unit letter
DESIGNATOR = {'Y': 'Y', 'MON': 'M', 'W': 'W', 'D': 'D', 'H': 'TH', 'M': 'TM', 'S': 'TS'}

PATTERN_PROPS = ('followed_unit', 'number_combined_with_unit', 'an_unit_regex', 'inexact_number_unit_regex',
                 'all_date_unit_regex', 'half_date_unit_regex')


def _units(**kw):
    out = {}
    for letter, words in kw.items():
        for w in words.split('|'):
            out[w] = letter
    return out


# reference unit vocabulary second..year (independent of the repository)
UNIT_WORDS = {
    'english': _units(S='second|seconds|sec|secs', M='minute|minutes|min|mins', H='hour|hours|hr|hrs|h', D='day|days',
                      W='week|weeks', MON='month|months', Y='year|years'),
    'spanish': _units(S='segundo|segundos', M='minuto|minutos', H='hora|horas', D='día|días|dia|dias', W='semana|semanas',
                      MON='mes|meses', Y='año|años'),
    'french': _units(S='seconde|secondes', M='minute|minutes', H='heure|heures|h', D='jour|jours', W='semaine|semaines',
                     MON='mois', Y='an|ans|année|années'),
    'portuguese': _units(S='segundo|segundos', M='minuto|minutos', H='hora|horas', D='dia|dias', W='semana|semanas',
                         MON='mês|meses', Y='ano|anos'),
    'german': _units(S='sekunde|sekunden', M='minute|minuten', H='stunde|stunden', D='tag|tage|tagen', W='woche|wochen',
                     MON='monat|monate|monaten', Y='jahr|jahre|jahren'),
    'italian': _units(S='secondo|secondi', M='minuto|minuti', H='ora|ore', D='giorno|giorni', W='settimana|settimane',
                      MON='mese|mesi', Y='anno|anni'),
    'dutch': _units(S='seconde|seconden', M='minuut|minuten', H='uur|uren', D='dag|dagen', W='week|weken',
                    MON='maand|maanden', Y='jaar|jaren'),
}


def split_letter(L):
    """'10Y' -> (10, 'Y'); 'MON' -> (1, 'MON'); unknown -> None"""
    i = 0
    while i < len(L) and L[i].isdigit():
        i += 1
    base = L[i:]
    if base not in SEC:
        return None
    return (int(L[:i]) if i else 1), base


class DurationPatterns:
    def __init__(self, W, cfg):
        self.items = {}
        self.refused = []
        for prop in PATTERN_PROPS:
            vals = W.patterns(cfg, prop)
            if len(vals) != 1:
                raise AnalysisError('wiring: %s.%s is not a single pattern' % (cfg.name, prop))
            v = vals[0]
            try:
                tree = rx.parse(v.value)
            except rx.RxError as e:
                raise AnalysisError('%s: pattern not readable: %s' % (v.label, e))
            try:
                pp = PyPattern(v.value)
            except rx.RxError as e:
                pp = None
                self.refused.append('%s (%s)' % (v.label, e))
            self.items[prop] = (v, tree, pp)

    def language(self):
        words = set()
        for prop, (v, tree, pp) in self.items.items():
            for g in rx.find_group(tree, 'unit'):
                try:
                    words |= rx.enumerate_language(g, limit=100000, fold_case=True)
                except rx.RxError as e:
                    raise AnalysisError('%s: language of the `unit` group not enumerable: %s' % (v.label, e))
        return words

    def witness(self, k):
        """(input, pattern label): parse_number_space_unit searches followed_unit in the text after the number,
        parse_number_combined_unit searches number_combined_with_unit in the whole text"""
        for prop, ctx in (('followed_unit', '{k}'), ('number_combined_with_unit', '3{k}')):
            v, tree, pp = self.items[prop]
            if pp is None:
                continue
            s = ctx.format(k=k)
            m = pp.re.search(s)
            if m and pp.group(m, 'unit') == k:
                return ('3 ' + s if prop == 'followed_unit' else s), v.label
        return None


# ---- assembly normal form --------------------------------------------------------------------------------------

def _inline(expr, defs, depth=0):
    """substitute single-assigned locals by their definitions (bounded)"""
    if depth > 6:
        return expr

    class T(ast.NodeTransformer):
        def visit_Name(self, n):
            if isinstance(n.ctx, ast.Load) and n.id in defs and defs[n.id] is not None:
                return _inline(defs[n.id], defs, depth + 1)
            return n
    import copy
    return T().visit(copy.deepcopy(expr))


def _norm_text(expr, consts, rename=None):
    """unparse with Constants.X replaced by their values, get_group(m, X) / m.group(X) unified and the locals in
    `rename` given their canonical names"""
    class T(ast.NodeTransformer):
        def visit_Name(self, n):
            if rename and n.id in rename:
                return ast.Name(id=rename[n.id], ctx=n.ctx)
            return n

        def visit_Attribute(self, n):
            self.generic_visit(n)
            if isinstance(n.value, ast.Name) and n.value.id == 'Constants' and n.attr in consts:
                return ast.Constant(value=consts[n.attr])
            return n

        def visit_BoolOp(self, n):
            self.generic_visit(n)
            # `m.group(UNIT) or ''`  ->  m.group(UNIT)
            if isinstance(n.op, ast.Or) and len(n.values) == 2 and isinstance(n.values[1], ast.Constant) and n.values[1].value == '':
                return n.values[0]
            return n

        def visit_Call(self, n):
            self.generic_visit(n)
            if _callee_name(n) == 'get_group' and len(n.args) == 2:
                return ast.Call(func=ast.Attribute(value=n.args[0], attr='group', ctx=ast.Load()), args=[n.args[1]], keywords=[])
            if _callee_name(n) == 'float_or_int' and len(n.args) == 1:
                return n.args[0]
            return n
    import copy
    t = T().visit(copy.deepcopy(expr))
    ast.fix_missing_locations(t)
    return ast.unparse(t)


def assembly_copies(cls, consts):
    """every method of BaseDurationParser that assigns result.timex from an f-string:
    [(method, {timex, value, unit, guard, is_time}, lineno)] in normal form"""
    out = []
    for name, fn in cls.methods.items():
        timex_as = [n for n in ast.walk(fn) if isinstance(n, ast.Assign) and isinstance(n.targets[0], ast.Attribute)
                    and n.targets[0].attr == 'timex' and isinstance(n.value, ast.JoinedStr)]
        if not timex_as:
            continue
        if len(timex_as) != 1:
            raise AnalysisError('%s.%s: %d TIMEX assemblies in one method' % (cls.name, name, len(timex_as)))
        # single-assigned locals, except `num` (legitimately re-assigned through float_or_int) and match objects
        counts, defs = {}, {}
        for n in ast.walk(fn):
            if isinstance(n, ast.Assign) and len(n.targets) == 1 and isinstance(n.targets[0], ast.Name):
                counts[n.targets[0].id] = counts.get(n.targets[0].id, 0) + 1
                defs[n.targets[0].id] = n.value
            elif isinstance(n, ast.AnnAssign) and n.value is not None and isinstance(n.target, ast.Name):
                counts[n.target.id] = counts.get(n.target.id, 0) + 1
                defs[n.target.id] = n.value
        # the unit spelling local: what unit_map is subscripted with
        keep = {}
        for k, v in defs.items():
            if counts[k] != 1:
                continue
            if (isinstance(v, ast.Subscript) and ast.unparse(v.value).endswith('config.unit_map')) \
                    or isinstance(v, (ast.IfExp, ast.Constant)):
                keep[k] = v
        fv = [n for n in ast.walk(fn) if isinstance(n, ast.Assign) and isinstance(n.targets[0], ast.Attribute)
              and n.targets[0].attr == 'future_value']
        pv = [n for n in ast.walk(fn) if isinstance(n, ast.Assign) and isinstance(n.targets[0], ast.Attribute)
              and n.targets[0].attr == 'past_value']
        if len(fv) != 1 or len(pv) != 1:
            raise AnalysisError('%s.%s: value assignments not recognised' % (cls.name, name))
        fvals = [p for p in timex_as[0].value.values if isinstance(p, ast.FormattedValue)]
        ren = {}
        if len(fvals) >= 2 and isinstance(fvals[-2].value, ast.Name) and fvals[-2].value.id not in keep:
            ren[fvals[-2].value.id] = 'num'          # the number local, whatever it is called
        form = {
            'timex': _norm_text(_inline(timex_as[0].value, keep), consts, ren),
            'value': _norm_text(_inline(fv[0].value, keep), consts, ren),
            'past': _norm_text(pv[0].value, consts),
        }
        # the guard `if <spelling> not in self.config.unit_map: return`
        guards = []
        for n in ast.walk(fn):
            if isinstance(n, ast.If) and isinstance(n.test, ast.Compare) and len(n.test.ops) == 1 \
                    and isinstance(n.test.ops[0], ast.NotIn) and ast.unparse(n.test.comparators[0]).endswith('config.unit_map') \
                    and any(isinstance(b, ast.Return) for b in n.body):
                guards.append(ast.unparse(n.test.left))
        form['guard'] = ','.join(sorted(set(guards)))
        # where the spelling comes from
        sp = None
        for n in ast.walk(_inline(timex_as[0].value, keep)):
            if isinstance(n, ast.Subscript) and ast.unparse(n.value).endswith('config.unit_map'):
                sp = ast.unparse(n.slice)
        form['spelling'] = sp
        src = None
        if sp in defs:
            srcs = [_norm_text(n.value, consts) for n in ast.walk(fn)
                    if ((isinstance(n, ast.Assign) and len(n.targets) == 1 and _is_name(n.targets[0], sp))
                        or (isinstance(n, ast.AnnAssign) and n.value is not None and _is_name(n.target, sp)))
                    and not (isinstance(n.value, ast.Constant))]
            src = '|'.join(sorted(set(srcs)))
        form['source'] = src
        out.append((name, form, timex_as[0].lineno))
    return out


def number_source(fn, num_name):
    """where the number of the TIMEX comes from: 'parser' (number parser on the text before the unit: the plain
    "N <unit>" form), 'regex-group' (glued number+unit pattern), 'none' (constant / no number in the form)"""
    locals_ = {}
    for n in ast.walk(fn):
        if isinstance(n, ast.Assign) and len(n.targets) == 1 and isinstance(n.targets[0], ast.Name):
            locals_.setdefault(n.targets[0].id, []).append(n.value)
    first = None
    for st in fn.body:
        if isinstance(st, ast.Assign) and len(st.targets) == 1 and _is_name(st.targets[0], num_name):
            first = st
            break
    if first is None:
        return 'none', None
    names = {x.id for x in ast.walk(first.value) if isinstance(x, ast.Name)}
    for nm in names:
        for v in locals_.get(nm, []):
            if isinstance(v, ast.Call) and _callee_name(v) == 'parse' and 'number_parser' in ast.unparse(v.func):
                return 'parser', first
    for c in ast.walk(first.value):
        if isinstance(c, ast.Call) and _callee_name(c) in ('group', 'get_group') and c.args \
                and ast.unparse(c.args[-1]).endswith(('Constants.NUM', "'num'")):
            return 'regex-group', first
    return 'none', first


def range_guard_cases(idx, cls, fn, num_name, sp_name, first_assign, consts):
    """interpret the statements between the first assignment of the number and the TIMEX assembly for
    N in {1, 1000, 1001, 5000} x every unit letter -> {letter: [N that make the method return early]}"""
    body = fn.body
    start = body.index(first_assign) + 1
    end = None
    for i, st in enumerate(body):
        if isinstance(st, ast.Assign) and isinstance(st.targets[0], ast.Attribute) and st.targets[0].attr == 'timex':
            end = i
    if end is None:
        loc = assembly_locals(fn, cls, idx)      # the assembly is delegated to a helper: stop in front of that call
        end = loc[3] if loc else None
    if end is None or end < start:
        raise AnalysisError('%s.%s: TIMEX assembly is not a top-level statement after the number' % (cls.name, fn.name))
    aborted = {}
    for L in SEC:
        aborted[L] = []
        for N in (1, 1000, 1001, 5000):
            def res(node, L=L):
                if isinstance(node, ast.Attribute):
                    if isinstance(node.value, ast.Name) and node.value.id == 'Constants' and node.attr in consts:
                        return consts[node.attr]
                    txt = ast.unparse(node)
                    if txt.endswith('config.unit_map'):
                        return {'<spelling>': L}
                    if txt.endswith('config.unit_value_map'):
                        return {'<spelling>': SEC[L]}
                raise Undetermined('attribute %s' % ast.unparse(node)[:40])
            ev = MiniEval(idx, cls, res)
            env = {num_name: float(N), sp_name: '<spelling>', 'result': '<unresolved result>'}
            for st in body[start:end]:
                try:
                    ev.block([st], env)
                except _ReturnSignal:
                    aborted[L].append(N)
                    break
                except Undetermined as e:
                    if any(isinstance(x, ast.Return) for x in ast.walk(st)):
                        raise AnalysisError('%s.%s: abort condition cannot be interpreted (%s): %s'
                                            % (cls.name, fn.name, e, ast.unparse(st)[:80]))
                    continue
    return aborted


_RANGE_CONTROL = '''
class P:
    def parse_number_space_unit(self, source):
        result = R()
        pr = self.config.number_parser.parse(er)
        source_unit = RegExpUtility.get_group(match, Constants.UNIT)
        num = float(pr.value) + 0
        unit = self.config.unit_map[source_unit]
        if num > 1000 and unit in [Constants.UNIT_Y, Constants.UNIT_MON, Constants.UNIT_W]:
            return result
        result.timex = f'P{num}{unit[0]}'
        return result
'''


def ampm_tabulate(idx, cls, fn):
    """tabulate the am/pm adjustment of the 'both endpoints carry am/pm' branch of parse_specific_time:
    {(endpoint, 'am'|'pm'): {hour 1..12: resulting hour}} ; endpoint = 'begin' | 'end'"""
    defs = {}
    for n in ast.walk(fn):
        if isinstance(n, ast.Assign) and len(n.targets) == 1 and isinstance(n.targets[0], ast.Name):
            defs.setdefault(n.targets[0].id, []).append(n.value)
    # (datetime local, hour local) pairs in source order: begin, end
    pairs = []
    for st in fn.body:
        if isinstance(st, ast.Assign) and len(st.targets) == 1 and isinstance(st.targets[0], ast.Name) \
                and isinstance(st.value, ast.Call) and _callee_name(st.value) == 'datetime':
            hv = [k.value for k in st.value.keywords if k.arg == 'hour']
            if not hv and len(st.value.args) >= 4:
                hv = [st.value.args[3]]
            if hv and isinstance(hv[0], ast.Name):
                pairs.append((st.targets[0].id, hv[0].id))
    if len(pairs) != 2:
        raise AnalysisError('%s.%s: begin/end datetime construction not recognised (%s)' % (cls.name, fn.name, pairs))
    # am / pm flags: locals defined as  <desc> != '' and <desc>.startswith('a' | 'p')
    flags = {}
    for name, vs in defs.items():
        if len(vs) != 1:
            continue
        for c in ast.walk(vs[0]):
            if isinstance(c, ast.Call) and _callee_name(c) == 'startswith' and c.args and isinstance(c.args[0], ast.Constant) \
                    and c.args[0].value in ('a', 'p') and isinstance(c.func.value, ast.Name):
                flags[name] = (c.func.value.id, 'am' if c.args[0].value == 'a' else 'pm')
    descs = []
    for name, (d, k) in flags.items():
        if d not in descs:
            descs.append(d)
    if len(descs) != 2 or len(flags) != 4:
        raise AnalysisError('%s.%s: am/pm flag locals not recognised (%s)' % (cls.name, fn.name, flags))
    # order the description locals by first assignment: left, right
    first_line = {}
    for n in ast.walk(fn):
        t = n.targets[0] if isinstance(n, ast.Assign) and len(n.targets) == 1 else (n.target if isinstance(n, ast.AnnAssign) else None)
        if isinstance(t, ast.Name) and t.id in descs:
            first_line[t.id] = min(first_line.get(t.id, n.lineno), n.lineno)
    descs.sort(key=lambda d: first_line.get(d, 0))
    side = {descs[0]: 'begin', descs[1]: 'end'}
    # combined flags  has_left = has_left_am or has_left_pm
    combined = {}
    for name, vs in defs.items():
        if len(vs) == 1 and isinstance(vs[0], ast.BoolOp) and isinstance(vs[0].op, ast.Or) and all(isinstance(x, ast.Name) and x.id in flags for x in vs[0].values):
            sides = {side[flags[x.id][0]] for x in vs[0].values}
            if len(sides) == 1:
                combined[name] = sides.pop()
    branch = None
    for st in fn.body:
        if isinstance(st, ast.If) and isinstance(st.test, ast.BoolOp) and isinstance(st.test.op, ast.And) \
                and all(isinstance(x, ast.Name) for x in st.test.values) \
                and {combined.get(x.id) for x in st.test.values} == {'begin', 'end'}:
            branch = st
            break
    if branch is None:
        raise AnalysisError("%s.%s: the 'both time points carry am/pm' branch was not found" % (cls.name, fn.name))
    out = {}
    for which, (dtv, hv) in zip(('begin', 'end'), pairs):
        for desig in ('am', 'pm'):
            tab = {}
            for h in range(1, 13):
                env = {}
                for (d2, h2) in pairs:
                    env[d2] = _dt.datetime(2016, 11, 7, h, 0)
                    env[h2] = h
                for name, (d, k) in flags.items():
                    env[name] = (k == desig)
                for name in combined:
                    env[name] = True
                ev = MiniEval(idx, cls, lambda node: (_ for _ in ()).throw(Undetermined('attribute %s' % ast.unparse(node)[:40])))
                try:
                    ev.block(branch.body, env)
                except Undetermined as e:
                    raise AnalysisError('%s.%s: am/pm branch cannot be interpreted: %s' % (cls.name, fn.name, e))
                v = env.get(dtv)
                if not isinstance(v, _dt.datetime):
                    raise AnalysisError('%s.%s: %s is not a datetime after the am/pm branch' % (cls.name, fn.name, dtv))
                tab[h] = v.hour + (24 if v.date() > _dt.date(2016, 11, 7) else 0) - (24 if v.date() < _dt.date(2016, 11, 7) else 0)
            out[(which, desig)] = tab
    return out, branch.lineno


def ampm_expected(desig, h):
    if desig == 'am':
        return 0 if h == 12 else h
    return h if h == 12 else h + 12


# The one cell where the project itself defines something else than clock arithmetic: a range that ENDS at '12am' is read
# as ending at 12:00 on every platform (.NET tests `endHour > HalfDayHourCount`), and the Specs pin it:
# DateTimeModel.json "book me a meeting room tomorrow from 10am-12am tomorrow" -> (2018-09-01T10,2018-09-01T12,PT2H).
# While such a case exists in the Specs the cell accepts both readings (12 as pinned, 0/24 as the clock says).
PINNED_END_12AM = ('end', 'am', 12)


def specs_pin_end_12am():
    """(True, 'file: input') when a Specs case with a range ending at 12am expects an end of T12;
    (False, why) when the Specs are readable and no such case exists; (None, why) when the tree carries no Specs"""
    import glob
    import json
    import os
    import re
    from ..core import REPO
    base = os.path.join(REPO, 'Specs', 'DateTime')
    if not os.path.isdir(base):
        return None, 'no Specs directory under %s' % REPO
    pat = re.compile(r'(-|\bto|\band|\btill?|\buntil)\s*12\s*(:00\s*)?a\.?m')
    end12 = re.compile(r'^\([^,]*,[^,]*T12(:00)?(:00)?,')
    seen = 0
    for f in sorted(glob.glob(os.path.join(base, '*', '*.json'))):
        try:
            cases = json.load(open(f, encoding='utf-8-sig'))
        except (OSError, ValueError):
            continue
        for c in cases if isinstance(cases, list) else []:
            text = str(c.get('Input', '')).lower()
            if not pat.search(text):
                continue
            seen += 1
            for r in c.get('Results') or []:
                vals = []
                res = r.get('Resolution')
                if isinstance(res, dict):
                    vals = [v.get('timex') for v in res.get('values') or [] if isinstance(v, dict)]
                val = r.get('Value')
                if isinstance(val, dict):
                    vals.append(val.get('Timex'))
                if any(isinstance(t, str) and end12.match(t) for t in vals):
                    return True, '%s: %r' % (os.path.relpath(f, REPO), c.get('Input'))
    return False, '%d Specs case(s) end a range at 12am, none expects T12' % seen


_AMPM_CONTROL = '''
class P:
    def parse_specific_time(self, source, reference):
        begin_date_time = datetime(year, month, day, hour=begin_hour, minute=0)
        end_date_time = datetime(year, month, day, hour=end_hour, minute=0)
        has_left_am = left_desc != '' and left_desc.startswith('a')
        has_left_pm = left_desc != '' and left_desc.startswith('p')
        has_right_am = right_desc != '' and right_desc.startswith('a')
        has_right_pm = right_desc != '' and right_desc.startswith('p')
        has_left = has_left_am or has_left_pm
        has_right = has_right_am or has_right_pm
        if has_left and has_right:
            if has_left_am:
                if begin_hour > 12:
                    begin_date_time -= timedelta(hours=12)
            else:
                if begin_hour < 12:
                    begin_date_time += timedelta(hours=12)
'''


# ---- C10.yearcontext ------------------------------------------------------------------------------------------

def year_context_eval(idx, cls, fn, consts, years):
    """interpret get_year_context with the collaborators stubbed: the year regex finds one match per entry of `years`
    (an entry is the year the extractor reads from that match, the invalid-year sentinel for a match without a year), the
    end date is not a bare year and no relative word is present.  -> the .year stored on the returned context"""
    def res(node):
        if isinstance(node, ast.Attribute) and isinstance(node.value, ast.Name) and node.value.id == 'Constants' and node.attr in consts:
            return consts[node.attr]
        raise Undetermined('attribute %s' % ast.unparse(node)[:40])

    def hook(call, args, env):
        cn = _callee_name(call)
        if cn == 'finditer':
            return True, list(years)
        if cn == 'get_year_from_text' and args:
            return True, args[0]
        if cn in ('match', 'search') and isinstance(call.func, ast.Attribute) and ast.unparse(call.func.value).endswith('_regex'):
            return True, None
        if cn == 'hasattr':
            return True, False
        if cn == 'DateContext':
            return True, '<context>'
        return False, None

    ev = MiniEval(idx, cls, res)
    ev.call_hook = hook
    env = {a.arg: '<%s>' % a.arg for a in fn.args.args}
    try:
        ev.block(fn.body, env)
    except _ReturnSignal:
        pass
    except Undetermined as e:
        raise AnalysisError('%s.%s cannot be interpreted: %s' % (cls.name, fn.name, e))
    ys = [v for k, v in env.items() if k.endswith('.year')]
    if len(ys) != 1:
        raise AnalysisError('%s.%s: the year stored on the returned context was not found' % (cls.name, fn.name))
    return ys[0]


# ---- C10.span ----------------------------------------------------------------------------------------------------

def _parse_pt(text):
    """minutes denoted by the PT..H..M(..S) tail of a TIMEX, or None when it is not of that form"""
    import re
    m = re.search(r'PT(?:(\d+(?:\.\d+)?)H)?(?:(\d+(?:\.\d+)?)M)?(?:(\d+(?:\.\d+)?)S)?\)?$', text)
    if not m:
        return None
    return float(m.group(1) or 0) * 60 + float(m.group(2) or 0) + float(m.group(3) or 0) / 60, m.group(2)


def span_probe():
    return [(h, m) for h in range(24) for m in (0, 1, 15, 30, 45, 59)]


def span_sites(idx):
    """every function of the date-time package that writes a literal 'PT' into a string:
    [(mod, cls, fn, kind, info)] kind: 'datetime-diff' (slice between the subtraction of two datetimes and the TIMEX),
    'time-fields' (function of two time results subtracting their fields), 'other' (number+unit, hour numbers, seconds)"""
    out = []
    for mod, cls, fn in idx.functions():
        if not mod.name.startswith(DT) or cls is None:
            continue
        pts = [n for n in ast.walk(fn) if isinstance(n, ast.JoinedStr)
               and any(isinstance(v, ast.Constant) and isinstance(v.value, str) and 'PT' in v.value for v in n.values)]
        if not pts:
            continue
        dt_names = set()
        for n in ast.walk(fn):
            tgt = n.targets[0] if isinstance(n, ast.Assign) and len(n.targets) == 1 else (n.target if isinstance(n, ast.AnnAssign) and n.value is not None else None)
            if isinstance(tgt, ast.Name):
                txt = ast.unparse(n.value)
                if '.future_value' in txt or '.past_value' in txt or 'datetime(' in txt:
                    dt_names.add(tgt.id)
        subs = [n for n in ast.walk(fn) if isinstance(n, ast.BinOp) and isinstance(n.op, ast.Sub)]
        dd = [n for n in subs if isinstance(n.left, ast.Name) and isinstance(n.right, ast.Name)
              and n.left.id in dt_names and n.right.id in dt_names]
        tf = [n for n in subs if isinstance(n.left, ast.Attribute) and isinstance(n.right, ast.Attribute)
              and n.left.attr == n.right.attr == 'hour' and isinstance(n.left.value, ast.Name) and isinstance(n.right.value, ast.Name)]
        params = [a.arg for a in fn.args.args if a.arg != 'self']
        if dd:
            # the subtraction that feeds the TIMEX: the closest one before the 'PT' string
            pt_line = min(n.lineno for n in pts)
            before = [n for n in dd if n.lineno <= pt_line] or dd
            pick = max(before, key=lambda n: n.lineno)
            out.append((mod, cls, fn, 'datetime-diff', (pick.left.id, pick.right.id, pick.lineno)))
        elif tf and tf[0].left.value.id in params and tf[0].right.value.id in params:
            out.append((mod, cls, fn, 'time-fields', (tf[0].left.value.id, tf[0].right.value.id)))
        else:
            out.append((mod, cls, fn, 'other', None))
    return out


def span_eval_slice(idx, cls, fn, end_name, begin_name, begin, end, consts):
    """interpret the top-level statements from the first one that subtracts the two datetimes to the one that writes the
    'PT' TIMEX -> the TIMEX text"""
    def has_sub(st):
        return any(isinstance(n, ast.BinOp) and isinstance(n.op, ast.Sub) and _is_name(n.left, end_name) and _is_name(n.right, begin_name)
                   for n in ast.walk(st))

    def has_pt(st):
        return any(isinstance(n, ast.JoinedStr) and any(isinstance(v, ast.Constant) and isinstance(v.value, str) and 'PT' in v.value
                                                         for v in n.values) for n in ast.walk(st))
    i1 = next((i for i, st in enumerate(fn.body) if has_pt(st) and any(has_sub(s2) for s2 in fn.body[:i + 1])), None)

    def rebinds(st):
        return any(isinstance(n, ast.Name) and isinstance(n.ctx, ast.Store) and n.id in (end_name, begin_name) for n in ast.walk(st))
    i0 = None
    if i1 is not None:
        last_bind = max((i for i, st in enumerate(fn.body[:i1 + 1]) if rebinds(st)), default=-1)
        i0 = next((i for i in range(last_bind + 1, i1 + 1) if has_sub(fn.body[i])), None)
    if i0 is None or i1 is None:
        raise AnalysisError('%s.%s: the span computation is not a run of top-level statements' % (cls.name, fn.name))
    stmts = fn.body[i0:i1 + 1]
    assigned = set()
    for st in stmts:
        for n in ast.walk(st):
            if isinstance(n, ast.Name) and isinstance(n.ctx, ast.Store):
                assigned.add(n.id)
    env = {begin_name: begin, end_name: end, 'year': begin.year, 'month': begin.month, 'day': begin.day}
    # names the slice reads but does not bind: locals of the function defined earlier get the value of their last plain
    # assignment when that is a constant expression, else a placeholder (pieces of the endpoints' own TIMEX); names that
    # are not locals (module constants, classes) are left to the evaluator, which resolves them through the index
    fn_locals = {a.arg for a in fn.args.args}
    for n in ast.walk(fn):
        if isinstance(n, ast.Name) and isinstance(n.ctx, ast.Store):
            fn_locals.add(n.id)
    pre = {}
    for st in fn.body[:i0]:
        t = st.targets[0] if isinstance(st, ast.Assign) and len(st.targets) == 1 else (st.target if isinstance(st, ast.AnnAssign) and st.value is not None else None)
        if isinstance(t, ast.Name):
            pre[t.id] = st.value

    def res(node):
        if isinstance(node, ast.Attribute) and isinstance(node.value, ast.Name):
            if node.value.id == 'Constants' and node.attr in consts:
                return consts[node.attr]
            if env.get(node.value.id) == '?' or node.value.id not in env:
                return '?'           # pieces of the endpoints' own TIMEX: irrelevant for the duration tail
        raise Undetermined('attribute %s' % ast.unparse(node)[:40])

    ev = MiniEval(idx, cls, res)
    for st in stmts:
        for n in ast.walk(st):
            if isinstance(n, ast.Name) and isinstance(n.ctx, ast.Load) and n.id not in env and n.id not in assigned and n.id in fn_locals:
                val = '?'
                if n.id in pre:
                    try:
                        v = ev.expr(pre[n.id], {})
                        if isinstance(v, (int, float)) and not isinstance(v, bool):
                            val = v
                    except Undetermined:
                        pass
                env[n.id] = val
    try:
        ev.block(stmts, env)
    except _ReturnSignal:
        pass
    except Undetermined as e:
        raise AnalysisError('%s.%s: span computation cannot be interpreted: %s' % (cls.name, fn.name, e))
    tx = [v for k, v in env.items() if k.endswith('.timex') and isinstance(v, str)]
    if len(tx) != 1:
        raise AnalysisError('%s.%s: the TIMEX written by the span computation was not found' % (cls.name, fn.name))
    return tx[0]


def span_eval_function(idx, cls, fn, begin, end):
    def hook(call, args, env):
        if _callee_name(call) == 'sanitize_time_result' and args:
            return True, args[0]
        return False, None
    ev = MiniEval(idx, cls, lambda node: (_ for _ in ()).throw(Undetermined('attribute %s' % ast.unparse(node)[:40])))
    ev.call_hook = hook
    params = [a.arg for a in fn.args.args if a.arg != 'self']
    try:
        return ev.call(fn, [begin, end][:len(params)])
    except Undetermined as e:
        raise AnalysisError('%s.%s cannot be interpreted: %s' % (cls.name, fn.name, e))


_SPAN_CONTROL = '''
class P:
    def merge_two_time_points(self, source, reference):
        begin_time = pr1.value.future_value
        end_time = pr2.value.future_value
        hours, remainder = divmod(int((end_time - begin_time).total_seconds()), 3600)
        minutes = remainder % 60
        hours_str = f'{hours}H' if hours > 0 else ''
        minutes_str = f'{minutes}M' if 0 < minutes < 60 else ''
        result.timex = f'({pr1.timex_str},{pr2.timex_str},PT{hours_str}{minutes_str})'
'''


# ---- C10.span-seconds ---------------------------------------------------------------------------------------------

def span_seconds_probe():
    """(begin, end) clock times given to the second: second borrow x minute difference negative / zero / positive x hour wrap"""
    day = _dt.datetime(2016, 11, 7)
    begins = [(14, 15, 30), (9, 5, 45), (6, 40, 0), (23, 50, 59)]
    out = []
    for bh, bm, bs in begins:
        for dh in (0, 2, 13):
            for em in sorted({0, 5, 15, 40, 50, 59, bm}):
                for es in sorted({0, 10, 30, 45, 59, bs}):
                    out.append((day.replace(hour=bh, minute=bm, second=bs), day.replace(hour=(bh + dh) % 24, minute=em, second=es)))
    return out


def span_seconds_cell(tx, begin, end):
    """None when the PT tail of `tx` is the canonical H/M/S split of (end - begin) mod 24 h; 'dropped' when it is that split without
    its seconds component; else a description of what differs"""
    import re
    secs = int((end - begin).total_seconds()) % 86400
    h, r = divmod(secs, 3600)
    m, s = divmod(r, 60)
    want = 'PT' + ('%dH' % h if h else '') + ('%dM' % m if m else '') + ('%dS' % s if s else '')
    tail = tx[tx.rfind('PT'):].rstrip(')') if isinstance(tx, str) and 'PT' in tx else tx
    if tail == want:
        return None
    if s and tail == 'PT' + ('%dH' % h if h else '') + ('%dM' % m if m else ''):
        return 'dropped'
    return '%s-%s -> %s (expected %s)' % (begin.strftime('%H:%M:%S'), end.strftime('%H:%M:%S'), tail, want)


def reads_seconds(fn, params):
    return {n.value.id for n in ast.walk(fn) if isinstance(n, ast.Attribute) and n.attr == 'second' and isinstance(n.value, ast.Name)
            and n.value.id in params} == set(params)


_SPAN_SECONDS_CONTROL = '''
class P:
    def build_span(self, left, right):
        span_hour = right.hour - left.hour
        span_min = right.minute - left.minute
        if span_min < 0:
            span_min += 60
            span_hour -= 1
        span_sec = right.second - left.second
        if span_sec < 0:
            span_sec += 60
            span_min -= 1
        if span_hour < 0:
            span_hour += 24
        span_timex = 'PT'
        if span_hour != 0:
            span_timex += f'{span_hour}H'
        if span_min != 0:
            span_timex += f'{span_min}M'
        if span_sec != 0:
            span_timex += f'{span_sec}S'
        return span_timex
'''


# ---- C10.year-span ------------------------------------------------------------------------------------------------

def year_span_sites(idx):
    """every method of the date-time package whose TIMEX is hand-assembled as (start,end,P{<expr>}Y): [(mod, cls, fn, timex statement)]"""
    out = []
    for mod, cls, fn in idx.functions():
        if not mod.name.startswith(DT) or cls is None:
            continue
        for st in ast.walk(fn):
            if not (isinstance(st, ast.Assign) and isinstance(st.targets[0], ast.Attribute) and st.targets[0].attr == 'timex'
                    and isinstance(st.value, ast.JoinedStr)):
                continue
            vals = st.value.values
            for i, v in enumerate(vals):
                if isinstance(v, ast.FormattedValue) and i > 0 and isinstance(vals[i - 1], ast.Constant) and str(vals[i - 1].value).endswith(',P') \
                        and i + 1 < len(vals) and isinstance(vals[i + 1], ast.Constant) and str(vals[i + 1].value).startswith('Y'):
                    out.append((mod, cls, fn, st))
    return out


_COMPOUND = (ast.If, ast.For, ast.While, ast.Try, ast.With)


def year_span_inputs(cls, fn, timex_st):
    """(index of the last top-level compound statement in front of the TIMEX statement that binds locals = the extraction of the years from
    the text, the two locals it binds that the statements after it read)"""
    if timex_st not in fn.body:
        raise AnalysisError('%s.%s: the (start,end,P..Y) TIMEX is not assembled by a top-level statement' % (cls.name, fn.name))
    i1 = fn.body.index(timex_st)
    seed = stores = None
    for i, st in enumerate(fn.body[:i1]):
        if isinstance(st, _COMPOUND):
            bound = {n.id for n in ast.walk(st) if isinstance(n, ast.Name) and isinstance(n.ctx, ast.Store)}
            if bound:
                seed, stores = i, bound
    if seed is None:
        raise AnalysisError('%s.%s: the statement that reads the two years from the text was not found' % (cls.name, fn.name))
    read = {n.id for st in fn.body[seed + 1:i1 + 1] for n in ast.walk(st) if isinstance(n, ast.Name) and isinstance(n.ctx, ast.Load)}
    inputs = sorted(stores & read)
    if len(inputs) != 2:
        raise AnalysisError('%s.%s: the two year locals handed from the extraction to the (start,end,P..Y) assembly were not identified (%s)'
                            % (cls.name, fn.name, inputs))
    return seed, inputs


def year_span_eval(idx, cls, fn, timex_st, y1, y2, consts):
    """interpret the run of top-level statements from the extraction of the years to the TIMEX statement, the two year locals (in name
    order) holding the numbers y1, y2 read from the text -> (TIMEX, [begin date, end date] stored as the future value)"""
    seed, inputs = year_span_inputs(cls, fn, timex_st)
    i1 = fn.body.index(timex_st)
    rec_name = timex_st.targets[0].value.id if isinstance(timex_st.targets[0].value, ast.Name) else None
    if rec_name is None:
        raise AnalysisError('%s.%s: the result record of the TIMEX is not a local' % (cls.name, fn.name))

    def res(node):
        if isinstance(node, ast.Attribute) and isinstance(node.value, ast.Name) and node.value.id == 'Constants' and node.attr in consts:
            return consts[node.attr]
        if ast.unparse(node) == 'DateUtils.min_value':
            return _dt.datetime(1, 1, 1)
        raise Undetermined('attribute %s' % ast.unparse(node)[:40])
    ev = MiniEval(idx, cls, res)
    rec = Obj()
    env = {inputs[0]: y1, inputs[1]: y2, rec_name: rec}
    try:
        ev.block(fn.body[seed + 1:i1 + 1], env)
    except _ReturnSignal:
        return None, 'return'         # the function gives up on this pair (e.g. a guard against a backward range)
    except Undetermined as e:
        raise AnalysisError('%s.%s: the (start,end,P..Y) assembly cannot be interpreted: %s' % (cls.name, fn.name, e))
    final = env.get(rec_name) if isinstance(env.get(rec_name), Obj) else rec
    return getattr(final, 'timex', None), getattr(final, 'future_value', None)


def year_span_problem(tx, fv):
    """None when the (start,end,PnY) TIMEX names the two stored dates and n years after start is end; else what differs;
    'unordered' when the stored range runs backwards (outside the property's ordered pairs)"""
    import re
    if fv == 'return':
        return 'unordered'
    if not (isinstance(fv, (list, tuple)) and len(fv) == 2 and all(isinstance(d, _dt.datetime) for d in fv)):
        return 'the stored value is not a pair of dates (%r)' % (fv,)
    d1, d2 = fv
    if d2 < d1:
        return 'unordered'
    m = re.fullmatch(r'\(([^,()]+),([^,()]+),P(-?\d+)Y\)', tx) if isinstance(tx, str) else None
    if not m:
        return 'TIMEX %r is not of the form (start,end,PnY)' % (tx,)
    f = lambda d: '%04d-%02d-%02d' % (d.year, d.month, d.day)
    if (m.group(1), m.group(2)) != (f(d1), f(d2)):
        return 'TIMEX %s names other end points than the resolved %s / %s' % (tx, f(d1), f(d2))
    n = int(m.group(3))
    if (d1.year + n, d1.month, d1.day) != (d2.year, d2.month, d2.day):
        return '%s: %s plus %d years is not %s' % (tx, f(d1), n, f(d2))
    return None


# both orientations of every pair: which of the two locals is the begin year is not assumed, backward ranges are skipped
YEAR_SPAN_PROBE = [p for a, b in ((1998, 2005), (2005, 2018), (98, 5), (95, 98), (5, 12), (98, 2005), (1998, 5), (99, 0), (2018, 2019))
                   for p in ((a, b), (b, a))]

_YEAR_SPAN_CONTROL = '''
class P:
    def _parse_year_to_year(self, source, reference):
        result = DateTimeResolutionResult()
        if match:
            begin_year = int(match.group(1))
            end_year = int(match.group(2))
        begin_date = DateUtils.safe_create_from_min_value(begin_year + 1900 if begin_year < 100 else begin_year, 1, 1)
        end_date = DateUtils.safe_create_from_min_value(end_year + 1900 if end_year < 100 else end_year, 1, 1)
        result.future_value = [begin_date, end_date]
        begin_timex = DateTimeFormatUtil.luis_date_from_datetime(begin_date)
        end_timex = DateTimeFormatUtil.luis_date_from_datetime(end_date)
        result.timex = f'({begin_timex},{end_timex},P{end_year - begin_year}Y)'
        return result
'''


def dtp_for_control(idx):
    """owner class for the embedded control snippets (gives the interpreter a module to resolve DateUtils / DateTimeFormatUtil from)"""
    return idx.cls(DT + 'base_dateperiod.BaseDatePeriodParser')


def _has_assembly(fn):
    tx = [n for n in ast.walk(fn) if isinstance(n, ast.Assign) and isinstance(n.targets[0], ast.Attribute)
          and n.targets[0].attr == 'timex' and isinstance(n.value, ast.JoinedStr)
          and any(isinstance(v, ast.Constant) and isinstance(v.value, str) and v.value.startswith('P') for v in n.value.values)]
    fv = [n for n in ast.walk(fn) if isinstance(n, ast.Assign) and isinstance(n.targets[0], ast.Attribute) and n.targets[0].attr == 'future_value']
    return (tx[0], fv[0]) if tx and fv else None


def _number_name(fn, timex, value_stmt):
    """the local (or parameter) of `fn` that is the N of P[T]N<U>: it appears in the TIMEX f-string, is not derived from the
    unit, and scales the seconds value"""
    defs = {}
    for n in ast.walk(fn):
        t = n.targets[0] if isinstance(n, ast.Assign) and len(n.targets) == 1 else (n.target if isinstance(n, ast.AnnAssign) and n.value is not None else None)
        if isinstance(t, ast.Name):
            defs.setdefault(t.id, []).append(n.value)
    unitish = set()
    for nm, vs in defs.items():
        txts = [ast.unparse(v) for v in vs]
        if any('unit_map' in t or 'is_less_than_day' in t for t in txts) or any(isinstance(v, ast.IfExp) for v in vs):
            unitish.add(nm)
    for nm, vs in defs.items():       # letter = unit[0]
        if any(isinstance(v, ast.Subscript) and isinstance(v.value, ast.Name) and v.value.id in unitish for v in vs):
            unitish.add(nm)
    # parameters handed to is_less_than_day / subscripted for the letter are unit parameters
    for c in ast.walk(fn):
        if isinstance(c, ast.Call) and _callee_name(c) == 'is_less_than_day' and c.args and isinstance(c.args[0], ast.Name):
            unitish.add(c.args[0].id)
    cands = []
    for p in timex.value.values:
        if isinstance(p, ast.FormattedValue):
            for x in ast.walk(p.value):
                if isinstance(x, ast.Name) and x.id not in cands and x.id != 'self' and x.id not in unitish:
                    cands.append(x.id)
    if len(cands) > 1:
        in_value = {x.id for x in ast.walk(value_stmt.value) if isinstance(x, ast.Name)}
        both = [c for c in cands if c in in_value]
        if len(both) == 1:
            cands = both
    return cands[0] if len(cands) == 1 else None


def assembly_locals(fn, cls=None, idx=None):
    """(spelling local, number local, index of the unit_map guard, index of the last statement of the assembly) of a parse
    method that assembles the duration result itself or hands it to a same-class helper (`return self.h(result, num, ...)`)"""
    guard_i = sp = None
    for i, st in enumerate(fn.body):
        if isinstance(st, ast.If) and isinstance(st.test, ast.Compare) and len(st.test.ops) == 1 and isinstance(st.test.ops[0], ast.NotIn) \
                and isinstance(st.test.left, ast.Name) and ast.unparse(st.test.comparators[0]).endswith('config.unit_map') \
                and any(isinstance(b, ast.Return) for b in st.body):
            guard_i, sp = i, st.test.left.id
    if guard_i is None:
        return None
    # direct assembly
    val_i = timex = None
    for i, st in enumerate(fn.body):
        if isinstance(st, ast.Assign) and isinstance(st.targets[0], ast.Attribute):
            if st.targets[0].attr == 'future_value':
                val_i = i
            if st.targets[0].attr == 'timex' and isinstance(st.value, ast.JoinedStr):
                timex = st
    if val_i is not None and timex is not None and val_i > guard_i:
        return sp, _number_name(fn, timex, fn.body[val_i]), guard_i, val_i
    # delegation to a same-class helper
    if cls is not None and idx is not None:
        for i, st in enumerate(fn.body):
            if i <= guard_i:
                continue
            call = st.value if isinstance(st, (ast.Return, ast.Expr, ast.Assign)) else None
            if isinstance(call, ast.Call) and isinstance(call.func, ast.Attribute) and _is_name(call.func.value, 'self'):
                k, h = idx.find_method(cls, call.func.attr)
                ha = _has_assembly(h) if h is not None else None
                if ha:
                    hnum = _number_name(h, ha[0], ha[1])
                    params = [a.arg for a in h.args.args if a.arg != 'self']
                    bound = dict(zip(params, call.args))
                    bound.update({kw.arg: kw.value for kw in call.keywords if kw.arg})
                    arg = bound.get(hnum)
                    return sp, (arg.id if isinstance(arg, ast.Name) else None), guard_i, i
    return None


def assembly_semantic(idx, cls, fn, consts, codes):
    """interpret the statements between the unit_map guard and the value assignment for every unit code and N in (3, 7):
    [(code, N, timex, value, problem or None)]"""
    loc = assembly_locals(fn, cls, idx)
    if loc is None or loc[0] is None:
        raise AnalysisError('%s.%s: unit_map guard / TIMEX / value assignment of the assembly not found' % (cls.name, fn.name))
    sp, num, gi, vi = loc
    if num is None:
        raise AnalysisError('%s.%s: the number local of the TIMEX assembly cannot be identified' % (cls.name, fn.name))
    out = []
    for code, secs in codes:
        for N in (3, 7):
            def res(node, code=code, secs=secs):
                if isinstance(node, ast.Attribute):
                    if isinstance(node.value, ast.Name) and node.value.id == 'Constants' and node.attr in consts:
                        return consts[node.attr]
                    txt = ast.unparse(node)
                    if txt.endswith('config.unit_map'):
                        return {'<spelling>': code}
                    if txt.endswith('config.unit_value_map'):
                        return {'<spelling>': secs}
                raise Undetermined('attribute %s' % ast.unparse(node)[:40])
            ev = MiniEval(idx, cls, res)
            rec = Obj()
            env = {sp: '<spelling>', num: N, 'result': rec}
            problem = None
            for j, st in enumerate(fn.body[gi + 1:vi + 1]):
                last = (gi + 1 + j == vi)
                is_out = last or (isinstance(st, ast.Assign) and isinstance(st.targets[0], ast.Attribute)
                                  and st.targets[0].attr in ('timex', 'future_value'))
                try:
                    ev.block([st], env)
                except _ReturnSignal:
                    if not last:
                        problem = 'returns without a result'
                    break
                except Undetermined as e:
                    if is_out:
                        problem = 'cannot be evaluated (%s)' % e
                        break
                    if isinstance(st, (ast.Assign, ast.AnnAssign, ast.AugAssign)) and any(
                            isinstance(x, ast.Name) and isinstance(x.ctx, ast.Store) and x.id == num for x in ast.walk(st)):
                        continue          # the number comes from the number parser / the pattern: N stands in for it
                    if any(isinstance(x, ast.Return) for x in ast.walk(st)):
                        raise AnalysisError('%s.%s: guard cannot be interpreted (%s): %s' % (cls.name, fn.name, e, ast.unparse(st)[:70]))
                    continue
            out.append((code, N, getattr(rec, 'timex', None), getattr(rec, 'future_value', None), problem))
    return out


def reference_form(sp):
    t = "f\"P{('T' if self.is_less_than_day(self.config.unit_map[%s]) else '')}{num}{self.config.unit_map[%s][0]}\"" % (sp, sp)
    t = ast.unparse(ast.parse(t, mode='eval').body)
    return {'timex': t, 'value': 'num * self.config.unit_value_map[%s]' % sp, 'past': 'result.future_value', 'guard': sp}


_ASSEMBLY_CONTROL = '''
class P:
    def parse_x(self, source):
        result = R()
        source_unit = match.group(Constants.UNIT) or ''
        if source_unit not in self.config.unit_map:
            return result
        unit = self.config.unit_map[source_unit]
        is_time = Constants.UNIT_T if self.is_less_than_day(unit) else ''
        result.timex = f'P{is_time}{num}{unit[0]}'
        result.future_value = QueryProcessor.float_or_int(num * self.config.unit_value_map[unit])
        result.past_value = result.future_value
        return result
'''


class _FakeCls:
    def __init__(self, node):
        self.name = node.name
        self.methods = {st.name: st for st in node.body if isinstance(st, ast.FunctionDef)}


META = {
    'text': 'Partial (necessary conditions). Decided per culture (8): reference unit words second..year that the duration '
            'patterns demonstrably capture map to the right TIMEX letter and number of seconds; for every captured '
            'spelling the seconds value denotes the unit of its letter; the designator emitted for a letter (unit[0], T '
            'iff is_less_than_day) is the ISO one; all copies of the TIMEX/seconds assembly in BaseDurationParser have '
            'the reference normal form and agree; luis_time_span and the (start,end,P..) unit count, interpreted on '
            'sample ranges, equal end - start.',
    'note': 'Not decided: which text is extracted as a duration, number parsing, (start,end,duration) arithmetic on '
            'concrete ranges produced by the date/time period parsers, merged durations. Multiples (decade 10Y, fortnight '
            '2W, quarter 3MON, weekend WE) are outside "units second..year": their values are checked, their TIMEX '
            '(unit[0] yields a digit: "3 decades" -> P31) is an observation. Spellings with a letter but no seconds entry '
            'are observations unless they are reference unit words.',
    'technique': 'table agreement (evaluated resource constants) + regex language/witness search + normal-form sibling '
                 'comparison + small AST interpreter',
}


def run(chk):
    idx = get_index()
    W = Wiring(idx)
    chk.explanation = ('durations: unit letter and seconds value denote the same unit for every captured spelling; reference unit '
                       'words map to the right letter; TIMEX/seconds assembly copies agree; time-span arithmetic helpers')
    chk.rule('C10.wiring', 'unit tables and duration patterns resolve to evaluated resource constants', floor=20)
    chk.rule('C10.lexicon', 'reference unit words second..year map to the right letter and seconds', floor=80, control=True)
    chk.rule('C10.seconds', 'seconds value equals the canonical length of the unit letter for every captured spelling', floor=120, control=True)
    chk.rule('C10.letter', 'TIMEX designator per unit letter; less-than-day set is exactly H, M, S', floor=7, control=True)
    chk.rule('C10.assembly', 'copies of the TIMEX/seconds assembly have the reference normal form and agree', floor=4, control=True)
    chk.rule('C10.range-guard', 'the plain "N <unit>" parse path has no early return that depends on the magnitude of N in 1..5000',
             floor=7, control=True)
    chk.rule('C10.ampm', "time ranges whose endpoints both carry am/pm: 12am -> 0, 1..11am unchanged, 1..11pm -> +12, 12pm unchanged (tabulated, both endpoints)",
             floor=4, control=True)
    chk.rule('C10.yearcontext', "get_year_context: the context year is the common year of the mentioned years, the invalid-year sentinel when two "
             "differ or none is mentioned (tabulated with stubbed year extraction)", floor=8, control=True)
    chk.rule('C10.span', "hand-assembled (start,end,PT..H..M) durations denote end - start (tabulated for h 0..23 x m in 0,1,15,30,45,59)",
             floor=3, control=True)
    chk.rule('C10.span-seconds', "field-wise (start,end,PT..H..M..S) durations of two clock times given to the second: every component is "
             "canonical (no negative / >= 60 field) and the total is end - start (tabulated: second borrow x minute difference <0, 0, >0 x hour wrap)",
             floor=1, control=True)
    chk.rule('C10.year-span', "hand-assembled (start,end,P{n}Y) year ranges: the TIMEX names the stored dates and start plus the duration is end, "
             "for years written with two and with four digits (assembly interpreted from the years read off the text)", floor=1, control=True)
    chk.rule('C10.borrow', "a date-time range with one dated end point: the undated point borrows the date of the other and each point keeps its "
             "own time of day (future and past values; merge_two_time_points interpreted)", floor=4, control=True)
    chk.rule('C10.timespan', 'luis_time_span / period unit count equal end - start; type->suffix table', floor=8, control=True)
    chk.assume('a culture is served by the unique DurationParserConfiguration subclass of its package')

    consts = class_consts(idx, DT + 'constants.Constants')
    for L in SEC:
        if consts.get('UNIT_' + L) != L:
            raise AnalysisError('Constants.UNIT_%s is no longer %r' % (L, L))
    cfgs = W.culture_classes(DT + 'base_duration.DurationParserConfiguration')
    for cul in CULTURES:
        if cul not in cfgs:
            raise AnalysisError('no DurationParserConfiguration subclass for culture %s' % cul)

    def seconds_problem(letter, value):
        sl = split_letter(letter)
        if sl is None:
            return None
        return None if value == sl[0] * SEC[sl[1]] else sl[0] * SEC[sl[1]]

    chk.control('C10.seconds', seconds_problem('M', 2592000) == 60 and seconds_problem('10Y', 315360000) is None)
    chk.control('C10.lexicon', {'hours': 'M'}.get('hours') != UNIT_WORDS['english']['hours'])

    # ---- per culture tables
    for cul in CULTURES:
        cfg = cfgs[cul]
        chk.consulted(cfg.mod.path)
        if cul == 'chinese':
            run_chinese(chk, idx, W, cfg)
            continue
        um = W.table(cfg, 'unit_map')
        uv = W.table(cfg, 'unit_value_map')
        pats = DurationPatterns(W, cfg)
        for v in (um, uv):
            if v.path:
                chk.consulted(v.path)
        chk.ok('C10.wiring', cfg.mod.path, '%s.unit_map' % cfg.name, '%s [%d keys]' % (um.label, len(um.value)))
        chk.ok('C10.wiring', cfg.mod.path, '%s.unit_value_map' % cfg.name, '%s [%d keys]' % (uv.label, len(uv.value)))
        chk.ok('C10.wiring', cfg.mod.path, '%s.<patterns>' % cfg.name, ' '.join(sorted(v.label for v, _, _ in pats.items.values())))
        if pats.refused:
            chk.observe('%s: duration pattern(s) not translatable for witnessing: %s' % (cul, '; '.join(pats.refused)))
        if pats.items['followed_unit'][2] is None:
            raise AnalysisError('%s: followed_unit pattern cannot be translated - no witness search possible' % cul)
        Lp = pats.language()
        # C10.lexicon
        n_capt = 0
        for w, letter in UNIT_WORDS[cul].items():
            wit = pats.witness(w)
            cons = "%s[%r]" % (um.label, w)
            if not wit:
                chk.exempt('C10.lexicon', um.path, cons, 'the duration patterns do not capture this spelling as a unit', 'not captured', um.line)
                continue
            n_capt += 1
            got_l, got_v = um.value.get(w), uv.value.get(w)
            ok = got_l == letter and got_v == SEC[letter]
            chk.judge(ok, 'C10.lexicon', um.path, cons, '%s -> %s / %s' % (w, got_l, got_v),
                      '%s: %s captures unit=%r on input %r; %s gives %r and %s gives %r - expected %r and %d (TIMEX P%s3%s)'
                      % (cul, wit[1], w, wit[0], um.label, got_l, uv.label, got_v, letter, SEC[letter],
                         'T' if letter in 'HMS' else '', letter[0]), um.line)
        if n_capt < 10:
            raise AnalysisError('%s: only %d reference unit words are captured by the duration patterns' % (cul, n_capt))
        # C10.seconds
        for k, letter in um.value.items():
            cons = "%s[%r]" % (uv.label, k)
            wit = pats.witness(k)
            if not wit:
                chk.exempt('C10.seconds', uv.path, cons, 'spelling not captured by followed_unit / number_combined_with_unit '
                           '(%s)' % ('in L+ of another duration pattern' if k in Lp else 'not in any unit group'), 'unreached', uv.line)
                continue
            sl = split_letter(letter)
            if sl is None:
                chk.exempt('C10.seconds', uv.path, cons, 'letter %r is not a (multiple of a) calendar/clock unit' % letter, 'letter %s' % letter, uv.line)
                if k in uv.value:
                    chk.observe('%s: %r has letter %r (TIMEX designator %r) and value %s' % (cul, k, letter, letter[0], uv.value[k]))
                continue
            if k not in uv.value:
                if k in UNIT_WORDS[cul]:
                    continue       # already reported by C10.lexicon
                chk.exempt('C10.seconds', uv.path, cons, 'letter %r but no seconds entry: the lookup raises KeyError (swallowed), the '
                           'entity is dropped; not a unit word of the second..year family' % letter, 'no seconds entry', uv.line)
                chk.observe('%s: %r (letter %r) is captured on %r but has no %s entry' % (cul, k, letter, wit[0], uv.label))
                continue
            want = seconds_problem(letter, uv.value[k])
            chk.judge(want is None, 'C10.seconds', uv.path, cons, '%s: letter %s, %s s' % (k, letter, uv.value[k]),
                      '%s: %r is captured on input %r; %s says %r (TIMEX P%s3%s) but %s says %s s, the length of a %s; a %s is %s s'
                      % (cul, k, wit[0], um.label, letter, 'T' if letter in 'HMS' else '', letter[0], uv.label, uv.value[k],
                         next((u for u, s in SEC.items() if s == uv.value[k]), '?'), letter, want), uv.line)
            if sl[0] != 1:
                chk.observe('%s: %r has letter %r - the TIMEX is assembled with unit[0] = %r (e.g. "3 %s" -> P3%s)'
                            % (cul, k, letter, letter[0], k, letter[0]))
        # captured spellings that are not in unit_map at all and are no reference words -> observation
        for w in sorted(Lp):
            if w not in um.value and w not in UNIT_WORDS[cul] and pats.witness(w):
                chk.observe('%s: %r is captured as a unit but is no key of %s (duration stays unresolved)' % (cul, w, um.label))

    run_base(chk, idx, consts)


def run_chinese(chk, idx, W, cfg):
    """Chinese: NumberWithUnitParser over DurationSuffixList (letter -> spellings) + DurationUnitValueMap (letter -> s)"""
    uv = W.table(cfg, 'unit_value_map')
    chk.ok('C10.wiring', cfg.mod.path, '%s.unit_value_map' % cfg.name, '%s [%d keys]' % (uv.label, len(uv.value)))
    # the suffix list handed to add_dict_to_unit_map in the same module
    suffix = None
    for c in cfg.mod.classes.values():
        init = c.methods.get('__init__')
        if init is None:
            continue
        for n in ast.walk(init):
            if isinstance(n, ast.Call) and _callee_name(n) == 'add_dict_to_unit_map' and n.args:
                vals = W.eval(n.args[0], c, init)
                if len(vals) == 1 and isinstance(vals[0].value, dict):
                    suffix = vals[0]
    if suffix is None:
        raise AnalysisError('chinese: DurationSuffixList wiring (add_dict_to_unit_map) not found')
    chk.ok('C10.wiring', cfg.mod.path, 'ChineseDurationNumberWithUnitParserConfiguration.unit_map', '%s [%d letters]' % (suffix.label, len(suffix.value)))
    chk.consulted(suffix.path)
    ref_zh = {'Y': '年', 'MON': '个月', 'W': '周', 'D': '天', 'H': '小时', 'M': '分钟', 'S': '秒'}
    for letter, spellings in suffix.value.items():
        L = letter.upper()
        cons = "%s[%r]" % (uv.label, letter)
        if L not in SEC:
            chk.exempt('C10.seconds', uv.path, cons, 'letter %r is not a calendar/clock unit' % letter, 'letter', uv.line)
            continue
        got = uv.value.get(letter)
        chk.judge(got == SEC[L], 'C10.seconds', uv.path, cons, '%s: %s s' % (letter, got),
                  'chinese: unit letter %r (%s) has %r seconds in %s, a %s is %d s%s'
                  % (letter, spellings, got, uv.label, L, SEC[L], '' if got is not None else ' (the parser falls back to 1)'), uv.line)
        words = spellings.split('|')
        chk.judge(ref_zh[L] in words, 'C10.lexicon', suffix.path, "%s[%r]" % (suffix.label, letter), '%s <- %s' % (letter, spellings),
                  'chinese: the reference word %r for unit %s is not listed under letter %r (%s)' % (ref_zh[L], L, letter, spellings), suffix.line)
    # the parser's own lookup, interpreted for every unit code the suffix list can hand it: whatever case mapping the code
    # applies, the code must be found in the value map (a `.get(code, 1)` that misses silently turns N months into N seconds)
    consts = class_consts(idx, DT + 'constants.Constants')
    zh_parsers = [k for k in idx.subclasses(idx.cls(DT + 'base_duration.BaseDurationParser')) if Wiring.culture_of(k) == 'chinese'
                  and 'parse' in k.methods]
    if len(zh_parsers) != 1:
        raise AnalysisError('chinese: duration parser class with its own parse() not found')
    zp = zh_parsers[0]
    pfn = zp.methods['parse']
    block = None
    for n in ast.walk(pfn):
        for field in ('body', 'orelse'):
            blk = getattr(n, field, None)
            if isinstance(blk, list) and any(isinstance(st, ast.Assign) and isinstance(st.targets[0], ast.Attribute)
                                             and st.targets[0].attr == 'timex' and isinstance(st.value, ast.JoinedStr) for st in blk):
                block = blk
    if block is None:
        raise AnalysisError('%s.parse: TIMEX assembly not found' % zp.name)
    i_first = next((i for i, st in enumerate(block) if any(isinstance(x, ast.Attribute) and x.attr == 'unit' for x in ast.walk(st))), None)
    i_last = max(i for i, st in enumerate(block) if isinstance(st, ast.Assign) and isinstance(st.targets[0], ast.Attribute)
                 and st.targets[0].attr in ('timex', 'future_value'))
    if i_first is None or i_first > i_last:
        raise AnalysisError('%s.parse: the statement reading the unit code was not found' % zp.name)
    chk.consulted(zp.mod.path)
    for letter in suffix.value:
        L = letter.upper()
        if L not in SEC:
            continue

        def res(node):
            if isinstance(node, ast.Attribute):
                if isinstance(node.value, ast.Name) and node.value.id == 'Constants' and node.attr in consts:
                    return consts[node.attr]
                if ast.unparse(node).endswith('config.unit_value_map'):
                    return dict(uv.value)
            raise Undetermined('attribute %s' % ast.unparse(node)[:40])
        ev = MiniEval(idx, zp, res)
        rec = Obj()
        env = {'unit_result': Obj(unit=letter, number='3'), 'inner_result': rec, 'source': Obj(text='3' + spellings_first(suffix.value[letter])),
               'has_half_suffix': False}
        try:
            ev.block(block[i_first:i_last + 1], env)
        except _ReturnSignal:
            pass
        except Undetermined as e:
            raise AnalysisError('%s.parse: TIMEX/value assembly cannot be interpreted: %s' % (zp.name, e))
        final = env.get('inner_result') if isinstance(env.get('inner_result'), Obj) else rec      # the record may be built inside the slice
        tx, val = getattr(final, 'timex', None), getattr(final, 'future_value', None)
        want_tx = 'P%s3%s' % ('T' if L in ('H', 'M', 'S') else '', L[0])
        chk.judge(tx == want_tx and val == 3 * SEC[L], 'C10.seconds', zp.mod.path, "%s.parse[unit code %r]" % (zp.name, letter),
                  '3 x %s -> %s / %s' % (letter, tx, val),
                  "chinese: '3%s' (unit code %r from %s) is assembled as %s with value %s; expected %s and %d - the code the parser looks up "
                  "must be a key of %s in the spelling the tables use" % (spellings_first(suffix.value[letter]), letter, suffix.label, tx, val,
                                                                        want_tx, 3 * SEC[L], uv.label), pfn.lineno)
    missing = [L for L in SEC if L not in {k.upper() for k in suffix.value}]
    chk.judge(not missing, 'C10.lexicon', suffix.path, '%s#letters' % suffix.label, 'letters %s' % sorted(suffix.value),
              'chinese: no duration suffix for unit letter(s) %s' % missing, suffix.line)


def borrow_eval(idx, cls, fn, consts, case):
    """interpret the date-borrowing part of merge_two_time_points (from the first read of the endpoints' values to the
    stores on the result) for one case 'begin' | 'end' (= the side that carries its own date):
    ((future_begin, future_end), (past_begin, past_end))"""
    start = next((i for i, st in enumerate(fn.body) if isinstance(st, ast.Assign) and '.value.future_value' in ast.unparse(st.value)), None)
    end = max((i for i, st in enumerate(fn.body) if isinstance(st, ast.Assign) and isinstance(st.targets[0], ast.Attribute)
               and st.targets[0].attr in ('future_value', 'past_value')), default=None)
    if start is None or end is None or end < start:
        raise AnalysisError('%s.%s: the value part of the function was not found' % (cls.name, fn.name))
    flags = set()
    for st in fn.body[start:end + 1]:
        if isinstance(st, ast.If):
            cur = st
            while True:
                if isinstance(cur.test, ast.Name):
                    flags.add(cur.test.id)
                if len(cur.orelse) == 1 and isinstance(cur.orelse[0], ast.If):
                    cur = cur.orelse[0]
                else:
                    break
    side = {f: ('begin' if 'begin' in f else 'end' if 'end' in f else 'both' if 'both' in f else None) for f in flags}
    if {'begin', 'end'} - set(side.values()):
        raise AnalysisError('%s.%s: begin_has_date / end_has_date flags not recognised (%s)' % (cls.name, fn.name, sorted(flags)))
    own = _dt.datetime(2018, 5, 3), _dt.datetime(2017, 5, 3)          # (future, past) date of the side that has one
    refd = _dt.datetime(2016, 11, 7)                                  # the other side sits on the reference day
    tb, te = _dt.timedelta(hours=9, minutes=10, seconds=11), _dt.timedelta(hours=17, minutes=20, seconds=21)
    if case == 'begin':
        b = (own[0] + tb, own[1] + tb)
        e = (refd + te, refd + te)
    else:
        b = (refd + tb, refd + tb)
        e = (own[0] + te, own[1] + te)
    pr1 = Obj(value=Obj(future_value=b[0], past_value=b[1], comment=None), timex_str='2018-05-03T09:10:11' if case == 'begin' else 'T09:10:11')
    pr2 = Obj(value=Obj(future_value=e[0], past_value=e[1], comment=None), timex_str='T17:20:21' if case == 'begin' else '2018-05-03T17:20:21')

    def res(node):
        if isinstance(node, ast.Attribute) and isinstance(node.value, ast.Name) and node.value.id == 'Constants' and node.attr in consts:
            return consts[node.attr]
        if ast.unparse(node) == 'DateUtils.min_value':
            return _dt.datetime(1, 1, 1)
        raise Undetermined('attribute %s' % ast.unparse(node)[:40])
    ev = MiniEval(idx, cls, res)
    rec = Obj()
    env = {'parse_result1': pr1, 'parse_result2': pr2, 'result': rec}
    for f, sd in side.items():
        env[f] = (sd == case)
    try:
        ev.block(fn.body[start:end + 1], env)
    except _ReturnSignal:
        pass
    except Undetermined as e2:
        raise AnalysisError('%s.%s: date-borrowing branches cannot be interpreted: %s' % (cls.name, fn.name, e2))
    fv, pv = getattr(rec, 'future_value', None), getattr(rec, 'past_value', None)
    want = ((own[0] + tb, own[0] + te), (own[1] + tb, own[1] + te))
    return (tuple(fv) if isinstance(fv, (tuple, list)) else fv, tuple(pv) if isinstance(pv, (tuple, list)) else pv), want


def spellings_first(sp):
    return sp.split('|')[0]


def run_base(chk, idx, consts):
    bd = idx.cls(DT + 'base_duration.BaseDurationParser')
    chk.consulted(bd.mod.path)
    # ---- C10.letter
    ilt = bd.methods.get('is_less_than_day')
    if ilt is None:
        raise AnalysisError('anchor vanished: BaseDurationParser.is_less_than_day')

    def res(node):
        if isinstance(node, ast.Attribute) and isinstance(node.value, ast.Name) and node.value.id == 'Constants' and node.attr in consts:
            return consts[node.attr]
        raise Undetermined('attribute %s' % ast.unparse(node))

    dpu = idx.cls(DT + 'utilities.DurationParsingUtil')
    itd = dpu.methods.get('is_time_duration_unit')
    if itd is None:
        raise AnalysisError('anchor vanished: DurationParsingUtil.is_time_duration_unit')
    copies = []
    for name, fn_ in bd.methods.items():
        loc_ = assembly_locals(fn_, bd, idx)
        if loc_ is not None:
            copies.append((name, None, fn_.body[loc_[3]].lineno))
    if len(copies) < 4:
        raise AnalysisError('BaseDurationParser: only %d parse methods reach a TIMEX assembly (expected 5)' % len(copies))
    for L, want in DESIGNATOR.items():
        try:
            t1 = bool(MiniEval(idx, bd, res).call(ilt, [L]))
            t2 = bool(MiniEval(idx, dpu, res).call(itd, [L]))
        except Undetermined as e:
            raise AnalysisError('is_less_than_day / is_time_duration_unit cannot be interpreted: %s' % e)
        got = ('T' if t1 else '') + L[0]
        chk.judge(got == want and t2 == (want[0] == 'T' and len(want) == 2), 'C10.letter', bd.mod.path,
                  "BaseDurationParser.is_less_than_day(%r)" % L, '%s -> P%sn%s ; is_time_duration_unit=%s' % (L, 'T' if t1 else '', L[0], t2),
                  'unit letter %r is emitted as P%sn%s, ISO-8601 wants P%sn%s (is_time_duration_unit=%s)'
                  % (L, 'T' if t1 else '', L[0], want[:-1], want[-1], t2), ilt.lineno)
    ctl = ast.parse("def is_less_than_day(source):\n    return source in ['M', 'S']\n").body[0]
    chk.control('C10.letter', not MiniEval(idx).call(ctl, ['H']))

    # ---- C10.assembly (semantic: the assembly of every copy is interpreted for every unit code)
    codes = [(L, SEC[L]) for L in SEC]
    for name, form, ln in copies:
        fn = bd.methods[name]
        cons = 'BaseDurationParser.%s' % name
        rows = assembly_semantic(idx, bd, fn, consts, codes)
        wrong = []
        for code, N, tx, val, problem in rows:
            want_tx = 'P%s%d%s' % ('T' if code in ('H', 'M', 'S') else '', N, code[0])
            if problem:
                wrong.append('%s x%d: %s' % (code, N, problem))
            elif tx != want_tx or val != N * SEC[code]:
                wrong.append('%s x%d -> %s / %s (expected %s / %d)' % (code, N, tx, val, want_tx, N * SEC[code]))
        chk.judge(not wrong, 'C10.assembly', bd.mod.path, cons,
                  '%d (unit code, N) cases: P[T]N<first letter>, N x seconds' % len(rows) if not wrong else '; '.join(wrong[:4]),
                  "%s: the TIMEX/seconds assembly is wrong for %s (%d of %d interpreted cases) - 'T' iff the unit is shorter than a day, "
                  "suffix = first letter of the unit code, value = N x UnitValueMap" % (cons, '; '.join(wrong[:3]), len(wrong), len(rows)), ln)
    ctl = _FakeCls(ast.parse(_ASSEMBLY_CONTROL).body[0])
    crow = assembly_semantic(idx, bd, ctl.methods['parse_x'], consts, [('MON', SEC['MON'])])
    chk.control('C10.assembly', any(r[4] or r[3] != r[1] * SEC['MON'] for r in crow))

    # ---- C10.range-guard
    plain = 0
    for name, form, ln in copies:
        fn = bd.methods[name]
        loc = assembly_locals(fn, bd, idx)
        num_name, sp = (loc[1], loc[0]) if loc else (None, None)
        cons = 'BaseDurationParser.%s' % name
        if num_name is None or sp is None:
            raise AnalysisError('%s: number / spelling locals of the TIMEX assembly not identified' % cons)
        src, first = number_source(fn, num_name)
        if src == 'none':
            chk.exempt('C10.range-guard', bd.mod.path, cons, 'the form carries no parsed number (a/an, half, few, all): N does not range over 1..5000',
                       'number source: constant', ln)
            continue
        ab = range_guard_cases(idx, bd, fn, num_name, sp, first, consts)
        if src == 'parser':
            plain += 1
        for L in SEC:
            detail = '%s: early return for N in %s' % (L, ab[L] or '{}')
            if not ab[L]:
                chk.ok('C10.range-guard', bd.mod.path, '%s[%r]' % (cons, L), detail, ln)
            elif src == 'regex-group':
                chk.exempt('C10.range-guard', bd.mod.path, '%s[%r]' % (cons, L),
                           'glued number+unit form (number taken from the pattern\'s `num` group): the guard filters year-like tokens such as '
                           '"2019y"; the blank-separated "N <unit>" form is served by the number-parser path', detail, ln)
            else:
                chk.bad('C10.range-guard', bd.mod.path, '%s[%r]' % (cons, L), detail,
                        '%s serves the plain "N <unit>" form (number from the number parser) but returns an unresolved result for '
                        'N in %s with unit %s: "%d %s" is extracted and then left without TIMEX/value; C10 quantifies N over 1..5000'
                        % (cons, ab[L], L, ab[L][0], {'Y': 'years', 'MON': 'months', 'W': 'weeks', 'D': 'days', 'H': 'hours',
                                                      'M': 'minutes', 'S': 'seconds'}[L]), ln)
    if plain < 1:
        raise AnalysisError('BaseDurationParser: no assembly takes its number from the number parser (plain "N <unit>" path not found)')
    ctl = _FakeCls(ast.parse(_RANGE_CONTROL).body[0])
    cfn = ctl.methods['parse_number_space_unit']
    csrc, cfirst = number_source(cfn, 'num')
    ctl.mod = bd.mod
    cab = range_guard_cases(idx, bd, cfn, 'num', 'source_unit', cfirst, consts)
    chk.control('C10.range-guard', csrc == 'parser' and cab['W'] == [1001, 5000] and cab['D'] == [])

    # ---- C10.ampm
    tp = idx.cls(DT + 'base_timeperiod.BaseTimePeriodParser')
    pst = tp.methods.get('parse_specific_time')
    if pst is None:
        raise AnalysisError('anchor vanished: BaseTimePeriodParser.parse_specific_time')
    chk.consulted(tp.mod.path)
    tabs, bl = ampm_tabulate(idx, tp, pst)
    pinned, pin_why = specs_pin_end_12am()
    if pinned is None:
        chk.assume("the Specs still pin a range ending at '12am' to T12 (this tree carries no Specs to confirm it: %s)" % pin_why)
    tolerant = pinned is not False

    def cell_ok(which, desig, h, v):
        if v == ampm_expected(desig, h):
            return True
        return tolerant and (which, desig, h) == PINNED_END_12AM and v in (12, 0, 24)

    got_pinned = tabs[('end', 'am')][12]
    if tolerant and got_pinned == 12:
        chk.observe("C10.ampm: the cell [end point, am, 12] evaluates to 12:00 - accepted because the Specs pin it (%s expects the range "
                    "to end at T12; .NET tests endHour > 12 too); every other cell is exact (begin point 12am -> 00:00)"
                    % (pin_why if pinned else 'DateTimeModel.json "...from 10am-12am tomorrow"'))
    elif not tolerant:
        chk.observe('C10.ampm: no Specs case pins a range ending at 12am to T12 any more (%s): the cell [end point, am, 12] is exact again' % pin_why)
    for (which, desig), tab in sorted(tabs.items()):
        wrong = ['%d%s -> %02d:00 (expected %02d:00)' % (h, desig, v, ampm_expected(desig, h)) for h, v in sorted(tab.items())
                 if not cell_ok(which, desig, h, v)]
        chk.judge(not wrong, 'C10.ampm', tp.mod.path, 'BaseTimePeriodParser.parse_specific_time[%s point, %s]' % (which, desig),
                  'hours 1..12 map correctly' if not wrong else '; '.join(wrong),
                  "both endpoints carry am/pm: the %s point is adjusted wrongly: %s%s" % (
                      which, '; '.join(wrong), " (e.g. 'from 12am to 3am')" if desig == 'am' else ''), bl)
    cfn = _FakeCls(ast.parse(_AMPM_CONTROL).body[0])
    ctabs, _ = ampm_tabulate(idx, tp, cfn.methods['parse_specific_time'])
    chk.control('C10.ampm', ctabs[('begin', 'am')][12] != 0)

    # ---- C10.yearcontext
    dpp = idx.cls(DT + 'base_dateperiod.BaseDatePeriodParser')
    gyc = dpp.methods.get('get_year_context')
    dctx = idx.cls(DT + 'utilities.DateContext')
    ise = dctx.methods.get('is_empty')
    if gyc is None or ise is None:
        raise AnalysisError('anchor vanished: BaseDatePeriodParser.get_year_context / DateContext.is_empty')
    chk.consulted(dpp.mod.path)
    # the sentinel the consumers compare with: DateContext.is_empty() must hold for it and fail for a real year
    INV = consts.get('INVALID_YEAR')

    def empty_for(v):
        def r2(node):
            if ast.unparse(node) == 'self.year':
                return v
            if isinstance(node, ast.Attribute) and isinstance(node.value, ast.Name) and node.value.id == 'Constants' and node.attr in consts:
                return consts[node.attr]
            raise Undetermined('attribute')
        try:
            return bool(MiniEval(idx, dctx, r2).call(ise, []))
        except Undetermined as e:
            raise AnalysisError('DateContext.is_empty cannot be interpreted: %s' % e)
    if not isinstance(INV, int) or not empty_for(INV) or empty_for(2018):
        raise AnalysisError('DateContext.is_empty no longer identifies Constants.INVALID_YEAR (%r) as "no context year"' % INV)
    Y1, Y2 = 2018, 2019
    import itertools
    configs = [()] + [c for n in (1, 2) for c in itertools.product((Y1, Y2), repeat=n)] + \
              [(INV,), (INV, Y2), (Y1, INV), (Y1, INV, Y1), (Y1, INV, Y2), (Y1, Y1, Y1), (Y2, Y2, Y2)]

    def want_ctx(cfg):
        ys = {y for y in cfg if y != INV}
        return next(iter(ys)) if len(ys) == 1 else INV

    def show(cfg):
        return '(%s)' % ', '.join('none' if y == INV else str(y) for y in cfg)
    for cfg in configs:
        got = year_context_eval(idx, dpp, gyc, consts, cfg)
        w = want_ctx(cfg)
        chk.judge(got == w, 'C10.yearcontext', dpp.mod.path, 'BaseDatePeriodParser.get_year_context%s' % show(cfg),
                  'years %s -> %s' % (show(cfg), 'no context' if got == INV else got),
                  "get_year_context: a range text mentioning the years %s yields the context year %s, expected %s - both endpoints of "
                  "'from A to B' are rewritten to the context year" % (show(cfg), 'none' if got == INV else got, 'none' if w == INV else w),
                  gyc.lineno)
    for cfg in itertools.product((Y1, Y2), repeat=3):
        if len(set(cfg)) > 1:
            got = year_context_eval(idx, dpp, gyc, consts, cfg)
            if got != INV:
                chk.observe('get_year_context: three year mentions %s revive the context year %s after two of them differed (the C# original '
                            'breaks out of the loop); no extracted date-period text carries three years, not a verdict' % (show(cfg), got))
                break
    cgy = _FakeCls(ast.parse("class P:\n    def get_year_context(self, config, start_date_str, end_date_str, text):\n"
                             "        context_year = Constants.INVALID_YEAR\n"
                             "        for match in config.year_regex.finditer(text):\n"
                             "            year = config.date_extractor.get_year_from_text(match)\n"
                             "            if year == Constants.INVALID_YEAR:\n                continue\n"
                             "            if context_year != Constants.INVALID_YEAR and context_year != year:\n                break\n"
                             "            context_year = year\n"
                             "        result = DateContext()\n        result.year = context_year\n        return result\n").body[0])
    chk.control('C10.yearcontext', year_context_eval(idx, dpp, cgy.methods['get_year_context'], consts, (Y1, Y2)) != INV)

    # ---- C10.span
    sites = span_sites(idx)
    verdict_sites = 0
    for mod, cls, fn, kind, info in sites:
        cons = '%s.%s' % (cls.name, fn.name)
        chk.consulted(mod.path)
        if kind == 'other':
            chk.exempt('C10.span', mod.path, cons, "writes a 'PT' duration that is not computed from two time points (number+unit, hour numbers, "
                       "seconds count)", 'not a two-time-point span', fn.lineno)
            continue
        verdict_sites += 1
        wrong = []
        base = _dt.datetime(2016, 11, 7, 6, 40, 0)      # non-zero minutes: exercises the minute borrow of field-wise subtractions
        for h, m in span_probe():
            end = base + _dt.timedelta(hours=h, minutes=m)
            if kind == 'datetime-diff':
                tx = span_eval_slice(idx, cls, fn, info[0], info[1], base, end, consts)
            else:
                tx = span_eval_function(idx, cls, fn, base, end)
            parsed = _parse_pt(tx) if isinstance(tx, str) else None
            if parsed is None or abs(parsed[0] - (h * 60 + m)) > 1e-9 or (parsed[1] is not None and float(parsed[1]) >= 60):
                wrong.append('%dh%02dm -> %s' % (h, m, tx if not isinstance(tx, str) else tx[tx.rfind('PT'):]))
        chk.judge(not wrong, 'C10.span', mod.path, cons, '%d probe spans agree' % len(span_probe()) if not wrong else
                  '%d of %d differ; first: %s' % (len(wrong), len(span_probe()), '; '.join(wrong[:3])),
                  '%s: the duration part of the (start,end,duration) TIMEX does not equal end - start: %s (%d of %d probe spans differ)'
                  % (cons, '; '.join(wrong[:4]), len(wrong), len(span_probe())), fn.lineno)
    if verdict_sites < 3:
        raise AnalysisError('only %d hand-assembled two-time-point durations found (expected merge_two_time_points, parse_specific_time, '
                            'the Chinese build_span)' % verdict_sites)
    cs = _FakeCls(ast.parse(_SPAN_CONTROL).body[0])
    ctx_ = span_eval_slice(idx, tp, cs.methods['merge_two_time_points'], 'end_time', 'begin_time', _dt.datetime(2016, 11, 7, 12, 0),
                           _dt.datetime(2016, 11, 7, 16, 30), consts)
    chk.control('C10.span', _parse_pt(ctx_)[0] != 270)

    # ---- C10.span-seconds (the field-wise sites again, with end points given to the second)
    sec_sites = 0
    for mod, cls, fn, kind, info in sites:
        if kind != 'time-fields':
            continue
        cons = '%s.%s' % (cls.name, fn.name)
        if not reads_seconds(fn, list(info)):
            chk.exempt('C10.span-seconds', mod.path, cons, 'the function does not read the seconds of both time points', 'no seconds field', fn.lineno)
            continue
        sec_sites += 1
        wrong, n = [], 0
        for b_, e_ in span_seconds_probe():
            if b_.time() == e_.time():
                continue
            n += 1
            why = span_seconds_cell(span_eval_function(idx, cls, fn, b_, e_), b_, e_)
            if why == 'dropped':
                wrong.append('%s-%s: seconds dropped' % (b_.strftime('%H:%M:%S'), e_.strftime('%H:%M:%S')))
            elif why:
                wrong.append(why)
        chk.judge(not wrong, 'C10.span-seconds', mod.path, cons, '%d probe spans with seconds agree' % n if not wrong else
                  '%d of %d differ; first: %s' % (len(wrong), n, '; '.join(wrong[:3])),
                  '%s: the duration of a range of two clock times given to the second is not the canonical split of end - start: %s (%d of %d '
                  'probe spans differ) - a borrow from a field must run before that field is itself normalised'
                  % (cons, '; '.join(wrong[:4]), len(wrong), n), fn.lineno)
    if sec_sites < 1:
        raise AnalysisError('no field-wise two-time-point duration reads the seconds of its end points (expected the Chinese build_span)')
    css = _FakeCls(ast.parse(_SPAN_SECONDS_CONTROL).body[0])
    ctl_b, ctl_e = _dt.datetime(2016, 11, 7, 14, 15, 30), _dt.datetime(2016, 11, 7, 16, 15, 10)
    chk.control('C10.span-seconds', reads_seconds(css.methods['build_span'], ['left', 'right'])
                and span_seconds_cell(span_eval_function(idx, tp, css.methods['build_span'], ctl_b, ctl_e), ctl_b, ctl_e) not in (None, 'dropped')
                and span_seconds_cell('PT1H59M40S', ctl_b, ctl_e) is None)

    # ---- C10.year-span
    ysites = year_span_sites(idx)
    for mod, cls, fn, tst in ysites:
        cons = '%s.%s' % (cls.name, fn.name)
        chk.consulted(mod.path)
        wrong, judged = [], 0
        ynames = year_span_inputs(cls, fn, tst)[1]
        for braw, eraw in YEAR_SPAN_PROBE:
            tx, fv = year_span_eval(idx, cls, fn, tst, braw, eraw, consts)
            why = year_span_problem(tx, fv)
            if why == 'unordered':
                continue
            judged += 1
            if why:
                wrong.append('%s=%d, %s=%d -> %s' % (ynames[0], braw, ynames[1], eraw, why))
        if judged < 6:
            raise AnalysisError('%s: only %d of %d probe year pairs resolve to an ordered range' % (cons, judged, len(YEAR_SPAN_PROBE)))
        chk.judge(not wrong, 'C10.year-span', mod.path, cons, '%d probe year pairs: TIMEX end points = stored dates, start + duration = end' % judged
                  if not wrong else '%d of %d differ; first: %s' % (len(wrong), judged, '; '.join(wrong[:2])),
                  '%s: the (start,end,duration) TIMEX of a year-to-year range is not self-consistent: %s (%d of %d probe pairs) - the duration '
                  'must be computed from the same years the dates are built from' % (cons, '; '.join(wrong[:3]), len(wrong), judged), tst.lineno)
    if not ysites:
        raise AnalysisError('no hand-assembled (start,end,P{n}Y) TIMEX found (expected the Chinese _parse_year_to_year)')
    cys = _FakeCls(ast.parse(_YEAR_SPAN_CONTROL).body[0])
    cfn_ = cys.methods['_parse_year_to_year']
    cst_ = next(st for st in cfn_.body if isinstance(st, ast.Assign) and isinstance(st.targets[0], ast.Attribute) and st.targets[0].attr == 'timex')
    ctx_y, cfv_y = year_span_eval(idx, dtp_for_control(idx), cfn_, cst_, 98, 2005, consts)
    ctx_o, cfv_o = year_span_eval(idx, dtp_for_control(idx), cfn_, cst_, 1998, 2005, consts)
    chk.control('C10.year-span', year_span_problem(ctx_y, cfv_y) not in (None, 'unordered') and year_span_problem(ctx_o, cfv_o) is None)

    # ---- C10.borrow
    dtp = idx.cls(DT + 'base_datetimeperiod.BaseDateTimePeriodParser')
    mtp = dtp.methods.get('merge_two_time_points')
    if mtp is None:
        raise AnalysisError('anchor vanished: BaseDateTimePeriodParser.merge_two_time_points')
    chk.consulted(dtp.mod.path)
    for case in ('begin', 'end'):
        (gf, gp), (wf, wp) = borrow_eval(idx, dtp, mtp, consts, case)
        for which, got, wantv in (('future', gf, wf), ('past', gp, wp)):
            chk.judge(got == wantv, 'C10.borrow', dtp.mod.path, 'BaseDateTimePeriodParser.merge_two_time_points[%s has the date, %s value]' % (case, which),
                      '%s' % (got,) if got != wantv else 'begin keeps 09:10:11, end keeps 17:20:21, date borrowed',
                      "only the %s point carries a date (%s value): the range is %s, expected (%s, %s) - the undated point takes the other's date and "
                      "keeps its own time" % (case, which, got, wantv[0], wantv[1]), mtp.lineno)
    cb = _FakeCls(ast.parse("class P:\n    def merge_two_time_points(self, source, reference):\n"
                            "        future_begin = parse_result1.value.future_value\n        future_end = parse_result2.value.future_value\n"
                            "        past_begin = parse_result1.value.past_value\n        past_end = parse_result2.value.past_value\n"
                            "        if begin_has_date:\n            pass\n        elif end_has_date:\n"
                            "            future_begin = DateUtils.safe_create_from_min_value(future_end.year, future_end.month, future_end.day, future_begin.hour, future_begin.minute, future_begin.second)\n"
                            "            past_begin = DateUtils.safe_create_from_min_value(past_begin.year, past_begin.month, past_begin.day, past_end.hour, past_end.minute, past_end.second)\n"
                            "        result.future_value = (future_begin, future_end)\n        result.past_value = (past_begin, past_end)\n").body[0])
    cb.mod = dtp.mod
    (cgf, cgp), (cwf, cwp) = borrow_eval(idx, dtp, cb.methods['merge_two_time_points'], consts, 'end')
    chk.control('C10.borrow', cgp != cwp and cgf == cwf)

    # ---- C10.timespan
    fu = idx.cls(DT + 'utilities.DateTimeFormatUtil')
    tu = idx.cls(DT + 'utilities.TimexUtil')
    chk.consulted(fu.mod.path)
    lts = fu.methods.get('luis_time_span')
    guc = tu.methods.get('generate_date_period_timex_unit_count')
    if lts is None or guc is None:
        raise AnalysisError('anchor vanished: luis_time_span / generate_date_period_timex_unit_count')
    b = _dt.datetime(2016, 11, 7, 8, 0, 0)
    samples = [_dt.timedelta(hours=1, minutes=30, seconds=15), _dt.timedelta(days=2, hours=3), _dt.timedelta(minutes=45),
               _dt.timedelta(seconds=30), _dt.timedelta(hours=4), _dt.timedelta(days=1), _dt.timedelta(hours=23, minutes=59, seconds=59)]

    def ref_span(d):
        secs = d.days * 86400 + d.seconds
        h, r = divmod(secs, 3600)
        m, s = divmod(r, 60)
        return 'PT' + ('%dH' % h if h else '') + ('%dM' % m if m else '') + ('%dS' % s if s else '')

    for d in samples:
        try:
            got = MiniEval(idx, fu, res).call(lts, [b, b + d])
        except Undetermined as e:
            raise AnalysisError('luis_time_span cannot be interpreted: %s' % e)
        chk.judge(got == ref_span(d), 'C10.timespan', fu.mod.path, 'DateTimeFormatUtil.luis_time_span(%s)' % d, '%s' % got,
                  'luis_time_span over %s gives %r, end - start is %s' % (d, got, ref_span(d)), lts.lineno)
    pairs = [(_dt.datetime(2016, 11, 7), _dt.datetime(2016, 11, 21)), (_dt.datetime(2016, 11, 7), _dt.datetime(2017, 2, 7)),
             (_dt.datetime(2016, 12, 30), _dt.datetime(2017, 1, 6))]
    want_count = {0: lambda a, c: (c - a).days, 1: lambda a, c: (c - a).days / 7,
                  2: lambda a, c: (c.year - a.year) * 12 + (c.month - a.month)}
    for t, f in want_count.items():
        bad = None
        for a, c in pairs:
            try:
                got = MiniEval(idx, tu, res).call(guc, [a, c, t])
            except Undetermined as e:
                raise AnalysisError('generate_date_period_timex_unit_count cannot be interpreted for type %d: %s' % (t, e))
            if got != f(a, c):
                bad = (a, c, got, f(a, c))
        chk.judge(bad is None, 'C10.timespan', tu.mod.path, 'TimexUtil.generate_date_period_timex_unit_count[type %d]' % t,
                  'agrees on %d sample ranges' % len(pairs) if bad is None else 'differs',
                  'unit count of type %d for %s..%s is %r, expected %r' % ((t,) + (bad or (0, 0, 0, 0))), guc.lineno)
    try:
        MiniEval(idx, tu, res).call(guc, [pairs[0][0], pairs[0][1], 3])
    except Undetermined as e:
        chk.observe('generate_date_period_timex_unit_count(type 3 = years) cannot be evaluated (%s); no caller passes type 3' % e)
    # suffix table
    m = tu.mod
    tab = m.assigns.get('date_period_timex_type_to_suffix')
    if not isinstance(tab, ast.Dict):
        raise AnalysisError('anchor vanished: utilities.date_period_timex_type_to_suffix')
    got = {}
    for k, v in zip(tab.keys, tab.values):
        got[k.value if isinstance(k, ast.Constant) else ast.unparse(k)] = consts.get(v.attr) if isinstance(v, ast.Attribute) else (
            v.value if isinstance(v, ast.Constant) else None)
    for t, want in ((0, 'D'), (1, 'W'), (2, 'M'), (3, 'Y')):
        chk.judge(got.get(t) == want, 'C10.timespan', m.path, 'date_period_timex_type_to_suffix[%d]' % t, '%d -> %r' % (t, got.get(t)),
                  'period type %d (unit count in %s) carries suffix %r, expected %r'
                  % (t, ('days', 'weeks', 'months', 'years')[t], got.get(t), want), tab.lineno)
    ctl = ast.parse("def luis_time_span(begin_time, end_time):\n    span = end_time - begin_time\n    h, r = divmod(span.seconds, 3600)\n    return f'PT{h}M'\n").body[0]
    chk.control('C10.timespan', MiniEval(idx).call(ctl, [b, b + _dt.timedelta(hours=2)]) != 'PT2H')



# ---------------------------------------------------------------------------------------------------------------
# generic rules (lead): cross-cutting necessary conditions scoped to the modules this property is anchored in
# (sa/generic.py: filter predicates depend on their element; regex group names read by the code exist)

def _generic_rules(chk):
    import re as _re_
    from ..index import get_index as _gi
    from ..consteval import Resources as _Res
    from .. import generic as _g
    idx_ = _gi()
    scope = _re_.compile('^(base_)?(duration|timeperiod|datetimeperiod)')
    flt = lambda name: bool(scope.search(name.rsplit('.', 1)[-1]))
    _g.rule_group_names(chk, idx_, _Res(idx_), 'C10.groups', 'recognizers_date_time', flt, floor=3)


_run_before_generic = run


def run(chk):       # noqa: F811
    _run_before_generic(chk)
    _generic_rules(chk)
