"""C09 - dates without a year resolve to the nearest past and next future occurrence.

Decided on the code that picks the two candidates of a year-less month/day (DateUtils.generate_dates,
BaseDateParser.parse_number_with_month) and of a bare weekday (the week_day_regex branch of parse_implicit_date,
base and Chinese):

  C09.kinds     mixed-granularity comparison rule: a value of kind DateOnly (safe_create*/datetime(y, m, d) without
                time arguments, .date(), .replace(hour=0, minute=0, second=0), DateOnly +- whole days/months/years) is
                never ordered (<, <=, >, >=) against a value of kind DateTime (a `datetime` parameter such as
                `reference`, DateTime +- timedelta, DateUtils.this/next/last of a DateTime) - on the reference day
                itself the time of day would decide which candidate is "past".
  C09.polarity  a candidate is moved forward (+1 year, +7 days; +4 years under the Feb-29 guard) only under
                `candidate < reference`, moved back (-1 year, -7 days, -4 years) only under `candidate >= reference`
                (or the else of the `<` test on an identically built candidate).
  C09.wiring    the forward-moved candidate flows to future_value (first element of generate_dates' result, unpacked
                into future_value at every call site), the backward-moved one to past_value.
  C09.order     _date_time_resolution (base and Chinese) emits resolveToPast before resolveToFuture, each from the
                resolution of the same name; _resolve_ampm is applied in the same order.
  C09.feb29     DateUtils.generate_dates is evaluated by a small concrete interpreter (DateUtils helpers interpreted from
                their source) on midnight references before / on / after 29 February in leap and non-leap years, and on plain
                month/day probes: past = latest occurrence strictly before the reference date, future = earliest on or after.
  C09.weekday   the bare-weekday branch (base and Chinese) is evaluated over weekday table values 0..7 x 7 reference weekdays
                x 00:00/12:00 against the same specification; the sibling implementations must agree.
  C09.lookup-case  every `x in self.config.<dict>` / `self.config.<dict>[x]` / `.get(x)` whose key derives from a regex group
                (flow-sensitive inside the function; parameter and return states by a fixpoint over the self.<m>() call sites,
                entry points parse / extract are raw) sees lower-cased text when every key of the culture's table(s) is lower
                case: the capture passes through .lower() or the searched text was lower-cased.
  C09.numeric-order  per culture, under the default configuration, the first pattern of date_regex_list that can read a bare
                `a/b` / `a-b` (no look-behind context) has the day/month group order the culture declares
                (DefaultLanguageFallback); dotted layouts are fixed by the Specs and only observed.
  C09.numeric-priority  where the extractor configuration takes a day-first flag (it models both orders), every year-less
                `a/b` / `a-b` that layouts of both orders can span - as written or behind the parser's date token prefix, the
                two attempts of parse_basic_regex_match - is first spanned, in list order, by a layout of the declared order
                under the default and by a day-first layout under the flag (the list is evaluated from __init__, the patterns
                are matched concretely).
  C09.day-guard  the guard BaseDateExtractor.number_with_month puts on the day number parsed next to a month (guard clauses /
                wrapping condition on that number alone, at the top level of the loop) is tabulated over -2..40 from the test as
                written and lets every calendar day 1..31 through.
"""
import ast

from ..core import AnalysisError, rel
from ..index import get_index

LEVEL = 'other'
DESIGN_REF = 'DESIGN.md#c09'
META = {
    'text': 'C09 (partial): the past/future candidates of a year-less date or bare weekday are never ordered against a '
            'reference that still carries its time of day (granularity kinds), they move +-1 year / +-7 days (4 years for '
            '29 February) with the right polarity, reach future_value / past_value uncrossed, and are emitted past first',
    'note': 'Not decided: leap-year arithmetic inside the non-leap Feb-29 branch, validity filtering (is_valid_date), '
            'which surface layouts reach which function, the TIMEX strings, other cultures\' month/weekday tables. Kinds are '
            'inferred inside one function; a datetime parameter is assumed to carry a time of day (recognize_datetime passes '
            'the caller\'s reference unchanged). The same comparison shape in day-only branches ("on the 12th", a single '
            'number, Chinese this-month forms) is outside the property\'s quantifier and reported as observations only. '
            'The priority among competing year-less numeric layouts is armed only where the configuration takes a day-first '
            'flag (English); the day guard of number_with_month is read at the top level of its loop only.',
    'technique': 'intra-procedural, flow-sensitive abstract interpretation over ast (kinds DateOnly / DateTime / unknown, '
                 'join at control-flow merges), path conditions from if/else chains, linear shift extraction '
                 '(year +- k, timedelta(weeks/days), datedelta, replace(year=..)), dataflow to future_value/past_value',
}

PKG = 'recognizers_date_time.date_time'
D, T, U = 'DateOnly', 'DateTime', '?'
CTORS = {'safe_create_from_min_value': 0, 'safe_create_from_value': 1, 'safe_create_date_resolve_overflow': 0, 'datetime': 0}
TIME_KW = {'hour', 'minute', 'second', 'microsecond'}
ORD = {ast.Lt: '<', ast.LtE: '<=', ast.Gt: '>', ast.GtE: '>='}
FLIP = {'<': '>', '<=': '>=', '>': '<', '>=': '<='}
NEG = {'<': '>=', '<=': '>', '>': '<=', '>=': '<'}


def callee_name(call):
    f = call.func
    if isinstance(f, ast.Attribute):
        return f.attr
    if isinstance(f, ast.Name):
        return f.id
    return None


def const_int(e):
    if isinstance(e, ast.Constant) and isinstance(e.value, int) and not isinstance(e.value, bool):
        return e.value
    if isinstance(e, ast.UnaryOp) and isinstance(e.op, ast.USub):
        v = const_int(e.operand)
        return -v if v is not None else None
    return None


def delta_of(call):
    """timedelta/datedelta call -> (unit, amount, date_preserving) or None"""
    if not isinstance(call, ast.Call):
        return None
    n = callee_name(call)
    if n not in ('timedelta', 'datedelta') or call.args:
        return None
    if len(call.keywords) != 1:
        return (None, None, all(k.arg in ('days', 'weeks', 'months', 'years') for k in call.keywords))
    k = call.keywords[0]
    amt = const_int(k.value)
    if k.arg == 'weeks':
        return ('days', amt * 7 if amt is not None else None, True)
    if k.arg in ('days', 'months', 'years'):
        return (k.arg, amt, True)
    return (k.arg, amt, False)


class Kinds:
    """flow-sensitive kind inference; records every ordering comparison with the kinds of both sides"""

    def __init__(self, fn):
        self.fn = fn
        self.cmps = []          # (node, op, kinds_left, kinds_right, region)
        self.region = None
        self.env = {}
        args = fn.args.posonlyargs + fn.args.args + fn.args.kwonlyargs
        for a in args:
            ann = a.annotation
            if isinstance(ann, ast.Name) and ann.id == 'datetime':
                self.env[a.arg] = frozenset([T])
        self.dt_params = set(self.env)

    # ---- expressions
    def kind(self, e, env):
        if isinstance(e, ast.Name):
            return env.get(e.id, frozenset([U]))
        if isinstance(e, ast.IfExp):
            return self.kind(e.body, env) | self.kind(e.orelse, env)
        if isinstance(e, ast.Call):
            n = callee_name(e)
            if n in CTORS:
                date_args = e.args[CTORS[n]:]
                kws = {k.arg for k in e.keywords}
                if len(date_args) <= 3 and not (kws & TIME_KW):
                    return frozenset([D])
                extra = list(date_args[3:]) + [k.value for k in e.keywords if k.arg in TIME_KW]
                if all(const_int(x) == 0 for x in extra):
                    return frozenset([D])
                return frozenset([T])
            if n == 'safe_create_from_min_value_date_time':
                return frozenset([D]) if len(e.args) + len(e.keywords) == 1 else frozenset([T])
            if n == 'date' and isinstance(e.func, ast.Attribute) and not e.args:
                return frozenset([D])
            if n == 'replace' and isinstance(e.func, ast.Attribute):
                base = self.kind(e.func.value, env)
                kws = {k.arg: k.value for k in e.keywords}
                if {'hour', 'minute', 'second'} <= set(kws) and all(const_int(kws[k]) == 0 for k in kws if k in TIME_KW):
                    return frozenset([D])
                if set(kws) <= {'year', 'month', 'day'}:
                    return base
                return frozenset([U])
            if n in ('this', 'next', 'last') and e.args:
                return self.kind(e.args[0], env)
            if n in ('now', 'today', 'utcnow'):
                return frozenset([T])
            return frozenset([U])
        if isinstance(e, ast.BinOp) and isinstance(e.op, (ast.Add, ast.Sub)):
            base = self.kind(e.left, env)
            d = delta_of(e.right)
            if d is None:
                return frozenset([U])
            if d[2]:
                return base
            return frozenset(T if k == D else k for k in base)
        return frozenset([U])

    def scan_expr(self, e, env):
        for n in ast.walk(e):
            if isinstance(n, ast.Compare):
                terms = [n.left] + list(n.comparators)
                for i, op in enumerate(n.ops):
                    if type(op) in ORD:
                        self.cmps.append((n, ORD[type(op)], terms[i], terms[i + 1],
                                          self.kind(terms[i], env), self.kind(terms[i + 1], env), self.region))

    # ---- statements
    def walk(self, stmts, env, top=False):
        for s in stmts:
            if top:
                self.note_region(s)
            self.stmt(s, env)
        return env

    def note_region(self, s):
        """top-level `match = regex.<f>(self.config.<slot>, ...)` names the branch that follows"""
        if isinstance(s, ast.Assign) and len(s.targets) == 1 and isinstance(s.targets[0], ast.Name) \
                and isinstance(s.value, ast.Call) and s.value.args:
            a = s.value.args[0]
            if isinstance(a, ast.Attribute) and isinstance(a.value, ast.Attribute) and a.value.attr == 'config':
                self.region = a.attr
            elif isinstance(a, ast.Attribute) and isinstance(a.value, ast.Name) and a.value.id == 'self':
                self.region = a.attr

    @staticmethod
    def join(a, b):
        out = {}
        for k in set(a) | set(b):
            out[k] = a.get(k, frozenset([U])) | b.get(k, frozenset([U]))
        return out

    def stmt(self, s, env):
        if isinstance(s, ast.Assign):
            self.scan_expr(s.value, env)
            for t in s.targets:
                self.assign(t, s.value, env)
        elif isinstance(s, ast.AnnAssign):
            if s.value is not None:
                self.scan_expr(s.value, env)
                self.assign(s.target, s.value, env)
        elif isinstance(s, ast.AugAssign):
            self.scan_expr(s.value, env)
            if isinstance(s.target, ast.Name):
                env[s.target.id] = self.kind(ast.BinOp(left=ast.Name(id=s.target.id, ctx=ast.Load()), op=s.op, right=s.value), env)
        elif isinstance(s, ast.If):
            self.scan_expr(s.test, env)
            e1 = self.walk(s.body, dict(env))
            e2 = self.walk(s.orelse, dict(env))
            env.clear()
            env.update(self.join(e1, e2))
        elif isinstance(s, (ast.While, ast.For)):
            if isinstance(s, ast.While):
                self.scan_expr(s.test, env)
            else:
                self.scan_expr(s.iter, env)
                for n in ast.walk(s.target):
                    if isinstance(n, ast.Name):
                        env[n.id] = frozenset([U])
            e1 = self.walk(s.body, dict(env))
            if isinstance(s, ast.While):
                self.scan_expr(s.test, e1)
            e1 = self.walk(s.body, self.join(env, e1))     # second pass with the loop-carried kinds
            e2 = self.walk(s.orelse, dict(env))
            j = self.join(self.join(env, e1), e2)
            env.clear()
            env.update(j)
        elif isinstance(s, ast.Try):
            self.walk(s.body, env)
            for h in s.handlers:
                self.walk(h.body, env)
            self.walk(s.orelse, env)
            self.walk(s.finalbody, env)
        elif isinstance(s, ast.With):
            self.walk(s.body, env)
        elif isinstance(s, (ast.Return, ast.Expr)):
            if s.value is not None:
                self.scan_expr(s.value, env)
        elif isinstance(s, (ast.FunctionDef, ast.AsyncFunctionDef, ast.ClassDef)):
            pass

    def assign(self, target, value, env):
        if isinstance(target, ast.Name):
            env[target.id] = self.kind(value, env)
        elif isinstance(target, (ast.Tuple, ast.List)):
            k = frozenset([D]) if isinstance(value, ast.Call) and callee_name(value) == 'generate_dates' else frozenset([U])
            if isinstance(value, (ast.Tuple, ast.List)) and len(value.elts) == len(target.elts):
                for t, v in zip(target.elts, value.elts):
                    self.assign(t, v, env)
                return
            for t in target.elts:
                if isinstance(t, ast.Name):
                    env[t.id] = k

    def run(self):
        self.walk(self.fn.body, self.env, top=True)
        merged, order = {}, []
        for node, op, a, b, ka, kb, reg in self.cmps:       # loop bodies are walked twice: merge the kinds seen
            key = (id(a), id(b))
            if key in merged:
                m = merged[key]
                m[4], m[5] = m[4] | ka, m[5] | kb
            else:
                merged[key] = [node, op, a, b, ka, kb, reg]
                order.append(key)
        self.cmps = [tuple(merged[k]) for k in order]
        return self.cmps


def kinds_str(k):
    return '|'.join(sorted(k))


def mixed(kl, kr):
    return (D in kl and T in kr) or (T in kl and D in kr)


def parents_of(fn):
    par = {}
    for n in ast.walk(fn):
        for ch in ast.iter_child_nodes(n):
            par[ch] = n
    return par


def _predicates(test, positive, out):
    """calls of is_*/has_* predicates whose truth value is implied when `test` is known to be `positive`"""
    if isinstance(test, ast.UnaryOp) and isinstance(test.op, ast.Not):
        _predicates(test.operand, not positive, out)
    elif isinstance(test, ast.BoolOp):
        if (isinstance(test.op, ast.And) and positive) or (isinstance(test.op, ast.Or) and not positive):
            for v in test.values:
                _predicates(v, positive, out)
    elif isinstance(test, ast.Call) and callee_name(test) and callee_name(test).lower().startswith(('is_', 'has_')):
        out.append(('' if positive else '!') + callee_name(test))


def guard_calls(node, par, stop):
    """predicates known to hold / not hold at `node`: from the enclosing if / else branches and from earlier guard clauses
    (`if <test>: ... return`) of the blocks around it: ['is_Feb_29th', '!is_leap_year', ...]"""
    out = []
    cur = node
    while cur is not stop and cur in par:
        p = par[cur]
        if isinstance(p, ast.If):
            if any(cur is s for s in p.body):
                _predicates(p.test, True, out)
            elif any(cur is s for s in p.orelse):
                _predicates(p.test, False, out)
        for fld in ('body', 'orelse', 'finalbody'):
            block = getattr(p, fld, None)
            if isinstance(block, list) and any(cur is s for s in block):
                for st in block:
                    if st is cur:
                        break
                    if isinstance(st, ast.If) and st.body and isinstance(st.body[-1], (ast.Return, ast.Raise, ast.Continue, ast.Break)) \
                            and not st.orelse:
                        _predicates(st.test, False, out)
        cur = p
    return sorted(set(out))


def candidate_roles(fn):
    """{local: 'future' | 'past'}: what flows to <x>.future_value / .past_value, or is returned as (future, past)"""
    roles = {}

    def note(name, role):
        roles[name] = role if roles.get(name, role) == role else 'either'

    for n in ast.walk(fn):
        if isinstance(n, ast.Assign):
            for t in n.targets:
                if isinstance(t, ast.Attribute) and t.attr in ('future_value', 'past_value'):
                    for x in ast.walk(n.value):
                        if isinstance(x, ast.Name):
                            note(x.id, t.attr.split('_')[0])
        elif isinstance(n, ast.Return) and isinstance(n.value, ast.Tuple) and len(n.value.elts) == 2 \
                and all(isinstance(e, ast.Name) for e in n.value.elts):
            note(n.value.elts[0].id, 'future')
            note(n.value.elts[1].id, 'past')
    return {k: v for k, v in roles.items() if v != 'either'}


# ---------------------------------------------------------------------------------------------------
# shifts and polarity

def shift_of(stmt):
    """-> (var, unit, amount) when the statement moves a candidate date, else None"""
    if isinstance(stmt, ast.AugAssign) and isinstance(stmt.target, ast.Name) and isinstance(stmt.op, (ast.Add, ast.Sub)):
        d = delta_of(stmt.value)
        if d and d[0] and d[1] is not None:
            amt = d[1] if isinstance(stmt.op, ast.Add) else -d[1]
            return (stmt.target.id, d[0], amt)
        return None
    if isinstance(stmt, ast.Assign) and len(stmt.targets) == 1 and isinstance(stmt.targets[0], ast.Name):
        x, v = stmt.targets[0].id, stmt.value
        if isinstance(v, ast.BinOp) and isinstance(v.op, (ast.Add, ast.Sub)) and isinstance(v.left, ast.Name) and v.left.id == x:
            d = delta_of(v.right)
            if d and d[0] and d[1] is not None:
                return (x, d[0], d[1] if isinstance(v.op, ast.Add) else -d[1])
        if isinstance(v, ast.Call):
            n = callee_name(v)
            if n in CTORS and len(v.args) > CTORS[n]:
                y = v.args[CTORS[n]]
                if isinstance(y, ast.BinOp) and isinstance(y.op, (ast.Add, ast.Sub)) and const_int(y.right) is not None \
                        and not isinstance(y.left, ast.Constant):
                    return (x, 'years', const_int(y.right) if isinstance(y.op, ast.Add) else -const_int(y.right))
            if n == 'replace' and isinstance(v.func, ast.Attribute):
                for k in v.keywords:
                    if k.arg in ('year', 'month', 'day') and isinstance(k.value, ast.BinOp) \
                            and isinstance(k.value.op, (ast.Add, ast.Sub)) and const_int(k.value.right) is not None:
                        amt = const_int(k.value.right)
                        return (x, k.arg + 's', amt if isinstance(k.value.op, ast.Add) else -amt)
    return None


def reference_like(fn, dt_params):
    """the datetime parameters plus locals computed from them alone (e.g. a truncated copy of the reference)"""
    ref_like = set(dt_params)
    for _ in range(3):
        for n in ast.walk(fn):
            if isinstance(n, ast.Assign) and len(n.targets) == 1 and isinstance(n.targets[0], ast.Name):
                names = {x.id for x in ast.walk(n.value) if isinstance(x, ast.Name) and not x.id[:1].isupper()
                         and x.id not in ('datetime', 'timedelta', 'datedelta', 'self')}
                if names and names <= ref_like:
                    ref_like.add(n.targets[0].id)
    # a name that is also assigned from something else is not a pure copy of the reference
    for n in ast.walk(fn):
        if isinstance(n, ast.Assign) and len(n.targets) == 1 and isinstance(n.targets[0], ast.Name) \
                and n.targets[0].id in ref_like and n.targets[0].id not in dt_params:
            names = {x.id for x in ast.walk(n.value) if isinstance(x, ast.Name) and not x.id[:1].isupper()
                     and x.id not in ('datetime', 'timedelta', 'datedelta', 'self')}
            if not (names and names <= ref_like):
                ref_like.discard(n.targets[0].id)
    return ref_like


def cand_ref_compare(test, dt_params, ref_like):
    """conjunct `cand <op> ref` (either order) -> (cand name, normalised op) list"""
    out = []
    conj = test.values if isinstance(test, ast.BoolOp) and isinstance(test.op, ast.And) else [test]
    for c in conj:
        if isinstance(c, ast.Compare) and len(c.ops) == 1 and type(c.ops[0]) in ORD:
            a, b, op = c.left, c.comparators[0], ORD[type(c.ops[0])]
            if isinstance(a, ast.Name) and isinstance(b, ast.Name):
                if b.id in ref_like and a.id not in ref_like:
                    out.append((a.id, op))
                elif a.id in ref_like and b.id not in ref_like:
                    out.append((b.id, FLIP[op]))
    return out


def polarity_scan(fn, region_of=None):
    """-> list of {var, unit, amount, cond_var, op, line, guards, same, region}"""
    k = Kinds(fn)
    k.run()
    ref_like = reference_like(fn, k.dt_params)
    par = parents_of(fn)
    # last top-down constructor expression per name (to recognise identically built candidates)
    built = {}
    for n in ast.walk(fn):
        if isinstance(n, ast.Assign) and len(n.targets) == 1 and isinstance(n.targets[0], ast.Name):
            built.setdefault(n.targets[0].id, ast.dump(n.value))
    out = []
    for n in ast.walk(fn):
        if not isinstance(n, ast.If):
            continue
        cr = cand_ref_compare(n.test, k.dt_params, ref_like)
        if not cr:
            continue
        for branch, negate in ((n.body, False), (n.orelse, True)):
            for s in branch:
                sh = shift_of(s)
                if not sh:
                    continue
                var, unit, amt = sh
                # prefer the comparison on the moved variable itself
                pick = [c for c in cr if c[0] == var] or cr
                cvar, op = pick[0]
                if negate:
                    op = NEG[op]
                same = cvar == var or (built.get(cvar) is not None and built.get(cvar) == built.get(var))
                out.append({'var': var, 'unit': unit, 'amount': amt, 'cond_var': cvar, 'op': op, 'line': s.lineno,
                            'guards': guard_calls(n, par, fn), 'same': same, 'node': s, 'if': n})
    return out


def polarity_verdict(p):
    msgs = []
    fwd = p['amount'] > 0
    if not p['same']:
        msgs.append('the test is on a different, differently built candidate than the one moved')
    if fwd and p['op'] != '<':
        msgs.append('a candidate is moved forward (%+d %s) under `candidate %s reference`; only `<` (strictly before the '
                    'reference) may move it forward' % (p['amount'], p['unit'], p['op']))
    if not fwd and p['op'] != '>=':
        msgs.append('a candidate is moved back (%+d %s) under `candidate %s reference`; only `>=` (on or after the '
                    'reference) may move it back' % (p['amount'], p['unit'], p['op']))
    feb29 = any(g.lstrip('!').lower().startswith('is_feb_29') and not g.startswith('!') for g in p['guards'])
    want = {'years': 4 if feb29 else 1, 'days': 7}.get(p['unit'])
    if want is None:
        msgs.append('unit %s is not a year or week step' % p['unit'])
    elif abs(p['amount']) != want:
        msgs.append('step is %+d %s, expected +-%d%s' % (p['amount'], p['unit'], want, ' (29 February: neighbouring leap years)' if feb29 else ''))
    return msgs


KINDS_CONTROL = '''
def gen(no_year: bool, reference: datetime, year: int, month: int, day: int):
    future_date = DateUtils.safe_create_from_min_value(year, month, day)
    past_date = DateUtils.safe_create_from_min_value(year, month, day)
    today = reference.replace(hour=0, minute=0, second=0, microsecond=0)
    if future_date < reference:
        future_date = DateUtils.safe_create_from_min_value(year + 1, month, day)
    if past_date >= today:
        past_date = DateUtils.safe_create_from_min_value(year + 1, month, day)
    return future_date, past_date
'''


# ---------------------------------------------------------------------------------------------------

def scoped_functions(idx):
    """[(mod, cls, fn, region filter or None)]"""
    out = []
    du = idx.cls(PKG + '.utilities.DateUtils')
    if 'generate_dates' not in du.methods:
        raise AnalysisError('anchor vanished: DateUtils.generate_dates')
    out.append((du.mod, du, du.methods['generate_dates'], None))
    bd = idx.cls(PKG + '.base_date.BaseDateParser')
    for name, region in (('parse_number_with_month', None), ('parse_implicit_date', 'week_day_regex')):
        if name not in bd.methods:
            raise AnalysisError('anchor vanished: BaseDateParser.%s' % name)
        out.append((bd.mod, bd, bd.methods[name], region))
    for c in idx.subclasses(bd):
        for name, region in (('parse_number_with_month', None), ('parse_implicit_date', 'week_day_regex')):
            if name in c.methods:
                out.append((c.mod, c, c.methods[name], region))
    return out


def other_date_functions(idx):
    bd = idx.cls(PKG + '.base_date.BaseDateParser')
    for c in [bd] + idx.subclasses(bd):
        for name, fn in sorted(c.methods.items()):
            if name.startswith('parse') or name.startswith('match_to'):
                yield c.mod, c, fn


def region_of_node(fn, node, par):
    """slot name of the top-level `match = regex.f(self.config.<slot>, ..)` preceding the top-level statement holding node"""
    cur = node
    while cur in par and par[cur] is not fn:
        cur = par[cur]
    k = Kinds(fn)
    for s in fn.body:
        k.note_region(s)
        if s is cur:
            return k.region
    return None


def rule_kinds(chk, idx, scoped):
    rid = 'C09.kinds'
    chk.rule(rid, 'no ordering comparison between a date-only candidate and a reference that carries its time of day',
             floor=6, control=True)
    ctl = Kinds(ast.parse(KINDS_CONTROL).body[0]).run()
    chk.control(rid, [mixed(c[4], c[5]) for c in ctl] == [True, False])
    seen_fn = set()
    for mod, cls, fn, region in scoped:
        seen_fn.add(fn)
        chk.consulted(mod.path)
        k = Kinds(fn)
        cmps = k.run()
        par = parents_of(fn)
        if region is not None and not any(c[6] == region for c in cmps):
            if weekday_branch(fn) is None:
                raise AnalysisError('%s.%s: branch guarded by self.config.%s not found (weekday branch moved?)'
                                    % (cls.name, fn.name, region))
            chk.observe('%s.%s[%s]: no ordering comparison against the reference in this branch; it is decided by the '
                        'tabulation rule C09.weekday alone' % (cls.name, fn.name, region))
        roles = candidate_roles(fn)
        judged = set()
        for node, op, a, b, ka, kb, reg in cmps:
            if region is not None and reg != region:
                continue
            if not ({D, T} & (ka | kb)):
                continue
            # identity = the comparison itself (operator, kind of each operand, which candidate it guards); one instance per
            # distinct comparison per function, however many syntactic copies the function contains
            role = sorted({roles[x.id] for x in (a, b) if isinstance(x, ast.Name) and x.id in roles})
            detail = '%s %s %s (%s candidate)' % (kinds_str(ka), op, kinds_str(kb), '/'.join(role) if role else 'a')
            if detail in judged:
                continue
            judged.add(detail)
            construct = '%s.%s' % (cls.name, fn.name)
            chk.judge(not mixed(ka, kb), rid, mod.path, construct, detail,
                      '`%s %s %s` orders a date-only value (midnight) against a datetime that still carries its time of day: '
                      'when the stated day is the reference day, the outcome depends on the time of the reference'
                      % (ast.unparse(a), op, ast.unparse(b)), node.lineno)
    # the same shape outside the property's quantifier: observations only
    obs = {}
    for mod, cls, fn in other_date_functions(idx):
        k = Kinds(fn)
        for node, op, a, b, ka, kb, reg in k.run():
            if mixed(ka, kb) and not (fn in seen_fn and (reg == 'week_day_regex' or fn.name != 'parse_implicit_date')):
                where = '%s %s.%s%s' % (rel(mod.path), cls.name, fn.name, '[%s]' % reg if reg else '')
                obs.setdefault(where, []).append('%d: %s %s %s' % (node.lineno, ast.unparse(a), op, ast.unparse(b)))
    for where, items in sorted(obs.items()):
        chk.observe('%s: date-only candidate ordered against the raw reference (%s) - same shape, but day-only / other '
                    'layouts are outside C09\'s quantifier' % (where, '; '.join(items)))


def rule_polarity(chk, idx, scoped):
    rid, rw = 'C09.polarity', 'C09.wiring'
    chk.rule(rid, 'forward moves (+1 year / +7 days / +4 years for Feb 29) only under candidate < reference, backward moves '
                  'only under candidate >= reference', floor=6, control=True)
    chk.rule(rw, 'the forward-moved candidate reaches future_value, the backward-moved one past_value', floor=4)
    ctl = polarity_scan(ast.parse(KINDS_CONTROL).body[0])
    chk.control(rid, [bool(polarity_verdict(p)) for p in sorted(ctl, key=lambda p: p['line'])] == [False, True])
    gen_order = None
    for mod, cls, fn, region in scoped:
        par = parents_of(fn)
        ps = polarity_scan(fn)
        if region is not None:
            ps = [p for p in ps if region_of_node(fn, p['node'], par) == region]
        if fn.name != 'parse_number_with_month' or cls.name == 'BaseDateParser':
            if not ps:
                if region is not None and weekday_branch(fn) is not None:
                    chk.observe('%s.%s[%s]: candidates are not moved under a comparison with the reference; polarity and wiring '
                                'are decided by the tabulation rule C09.weekday' % (cls.name, fn.name, region))
                    continue
                raise AnalysisError('%s.%s: no candidate move under a comparison with the reference recognised' % (cls.name, fn.name))
        construct = '%s.%s' % (cls.name, fn.name)
        fwd, back = set(), set()
        counts = {}
        for p in sorted(ps, key=lambda p: p['line']):
            feb29 = any(g.lower().startswith('is_feb_29') for g in p['guards'])
            detail = 'move %+d %s under candidate %s reference%s' % (p['amount'], p['unit'], p['op'],
                                                                     ' [29 February]' if feb29 else '')
            if not p['same']:
                detail += ' (tested candidate differs)'
            msgs = polarity_verdict(p)
            if detail not in counts:          # one instance per distinct move per function
                chk.judge(not msgs, rid, mod.path, construct, detail, '; '.join(msgs), p['line'])
            counts[detail] = 1
            # role of a variable = role given by the comparison that guards its move
            (fwd if p['op'] in ('<', '<=') else back).add(p['var'])
        # ---- wiring
        amb = fwd & back
        if amb:
            chk.bad(rw, mod.path, construct, 'same variable moved under both < and >=', 'candidate variable(s) %s are moved '
                    'under both polarities' % sorted(amb), fn.lineno)
            continue
        sinks = {}
        for n in ast.walk(fn):
            if isinstance(n, ast.Assign):
                for t in n.targets:
                    if isinstance(t, ast.Attribute) and t.attr in ('future_value', 'past_value'):
                        if region is not None and region_of_node(fn, n, par) != region:
                            continue
                        names = {x.id for x in ast.walk(n.value) if isinstance(x, ast.Name)}
                        sinks.setdefault(t.attr, []).append((n, names))
        if fn.name == 'generate_dates':
            rets = [n for n in ast.walk(fn) if isinstance(n, ast.Return) and isinstance(n.value, ast.Tuple) and len(n.value.elts) == 2]
            if not rets:
                raise AnalysisError('DateUtils.generate_dates: no `return a, b` found')
            for r in rets:
                a, b = r.value.elts
                ok = isinstance(a, ast.Name) and isinstance(b, ast.Name) and a.id in fwd and b.id in back
                chk.judge(ok, rw, mod.path, construct, 'returns (forward-moved, backward-moved)',
                          'generate_dates does not return (future candidate, past candidate) in that order', r.lineno)
            gen_order = True
            continue
        if not sinks:
            raise AnalysisError('%s: no future_value / past_value assignment found' % construct)
        for attr, role, other in (('future_value', fwd, back), ('past_value', back, fwd)):
            for n, names in sinks.get(attr, []):
                ok = bool(names & role) and not (names & other)
                chk.judge(ok, rw, mod.path, construct, '%s <- %s-moved candidate' % (attr, 'forward' if attr == 'future_value' else 'backward'),
                          '%s is assigned from %s, which is not the candidate moved %s' %
                          (attr, ast.unparse(n.value), 'forward' if attr == 'future_value' else 'back'), n.lineno)
    # call sites of generate_dates
    ncall = 0
    nth = {}
    for mod in [m for n, m in sorted(idx.mods.items()) if n.startswith(PKG)]:
        for m, cls, fn in idx.functions(mod):
            for n in ast.walk(fn):
                if isinstance(n, ast.Assign) and isinstance(n.value, ast.Call) and callee_name(n.value) == 'generate_dates':
                    ncall += 1
                    construct = '%s.%s' % (cls.name if cls else '', fn.name)
                    t = n.targets[0]
                    if isinstance(t, ast.Name):
                        # pair kept in one name: element [0] must feed future_value, [1] past_value
                        par = parents_of(fn)
                        uses = []
                        for u in ast.walk(fn):
                            if isinstance(u, ast.Subscript) and isinstance(u.value, ast.Name) and u.value.id == t.id \
                                    and const_int(u.slice) in (0, 1):
                                cur, sink = u, None
                                while cur in par and sink is None:
                                    cur = par[cur]
                                    if isinstance(cur, ast.Assign):
                                        sink = [x.attr for x in cur.targets if isinstance(x, ast.Attribute)]
                                uses.append((const_int(u.slice), (sink or ['?'])[0]))
                        ok = bool(uses) and all((i == 0 and a == 'future_value') or (i == 1 and a == 'past_value') for i, a in uses)
                        nth[construct] = nth.get(construct, 0) + 1
                        chk.judge(ok, rw, mod.path, construct + '#%d' % nth[construct], 'generate_dates()[0] -> future_value, [1] -> past_value',
                                  'elements of the pair returned by generate_dates are used as %s' % sorted(set(uses)), n.lineno)
                        chk.consulted(mod.path)
                        continue
                    if isinstance(t, ast.Tuple) and len(t.elts) == 2 and all(isinstance(e, ast.Attribute) for e in t.elts):
                        # unpacked straight into <x>.future_value, <x>.past_value
                        attrs = [e.attr for e in t.elts]
                        chk.judge(attrs == ['future_value', 'past_value'], rw, mod.path, construct,
                                  'generate_dates()[0] -> future_value, [1] -> past_value',
                                  'the pair returned by generate_dates is unpacked into (%s), not (future_value, past_value)'
                                  % ', '.join(attrs), n.lineno)
                        chk.consulted(mod.path)
                        continue
                    if not (isinstance(t, ast.Tuple) and len(t.elts) == 2 and all(isinstance(e, ast.Name) for e in t.elts)):
                        raise AnalysisError('%s:%d generate_dates result not unpacked into two names' % (rel(mod.path), n.lineno))
                    a, b = t.elts[0].id, t.elts[1].id
                    fut = [s for s in ast.walk(fn) if isinstance(s, ast.Assign) and any(isinstance(x, ast.Attribute) and x.attr == 'future_value' for x in s.targets)]
                    pst = [s for s in ast.walk(fn) if isinstance(s, ast.Assign) and any(isinstance(x, ast.Attribute) and x.attr == 'past_value' for x in s.targets)]
                    ok = bool(fut) and bool(pst) and all(isinstance(s.value, ast.Name) and s.value.id == a for s in fut) \
                        and all(isinstance(s.value, ast.Name) and s.value.id == b for s in pst)
                    chk.judge(ok, rw, mod.path, construct, 'generate_dates()[0] -> future_value, [1] -> past_value',
                              'the pair returned by generate_dates is not stored as (future_value, past_value)', n.lineno)
                    chk.consulted(mod.path)
    if ncall < 2:
        raise AnalysisError('fewer than 2 call sites of generate_dates found (%d)' % ncall)


# ---------------------------------------------------------------------------------------------------
# concrete mini-interpreter (own evaluation of a small Python subset; nothing from /repo is imported or executed)

import datetime as _dt


class Unreadable(Exception):
    """the interpreter met a construct / value it cannot follow"""


class PyRaise(Exception):
    """the interpreted code raises (e.g. ValueError from datetime(2017, 2, 29))"""

    def __init__(self, exc):
        Exception.__init__(self, repr(exc))
        self.exc = exc


class _Return(Exception):
    def __init__(self, value):
        self.value = value


class Opaque:
    """a value the interpreter does not model (results of unknown calls, self, regex matches ...)"""

    def __repr__(self):
        return '<opaque>'


OPAQUE = Opaque()


class Obj:
    """attribute bag standing in for result objects"""

    def __init__(self):
        self.attrs = {}


class ClassRef:
    def __init__(self, cls):
        self.cls = cls


class FuncRef:
    def __init__(self, mod, cls, fn):
        self.mod, self.cls, self.fn = mod, cls, fn


BUILTINS = {'int': int, 'str': str, 'len': len, 'abs': abs, 'min': min, 'max': max, 'bool': bool, 'round': round,
            'datetime': _dt.datetime, 'timedelta': _dt.timedelta, 'list': list, 'tuple': tuple, 'range': range}
DT_METHODS = {'isoweekday', 'weekday', 'replace', 'date', 'isocalendar', 'toordinal'}
TD_KW = {'days', 'weeks', 'hours', 'minutes', 'seconds'}
CONCRETE = (int, bool, str, type(None), _dt.datetime, _dt.timedelta, _dt.date, list, tuple, float, dict, range)
STR_METHODS = {'startswith', 'endswith', 'split', 'join', 'strip', 'lstrip', 'rstrip', 'lower', 'upper', 'replace', 'find',
               'isnumeric', 'isdigit', 'format', 'count', 'index'}
DICT_METHODS = {'pop', 'get', 'keys', 'values', 'items', 'update', 'setdefault'}
LIST_METHODS = {'append', 'extend', 'insert', 'index', 'count'}


class SelfRef:
    """`self` of an interpreted method: methods resolve through the class hierarchy, other attributes are opaque"""

    def __init__(self, cls):
        self.cls = cls


class _Break(Exception):
    pass


class _Continue(Exception):
    pass


class Interp:
    def __init__(self, idx, hooks=(), budget=20000, oracle=None):
        self.idx = idx
        self.hooks = list(hooks)        # [(predicate(call node) -> bool, value)]
        self.budget = budget
        self.depth = 0
        self.oracle = oracle            # oracle(if node, expression) -> bool | None for conditions on unmodelled values
        self.cur_if = None

    # ---- names
    def lookup(self, name, env, ctx):
        if name in env:
            return env[name]
        mod, cls, fn = ctx
        if fn is not None:                                   # function-level `from x import y`
            for n in ast.walk(fn):
                if isinstance(n, ast.ImportFrom):
                    for al in n.names:
                        if (al.asname or al.name) == name:
                            src = self.idx.mods.get(self.idx._abs(mod, n.level, n.module))
                            if src is not None:
                                r = self.idx.resolve(src, al.name)
                                if r and r[0] == 'class':
                                    return ClassRef(r[1])
        r = self.idx.resolve(mod, name) if mod is not None else None
        if r:
            if r[0] == 'class':
                return ClassRef(r[1])
            if r[0] == 'func':
                return FuncRef(r[1], None, r[2])
            if r[0] == 'const':
                try:
                    return self.eval(r[2], {}, (r[1], None, None))
                except Unreadable:
                    return OPAQUE
        if name in BUILTINS:
            return BUILTINS[name]
        return OPAQUE

    # ---- expressions
    def eval(self, e, env, ctx):
        self.budget -= 1
        if self.budget < 0:
            raise Unreadable('evaluation budget exhausted')
        if isinstance(e, ast.Constant):
            return e.value
        if isinstance(e, ast.Name):
            return self.lookup(e.id, env, ctx)
        if isinstance(e, ast.Dict):
            out = {}
            for k, v in zip(e.keys, e.values):
                if k is None:
                    return OPAQUE
                kk = self.eval(k, env, ctx)
                if isinstance(kk, Opaque):
                    return OPAQUE
                out[kk] = self.eval(v, env, ctx)
            return out
        if isinstance(e, (ast.List, ast.Tuple)):
            vals = [self.eval(x, env, ctx) for x in e.elts]
            return vals if isinstance(e, ast.List) else tuple(vals)
        if isinstance(e, ast.Attribute):
            base = self.eval(e.value, env, ctx)
            if isinstance(base, Obj):
                return base.attrs.get(e.attr, OPAQUE)
            if isinstance(base, SelfRef):
                k, f = self.idx.find_method(base.cls, e.attr)
                if f is not None:
                    return ('method', base, FuncRef(k.mod, k, f))
                return OPAQUE
            if isinstance(base, str) and e.attr in STR_METHODS:
                return ('bound', base, e.attr)
            if isinstance(base, dict) and e.attr in DICT_METHODS:
                return ('bound', base, e.attr)
            if isinstance(base, list) and e.attr in LIST_METHODS:
                return ('bound', base, e.attr)
            if isinstance(base, ClassRef):
                k, v = self.idx.class_attr(base.cls, e.attr)
                if v is not None:
                    return self.eval(v, {}, (k.mod, k, None))
                k, f = self.idx.find_method(base.cls, e.attr)
                if f is not None:
                    return FuncRef(k.mod, k, f)
                return OPAQUE
            if isinstance(base, (_dt.datetime, _dt.date, _dt.timedelta)):
                if e.attr in ('year', 'month', 'day', 'hour', 'minute', 'second', 'microsecond', 'days', 'seconds'):
                    return getattr(base, e.attr)
                if e.attr in DT_METHODS:
                    return ('bound', base, e.attr)
                return OPAQUE
            if isinstance(base, type) and base is _dt.datetime and e.attr in ('now', 'today', 'min'):
                return OPAQUE
            if base is str and e.attr in STR_METHODS:
                return ('strfn', e.attr, None)
            return OPAQUE
        if isinstance(e, ast.Call):
            return self.call(e, env, ctx)
        if isinstance(e, ast.IfExp):
            t = self.eval(e.test, env, ctx)
            if isinstance(t, Opaque):
                return OPAQUE
            return self.eval(e.body if t else e.orelse, env, ctx)
        if isinstance(e, ast.BoolOp):
            last = None
            for v in e.values:
                last = self.eval(v, env, ctx)
                if isinstance(last, Opaque) and self.oracle is not None and self.cur_if is not None:
                    o = self.oracle(self.cur_if, v)
                    if o is not None:
                        last = o
                if isinstance(last, Opaque):
                    return OPAQUE
                if isinstance(e.op, ast.And) and not last:
                    return last
                if isinstance(e.op, ast.Or) and last:
                    return last
            return last
        if isinstance(e, ast.UnaryOp):
            v = self.eval(e.operand, env, ctx)
            if isinstance(v, Opaque):
                return OPAQUE
            if isinstance(e.op, ast.Not):
                return not v
            if isinstance(e.op, ast.USub):
                return -v
            return +v
        if isinstance(e, ast.BinOp):
            a, b = self.eval(e.left, env, ctx), self.eval(e.right, env, ctx)
            if not isinstance(a, CONCRETE) or not isinstance(b, CONCRETE):
                return OPAQUE
            try:
                return self.binop(e.op, a, b)
            except (TypeError, ValueError, OverflowError, ZeroDivisionError) as ex:
                raise PyRaise(ex)
        if isinstance(e, ast.Compare):
            terms = [self.eval(t, env, ctx) for t in [e.left] + list(e.comparators)]
            res = True
            for i, op in enumerate(e.ops):
                a, b = terms[i], terms[i + 1]
                if isinstance(op, (ast.Is, ast.IsNot)):
                    if isinstance(a, Opaque) or isinstance(b, Opaque):
                        return OPAQUE
                    r = (a is b) if isinstance(op, ast.Is) else (a is not b)
                else:
                    if not isinstance(a, CONCRETE) or not isinstance(b, CONCRETE):
                        return OPAQUE
                    try:
                        r = {ast.Eq: lambda: a == b, ast.NotEq: lambda: a != b, ast.Lt: lambda: a < b, ast.LtE: lambda: a <= b,
                             ast.Gt: lambda: a > b, ast.GtE: lambda: a >= b, ast.In: lambda: a in b,
                             ast.NotIn: lambda: a not in b}[type(op)]()
                    except TypeError as ex:
                        raise PyRaise(ex)
                res = res and r
                if not res:
                    return False
            return res
        if isinstance(e, ast.JoinedStr):
            out = ''
            for v in e.values:
                if isinstance(v, ast.Constant):
                    out += str(v.value)
                else:
                    x = self.eval(v.value, env, ctx)
                    if not isinstance(x, CONCRETE):
                        return OPAQUE
                    spec = ''.join(p.value for p in v.format_spec.values if isinstance(p, ast.Constant)) if v.format_spec else ''
                    try:
                        out += format(x, spec)
                    except (TypeError, ValueError) as ex:
                        raise PyRaise(ex)
            return out
        if isinstance(e, ast.Subscript):
            base = self.eval(e.value, env, ctx)
            if isinstance(base, dict):
                k = self.eval(e.slice, env, ctx)
                if isinstance(k, Opaque):
                    return OPAQUE
                try:
                    return base[k]
                except (KeyError, TypeError) as ex:
                    raise PyRaise(ex)
            if not isinstance(base, (list, tuple, str)):
                return OPAQUE
            if isinstance(e.slice, ast.Slice):
                lo = self.eval(e.slice.lower, env, ctx) if e.slice.lower else None
                hi = self.eval(e.slice.upper, env, ctx) if e.slice.upper else None
                if isinstance(lo, Opaque) or isinstance(hi, Opaque):
                    return OPAQUE
                return base[lo:hi]
            i = self.eval(e.slice, env, ctx)
            if not isinstance(i, int):
                return OPAQUE
            try:
                return base[i]
            except IndexError as ex:
                raise PyRaise(ex)
        return OPAQUE

    @staticmethod
    def binop(op, a, b):
        if isinstance(op, ast.Add):
            return a + b
        if isinstance(op, ast.Sub):
            return a - b
        if isinstance(op, ast.Mult):
            return a * b
        if isinstance(op, ast.FloorDiv):
            return a // b
        if isinstance(op, ast.Div):
            return a / b
        if isinstance(op, ast.Mod):
            return a % b
        if isinstance(op, ast.LShift):
            return a << b
        if isinstance(op, ast.RShift):
            return a >> b
        raise Unreadable('operator ' + type(op).__name__)

    def call(self, e, env, ctx):
        for pred, value in self.hooks:
            if pred(e):
                return value() if callable(value) else value
        f = self.eval(e.func, env, ctx)
        args = [self.eval(a, env, ctx) for a in e.args]
        kwargs = {k.arg: self.eval(k.value, env, ctx) for k in e.keywords if k.arg}
        if isinstance(f, Opaque):
            return OPAQUE
        opaque_arg = any(isinstance(a, Opaque) for a in args) or any(isinstance(v, Opaque) for v in kwargs.values())
        if isinstance(f, tuple) and len(f) == 3 and f[0] == 'strfn':
            if opaque_arg or not args or not isinstance(args[0], str):
                return OPAQUE
            try:
                return getattr(str, f[1])(*args, **kwargs)
            except (TypeError, ValueError, IndexError, KeyError) as ex:
                raise PyRaise(ex)
        if isinstance(f, tuple) and len(f) == 3 and f[0] == 'method':
            return self.call_function(f[2], args, kwargs, self_value=f[1])
        if isinstance(f, tuple) and len(f) == 3 and f[0] == 'bound' and isinstance(f[1], (dict, list)):
            try:
                return getattr(f[1], f[2])(*args, **kwargs)
            except (TypeError, ValueError, KeyError, IndexError) as ex:
                raise PyRaise(ex)
        if isinstance(f, tuple) and len(f) == 3 and f[0] == 'bound':
            if opaque_arg:
                return OPAQUE
            try:
                if f[2] == 'date':
                    d = f[1]
                    return _dt.datetime(d.year, d.month, d.day)
                return getattr(f[1], f[2])(*args, **kwargs)
            except (TypeError, ValueError, OverflowError) as ex:
                raise PyRaise(ex)
        if isinstance(f, FuncRef):
            if opaque_arg and not f.fn.name.startswith('safe_create'):
                return OPAQUE
            return self.call_function(f, args, kwargs)
        if isinstance(f, ClassRef):
            return Obj()
        if f in BUILTINS.values():
            if opaque_arg:
                return OPAQUE
            if f is _dt.timedelta and (args or set(kwargs) - TD_KW):
                return OPAQUE
            try:
                return f(*args, **kwargs)
            except (TypeError, ValueError, OverflowError) as ex:
                raise PyRaise(ex)
        return OPAQUE

    def call_function(self, fref, args, kwargs, self_value=None):
        fn = fref.fn
        self.depth += 1
        if self.depth > 8:
            raise Unreadable('call depth')
        try:
            params = [a.arg for a in fn.args.args]
            is_static = any(isinstance(d, ast.Name) and d.id == 'staticmethod' for d in fn.decorator_list)
            env = {}
            if fref.cls is not None and not is_static and params and params[0] in ('self', 'cls'):
                env[params[0]] = self_value if self_value is not None else OPAQUE
                params = params[1:]
            defaults = fn.args.defaults
            for i, pname in enumerate(params):
                if i < len(args):
                    env[pname] = args[i]
                elif pname in kwargs:
                    env[pname] = kwargs[pname]
                else:
                    di = i - (len(params) - len(defaults))
                    if di < 0:
                        raise Unreadable('missing argument %s of %s' % (pname, fn.name))
                    env[pname] = self.eval(defaults[di], {}, (fref.mod, fref.cls, fn))
            try:
                self.block(fn.body, env, (fref.mod, fref.cls, fn))
            except _Return as r:
                return r.value
            return None
        finally:
            self.depth -= 1

    # ---- statements
    def block(self, stmts, env, ctx):
        for s in stmts:
            self.stmt(s, env, ctx)

    def assign(self, t, v, env, ctx):
        if isinstance(t, ast.Name):
            env[t.id] = v
        elif isinstance(t, (ast.Tuple, ast.List)):
            if isinstance(v, (list, tuple)) and len(v) == len(t.elts):
                for x, y in zip(t.elts, v):
                    self.assign(x, y, env, ctx)
            else:
                for x in t.elts:
                    self.assign(x, OPAQUE, env, ctx)
        elif isinstance(t, ast.Attribute):
            if isinstance(t.value, ast.Name):
                o = env.get(t.value.id)
                if not isinstance(o, Obj):
                    o = env[t.value.id] = Obj()
                o.attrs[t.attr] = v
            else:
                o = self.eval(t.value, env, ctx)
                if isinstance(o, Obj):
                    o.attrs[t.attr] = v
        elif isinstance(t, ast.Subscript):
            base = self.eval(t.value, env, ctx)
            if isinstance(base, (dict, list)) and not isinstance(t.slice, ast.Slice):
                k = self.eval(t.slice, env, ctx)
                if not isinstance(k, Opaque):
                    try:
                        base[k] = v
                    except (IndexError, TypeError, KeyError) as ex:
                        raise PyRaise(ex)

    def stmt(self, s, env, ctx):
        self.budget -= 1
        if self.budget < 0:
            raise Unreadable('evaluation budget exhausted')
        if isinstance(s, ast.Assign):
            v = self.eval(s.value, env, ctx)
            for t in s.targets:
                self.assign(t, v, env, ctx)
        elif isinstance(s, ast.AnnAssign):
            if s.value is not None:
                self.assign(s.target, self.eval(s.value, env, ctx), env, ctx)
        elif isinstance(s, ast.AugAssign):
            if isinstance(s.target, ast.Name):
                a, b = env.get(s.target.id, OPAQUE), self.eval(s.value, env, ctx)
                if isinstance(a, CONCRETE) and isinstance(b, CONCRETE):
                    try:
                        env[s.target.id] = self.binop(s.op, a, b)
                    except (TypeError, ValueError, OverflowError, ZeroDivisionError) as ex:
                        raise PyRaise(ex)
                else:
                    env[s.target.id] = OPAQUE
        elif isinstance(s, ast.If):
            prev_if, self.cur_if = self.cur_if, s
            try:
                t = self.eval(s.test, env, ctx)
                if isinstance(t, Opaque) and self.oracle is not None:
                    o = self.oracle(s, s.test)
                    if o is not None:
                        t = o
            finally:
                self.cur_if = prev_if
            if isinstance(t, Opaque):
                raise Unreadable('condition `%s` (line %d) depends on a value the interpreter does not model'
                                 % (ast.unparse(s.test)[:60], s.lineno))
            self.block(s.body if t else s.orelse, env, ctx)
        elif isinstance(s, ast.While):
            n = 0
            while True:
                t = self.eval(s.test, env, ctx)
                if isinstance(t, Opaque):
                    raise Unreadable('loop condition line %d' % s.lineno)
                if not t:
                    break
                n += 1
                if n > 500:
                    raise Unreadable('loop bound')
                try:
                    self.block(s.body, env, ctx)
                except _Break:
                    break
                except _Continue:
                    continue
        elif isinstance(s, ast.Return):
            raise _Return(self.eval(s.value, env, ctx) if s.value is not None else None)
        elif isinstance(s, ast.Expr):
            self.eval(s.value, env, ctx)
        elif isinstance(s, ast.Try):
            try:
                self.block(s.body, env, ctx)
            except PyRaise as pr:
                for h in s.handlers:
                    names = [n.id for n in ast.walk(h.type) if isinstance(n, ast.Name)] if h.type is not None else []
                    if h.type is None or 'Exception' in names or type(pr.exc).__name__ in names:
                        self.block(h.body, env, ctx)
                        break
                else:
                    raise
            else:
                self.block(s.orelse, env, ctx)
            self.block(s.finalbody, env, ctx)
        elif isinstance(s, ast.Break):
            raise _Break()
        elif isinstance(s, ast.Continue):
            raise _Continue()
        elif isinstance(s, ast.For):
            it = self.eval(s.iter, env, ctx)
            if isinstance(it, dict):
                it = list(it)
            if not isinstance(it, (list, tuple, range)):
                raise Unreadable('for-loop over a value the interpreter does not model (line %d)' % s.lineno)
            broke = False
            for item in list(it):
                self.assign(s.target, item, env, ctx)
                try:
                    self.block(s.body, env, ctx)
                except _Break:
                    broke = True
                    break
                except _Continue:
                    continue
            if not broke:
                self.block(s.orelse, env, ctx)
        elif isinstance(s, (ast.Pass, ast.Import, ast.ImportFrom)):
            pass
        elif isinstance(s, ast.Raise):
            raise PyRaise(RuntimeError('raise'))
        elif isinstance(s, ast.With):
            raise Unreadable('%s statement line %d' % (type(s).__name__, s.lineno))


# ---------------------------------------------------------------------------------------------------
# C09.feb29 / C09.weekday: the candidate computations evaluated on concrete probes

def _fmt(d):
    return d.strftime('%Y-%m-%d') if isinstance(d, (_dt.datetime, _dt.date)) else repr(d)


def _is_leap(y):
    return (y % 4 == 0 and y % 100 != 0) or y % 400 == 0


def expected_yearless(ref, month, day):
    """(past, future): latest occurrence strictly before ref's date, earliest on or after it"""
    occ = []
    for y in range(ref.year - 9, ref.year + 10):
        try:
            occ.append(_dt.datetime(y, month, day))
        except ValueError:
            pass
    day0 = _dt.datetime(ref.year, ref.month, ref.day)
    return max(d for d in occ if d < day0), min(d for d in occ if d >= day0)


FEB29_REF_YEARS = {'leap reference years': [2000, 2016, 2020, 2088], 'non-leap reference years': [2017, 2019, 2021, 2023, 2089, 2100]}


def yearless_probes(group):
    if group in FEB29_REF_YEARS:
        for y in FEB29_REF_YEARS[group]:
            days = [(1, 15), (2, 28), (3, 1), (12, 31)] + ([(2, 29)] if _is_leap(y) else [])
            for m, d in sorted(days):
                yield _dt.datetime(y, m, d), 2, 29
    else:
        for (m, d) in ((11, 7), (1, 1), (12, 31), (3, 1)):
            for y in (2016, 2017):
                pivot = _dt.datetime(y, m, d)
                for delta in (-1, 0, 1):
                    yield pivot + _dt.timedelta(days=delta), m, d


def rule_eval_yearless(chk, idx):
    rid = 'C09.feb29'
    chk.rule(rid, 'generate_dates, evaluated on concrete midnight references, returns the latest occurrence strictly before the '
                  'reference date and the earliest on or after it (29 February: the neighbouring leap years)', floor=3)
    du = idx.cls(PKG + '.utilities.DateUtils')
    fn = du.methods.get('generate_dates')
    if fn is None:
        raise AnalysisError('anchor vanished: DateUtils.generate_dates')
    for group in list(FEB29_REF_YEARS) + ['month and day']:
        bad, n = [], 0
        for ref, m, d in yearless_probes(group):
            n += 1
            it = Interp(idx)
            try:
                res = it.call_function(FuncRef(du.mod, du, fn), [True, ref, ref.year, m, d], {})
            except Unreadable as e:
                raise AnalysisError('DateUtils.generate_dates cannot be evaluated: %s' % e)
            except PyRaise as e:
                bad.append('%s-%02d-%02d at %s raises %s' % ('XXXX', m, d, _fmt(ref), e))
                continue
            if not (isinstance(res, tuple) and len(res) == 2 and all(isinstance(x, _dt.datetime) for x in res)):
                raise AnalysisError('DateUtils.generate_dates: result %r is not a pair of dates' % (res,))
            fut, past = res
            wp, wf = expected_yearless(ref, m, d)
            if (past, fut) != (wp, wf):
                bad.append('XXXX-%02d-%02d at reference %s -> past %s / future %s, expected %s / %s'
                           % (m, d, _fmt(ref), _fmt(past), _fmt(fut), _fmt(wp), _fmt(wf)))
        what = ('29 February, ' + group) if group in FEB29_REF_YEARS else group
        chk.judge(not bad, rid, du.mod.path, 'DateUtils.generate_dates[%s]' % what,
                  '%d probes; failing: %s' % (n, '; '.join(bad[:3]) if bad else 'none'),
                  'generate_dates(no_year=True) does not return (latest before, earliest on/after) the reference date: %s%s'
                  % ('; '.join(bad[:4]), ' ... (%d failing probes)' % len(bad) if len(bad) > 4 else ''), fn.lineno)


def weekday_branch(fn):
    """the top-level `if` of parse_implicit_date that follows `match = regex.f(self.config.week_day_regex, ...)`"""
    k = Kinds(fn)
    for s in fn.body:
        prev = k.region
        k.note_region(s)
        if isinstance(s, ast.If) and prev == 'week_day_regex' and k.region == 'week_day_regex':
            return s
    return None


def expected_weekday(ref, w):
    target = w if 1 <= w <= 7 else 7
    day0 = _dt.datetime(ref.year, ref.month, ref.day)
    fut = day0
    while fut.isoweekday() != target:
        fut += _dt.timedelta(days=1)
    past = day0 - _dt.timedelta(days=1)
    while past.isoweekday() != target:
        past -= _dt.timedelta(days=1)
    return past, fut


def rule_eval_weekday(chk, idx):
    rid = 'C09.weekday'
    chk.rule(rid, 'the bare-weekday branch, evaluated over weekday table values 0..7 x the 7 reference weekdays, yields the '
                  'earliest such weekday on or after the reference date and the latest strictly before it', floor=2)
    bd = idx.cls(PKG + '.base_date.BaseDateParser')
    impls = [c for c in [bd] + idx.subclasses(bd) if 'parse_implicit_date' in c.methods]
    tables = {}
    for c in impls:
        fn = c.methods['parse_implicit_date']
        br = weekday_branch(fn)
        if br is None:
            raise AnalysisError('%s.parse_implicit_date: branch guarded by self.config.week_day_regex not found' % c.name)
        refp = [a.arg for a in fn.args.args if isinstance(a.annotation, ast.Name) and a.annotation.id == 'datetime']
        if not refp:
            raise AnalysisError('%s.parse_implicit_date: no datetime parameter' % c.name)
        bad, n, table = [], 0, {}
        for w in range(0, 8):
            for dayoff in range(7):
                for hour in (0, 12):
                    ref = _dt.datetime(2016, 11, 7, hour) + _dt.timedelta(days=dayoff)
                    n += 1
                    it = Interp(idx, hooks=[(lambda call: isinstance(call.func, ast.Attribute) and call.func.attr == 'get'
                                             and isinstance(call.func.value, ast.Attribute)
                                             and call.func.value.attr == 'day_of_week', w)])
                    env = {refp[0]: ref}
                    try:
                        try:
                            it.block(br.body, env, (c.mod, c, fn))
                            out = None
                        except _Return as r:
                            out = r.value
                    except Unreadable as e:
                        raise AnalysisError('%s.parse_implicit_date weekday branch cannot be evaluated: %s' % (c.name, e))
                    except PyRaise as e:
                        bad.append('weekday value %d at %s raises %s' % (w, ref.strftime('%a %H:%M'), e))
                        continue
                    objs = [out] if isinstance(out, Obj) else [v for v in env.values() if isinstance(v, Obj)]
                    objs = [o for o in objs if 'future_value' in o.attrs and 'past_value' in o.attrs]
                    if len(objs) != 1 or not all(isinstance(objs[0].attrs[a], _dt.datetime) for a in ('future_value', 'past_value')):
                        raise AnalysisError('%s.parse_implicit_date weekday branch: future_value / past_value not produced as dates'
                                            % c.name)
                    fut, past = objs[0].attrs['future_value'], objs[0].attrs['past_value']
                    got = (_dt.datetime(past.year, past.month, past.day), _dt.datetime(fut.year, fut.month, fut.day))
                    table[(w, dayoff, hour)] = got
                    want = expected_weekday(ref, w)
                    if got != want:
                        bad.append('weekday value %d at reference %s -> past %s / future %s, expected %s / %s'
                                   % (w, ref.strftime('%a %Y-%m-%d %H:%M'), _fmt(got[0]), _fmt(got[1]), _fmt(want[0]), _fmt(want[1])))
        tables[c] = table
        chk.consulted(c.mod.path)
        chk.judge(not bad, rid, c.mod.path, '%s.parse_implicit_date[week_day_regex]' % c.name,
                  '%d probes (weekday values 0..7 x 7 reference weekdays x 00:00/12:00); failing: %s'
                  % (n, '; '.join(bad[:2]) if bad else 'none'),
                  'the bare-weekday branch does not yield (latest before, earliest on/after) the reference date: %s%s'
                  % ('; '.join(bad[:3]), ' ... (%d failing probes)' % len(bad) if len(bad) > 3 else ''), br.lineno)
    if len(impls) > 1:
        first = impls[0]
        for c in impls[1:]:
            diff = [k for k in tables[first] if tables[first].get(k) != tables[c].get(k)]
            chk.judge(not diff, rid, c.mod.path, '%s ~ %s [week_day_regex]' % (first.name, c.name),
                      'sibling implementations agree on all probes: %s' % (not diff),
                      'the sibling weekday branches disagree on %d probes, e.g. weekday value %d, reference +%d days %02d:00'
                      % (len(diff), diff[0][0], diff[0][1], diff[0][2]) if diff else '', None)


def rule_order(chk, idx):
    rid = 'C09.order'
    chk.rule(rid, '_date_time_resolution emits resolveToPast (from past_resolution) before resolveToFuture (from '
                  'future_resolution)', floor=2)
    base = idx.cls(PKG + '.base_merged.BaseMergedParser')
    consts = idx.cls(PKG + '.constants.Constants')

    def cval(e):
        if isinstance(e, ast.Constant):
            return e.value
        if isinstance(e, ast.Attribute) and isinstance(e.value, ast.Name) and e.value.id == 'Constants':
            v = consts.attrs.get(e.attr)
            return v.value if isinstance(v, ast.Constant) else None
        return None

    done = set()
    for c in [base] + idx.subclasses(base):
        k, fn = idx.find_method(c, '_date_time_resolution')
        if fn is None:
            raise AnalysisError('anchor vanished: %s._date_time_resolution' % c.name)
        if k in done:
            continue
        done.add(k)
        chk.consulted(k.mod.path)
        defs = {}
        for n in ast.walk(fn):
            if isinstance(n, ast.Assign) and len(n.targets) == 1 and isinstance(n.targets[0], ast.Name):
                defs.setdefault(n.targets[0].id, []).append(n.value)

        def origin(name, depth=0):
            """'past' / 'future' when the name is (generated from) value.<x>_resolution"""
            out = set()
            for v in defs.get(name, []):
                for a in ast.walk(v):
                    if isinstance(a, ast.Attribute) and a.attr in ('past_resolution', 'future_resolution'):
                        out.add(a.attr.split('_')[0])
                    elif isinstance(a, ast.Name) and a.id != name and depth < 3:
                        out |= origin(a.id, depth + 1)
            return out

        for callee in ('_add_resolution_fields_any', '_resolve_ampm'):
            calls = []
            for n in ast.walk(fn):
                if isinstance(n, ast.Call) and callee_name(n) == callee:
                    keys = [cval(a) for a in n.args]
                    for key in ('resolveToPast', 'resolveToFuture'):
                        if key in keys:
                            calls.append((n.lineno, n.col_offset, key, n))
            calls.sort(key=lambda x: (x[0], x[1]))
            seq = [x[2] for x in calls]
            if callee == '_add_resolution_fields_any' and sorted(seq) != ['resolveToFuture', 'resolveToPast']:
                raise AnalysisError('%s._date_time_resolution: expected one emission each of resolveToPast / resolveToFuture, found %s'
                                    % (k.name, seq))
            if not seq:
                continue
            construct = '%s._date_time_resolution#%s' % (k.name, callee)
            chk.judge(seq == ['resolveToPast', 'resolveToFuture'], rid, k.mod.path, construct, 'sequence=%s' % seq,
                      'resolveToFuture is emitted before resolveToPast (the values list is built in insertion order)', calls[0][0])
            if callee == '_add_resolution_fields_any':
                for _, _, key, n in calls:
                    arg = n.args[-1]
                    src = origin(arg.id) if isinstance(arg, ast.Name) else set()
                    want = 'past' if key == 'resolveToPast' else 'future'
                    chk.judge(src == {want}, rid, k.mod.path, construct + '[%s]' % key, '%s <- %s_resolution' % (key, '/'.join(sorted(src)) or '?'),
                              '%s is filled from %s, expected value.%s_resolution' % (key, sorted(src) or 'an unknown source', want), n.lineno)


# ---------------------------------------------------------------------------------------------------
# C09.numeric-order: the first year-less numeric layout that can read a bare `a/b` follows the culture's declared order

NUMERIC_PROBES = ('5/6', '5-6')
OBSERVED_PROBES = ('5.6',)     # dotted layouts: the Specs fix some of them month-first (it: 'il 4.22' -> XXXX-04-22)


def _bare_matchable(tree):
    """False when the pattern starts with a positive look-behind (it needs text before the date)"""
    n = tree
    while n is not None and n.kind in ('seq', 'group') and (n.items or n.node is not None):
        n = n.items[0] if n.items else n.node
    return not (n is not None and n.kind == 'look' and n.dir == 'behind')


NOVAL_ = None      # bound to c07.NOVAL on first use


def first_layout(rx, pats, probe):
    """(name, 'day-first'|'month-first') of the first pattern of the list that can read the bare probe"""
    for name, pat in pats:
        d, m = pat.find('(?<day>'), pat.find('(?<month>')
        if d < 0 or m < 0:
            continue
        try:
            tree = rx.parse(pat)
        except rx.RxError:
            continue
        if not _bare_matchable(tree):
            continue
        if rx.matches(tree, probe):
            return name, ('day-first' if d < m else 'month-first')
    return None


def rule_numeric_order(chk, idx):
    global NOVAL_
    from ..consteval import Resources
    from .. import rx
    from .c07 import NOVAL, make_evalc
    NOVAL_ = NOVAL
    rid = 'C09.numeric-order'
    chk.rule(rid, 'under the default configuration the first numeric layout of date_regex_list that can read a bare `a/b` has '
                  'the day/month order the culture declares (DefaultLanguageFallback)', floor=6)
    from . import c06 as _c06
    R = Resources(idx)
    W = _c06.Wiring(idx, R)
    base = idx.cls(PKG + '.base_date.DateExtractorConfiguration')
    n = 0
    for c in sorted(idx.subclasses(base), key=lambda k: k.qual):
        # the ordered list is obtained by interpreting the configuration's __init__ under its default arguments (the wiring
        # evaluator of C06.order): if/else, conditional expression, tuple unpacking or a table all read alike
        k_, init = idx.find_method(c, '__init__')
        if init is None:
            continue
        flag = False
        for d_ in init.args.defaults:
            if isinstance(d_, ast.Constant) and isinstance(d_.value, bool):
                flag = d_.value
        lst = _c06.ordered_date_regexes(idx, W, c, flag)       # AnalysisError when the list cannot be evaluated
        pats = [(getattr(x, 'attr', '?'), str(x)) for x in lst]
        declared = None
        for x in lst:
            rc = getattr(x, 'rcls', None)
            if rc:
                vals = R.by_name(c.mod, rc)
                if vals and isinstance(vals.get('DefaultLanguageFallback'), str):
                    declared = vals['DefaultLanguageFallback']
                    break
        branches = [('default configuration', True, pats)]
        if declared not in ('DMY', 'MDY'):
            chk.observe('%s: declared order %r - numeric day/month layouts not compared' % (c.name, declared))
            continue
        want = 'day-first' if declared == 'DMY' else 'month-first'
        chk.consulted(c.mod.path)
        for label, active, pats in branches:
            if not active:
                continue
            for probe in OBSERVED_PROBES:
                hit = first_layout(rx, pats, probe)
                if hit is not None and hit[1] != want:
                    chk.observe('%s: a bare `%s` is first read by %s (%s) although the culture declares %s - dotted layouts are '
                                'fixed by the Specs, not armed' % (c.name, probe, hit[0], hit[1], declared))
            for probe in NUMERIC_PROBES:
                hit = first_layout(rx, pats, probe)
                if hit is None:
                    continue
                n += 1
                sep = probe[1]
                chk.judge(hit[1] == want, rid, c.mod.path, '%s.date_regex_list[a%sb]' % (c.name, sep),
                          'declared %s; first layout reading a bare a%sb is %s' % (declared, sep, hit[1]),
                          'the culture declares %s, but under the default configuration the first pattern of date_regex_list that '
                          'can read a bare `a%sb` is %s, a %s layout: `%s` is read with day and month exchanged'
                          % (declared, sep, hit[0], hit[1], probe), c.methods['__init__'].lineno)
    if n < 6:
        raise AnalysisError('only %d numeric layout probes could be decided' % n)


# ---------------------------------------------------------------------------------------------------
# C09.numeric-priority: a configuration that models both day/month orders (day-first flag) gives priority, among the year-less
# numeric layouts competing for the same text, to the order in force - tabulated as parse_basic_regex_match reads the text

PRIORITY_PROBES = ('5/6', '5-6', '11-12', '05/06')
PRIORITY_CONTROL = (r'(?<=\bon\s+)(?<day>\d{1,2})[\\\-](?<month>\d{1,2})\b', r'(?<=\bon\s+)(?<month>\d{1,2})[\-\.](?<day>\d{1,2})\b')


def spanning_readings(c06, patterns, prefix, text):
    """[(position in the list, label, 'day-first'|'month-first', month, day)] of every regex of the ordered list that spans the
    text the way BaseDateParser.parse_basic_regex_match requires (as written, else behind the date token prefix); the first
    element is the reading the parser takes.  A pattern the regex reader cannot translate is an AnalysisError here: whether it
    comes first is exactly what the rule decides."""
    out = []
    for i, pat in enumerate(patterns):
        pp = c06.PyPattern(str(pat))            # rx.RxError when the dialect reader cannot translate it: handled by the caller
        r = None
        for s2, off in ((text, 0), (prefix + text, len(prefix))):
            m_ = pp.re.search(s2)
            if m_ and m_.start() == off and m_.end() == len(s2):
                r = (getattr(pat, 'attr', '?'), pp.group(m_, 'month'), pp.group(m_, 'day'))
            if m_:
                break
        if r is None:
            continue
        label, month, day = r
        if not month or not day:
            continue                    # spans the text without a numeric month and day (not a competing numeric layout)
        m, d = str(month).lstrip('0'), str(day).lstrip('0')
        a, b = [x.lstrip('0') for x in text.replace('/', '-').split('-')]
        if (m, d) == (a, b) and a != b:
            order = 'month-first'
        elif (d, m) == (a, b) and a != b:
            order = 'day-first'
        else:
            raise AnalysisError('numeric layout %s reads %r as month %r, day %r: neither order' % (label, text, month, day))
        out.append((i, label, order, month, day))
    return out


def rule_numeric_priority(chk, idx):
    from ..consteval import Resources
    from .. import rx
    from . import c06 as _c06
    rid = 'C09.numeric-priority'
    chk.rule(rid, 'where a date extractor configuration takes a day-first flag, a year-less `a/b` / `a-b` that layouts of both '
                  'orders can span (as written or behind the date token prefix) is first spanned, in list order, by a layout of '
                  'the declared order (DefaultLanguageFallback) under the default and by a day-first layout under the flag',
             floor=2, control=True)
    # control: the detector on an embedded list whose day-first prepositional layout precedes the month-first one
    try:
        ctl = [_c06._ResStr(p, 'Control', n_) for p, n_ in zip(PRIORITY_CONTROL, ('DayFirst', 'MonthFirst'))]
        r0 = spanning_readings(_c06, ctl, 'on ', '5-6')
        r1 = spanning_readings(_c06, ctl[::-1], 'on ', '5-6')
        chk.control(rid, [x[2] for x in r0] == ['day-first', 'month-first'] and [x[2] for x in r1] == ['month-first', 'day-first']
                    and not spanning_readings(_c06, ctl, '', '5-6'))
    except rx.RxError:
        chk.control(rid, False)
    R = Resources(idx)
    W = _c06.Wiring(idx, R)
    ex_cfgs = W.culture_classes(PKG + '.base_date.DateExtractorConfiguration')
    dp_cfgs = W.culture_classes(PKG + '.base_date.DateParserConfiguration')
    judged = 0
    for cul in sorted(ex_cfgs):
        c = ex_cfgs[cul]
        k_, init = idx.find_method(c, '__init__')
        if init is None:
            continue
        params = [a.arg for a in init.args.args[1:]]
        flagged = [p for p in params if 'dmy' in p.lower()]
        if not flagged:
            chk.observe('%s: no day-first flag - the priority among its year-less numeric layouts is fixed by the Specs of the '
                        'culture (prepositional month-first layouts such as `il 4-22`), not armed' % c.name)
            continue
        if len(params) != len(flagged):
            raise AnalysisError('%s.__init__ takes %s besides its day-first flag: the configuration cannot be evaluated per flag'
                                % (c.name, sorted(set(params) - set(flagged))))
        if cul not in dp_cfgs:
            raise AnalysisError('no DateParserConfiguration subclass for culture %s' % cul)
        pv = W.resolve(dp_cfgs[cul], 'date_token_prefix')
        if not (pv and len(pv) == 1 and isinstance(pv[0].value, str)):
            raise AnalysisError('%s.date_token_prefix does not evaluate to one string' % dp_cfgs[cul].name)
        prefix = pv[0].value
        chk.consulted(c.mod.path)
        for flag in (False, True):
            lst = _c06.ordered_date_regexes(idx, W, c, flag)        # AnalysisError when the list cannot be evaluated
            declared = None
            for x in lst:
                rc = getattr(x, 'rcls', None)
                vals = R.by_name(c.mod, rc) if rc else None
                if vals and isinstance(vals.get('DefaultLanguageFallback'), str):
                    declared = vals['DefaultLanguageFallback']
                    break
            if flag:
                want, why = 'day-first', 'day-first flag set'
            elif declared in ('DMY', 'MDY'):
                want, why = ('day-first' if declared == 'DMY' else 'month-first'), 'default, declared %s' % declared
            else:
                raise AnalysisError('%s: DefaultLanguageFallback %r is neither DMY nor MDY' % (c.name, declared))
            for probe in PRIORITY_PROBES:
                try:
                    rs = spanning_readings(_c06, lst, prefix, probe)
                except rx.RxError as e:
                    raise AnalysisError('%s: a pattern of the date regex list cannot be read (%s)' % (c.name, e))
                construct = '%s.date_regex_list[%r, %s]' % (c.name, probe, why)
                offered = sorted({r[2] for r in rs})
                if len(offered) < 2:
                    chk.exempt(rid, c.mod.path, construct, 'no competition: layouts spanning this text offer %s'
                               % (offered[0] + ' only' if offered else 'no reading'), 'offered: %s' % (', '.join(offered) or 'none'),
                               init.lineno)
                    continue
                judged += 1
                first = rs[0]
                rival = next(r for r in rs if r[2] == want) if first[2] != want else None
                chk.judge(first[2] == want, rid, c.mod.path, construct,
                          'want %s; offered day-first, month-first; first spanning layout is %s' % (want, first[2]),
                          '%s (%s): %r - as written or behind the date token prefix %r - is first spanned by %s (position %d of '
                          'date_regex_list), a %s layout reading month %s, day %s; the %s layout %s comes later (position %d). '
                          'parse_basic_regex_match takes the first regex that spans the text, so the year-less date resolves to '
                          'the wrong month/day'
                          % (c.name, why, probe, prefix, first[1], first[0] + 1, first[2], first[3], first[4], want,
                             rival[1] if rival else '', rival[0] + 1 if rival else 0), init.lineno)
    if judged < 2:
        raise AnalysisError('C09.numeric-priority: only %d competing year-less numeric layouts could be decided' % judged)


# ---------------------------------------------------------------------------------------------------
# C09.day-guard: the extractor's guard on a spelled-out / numeric day next to a month lets every calendar day through

DAY_GUARD_CONTROL = '''
def number_with_month(self, source, reference):
    for result in self.config.ordinal_extractor.extract(source):
        num = int(self.config.number_parser.parse(result).value)
        if num not in range(1, 31):
            continue
        ret.append(result)
    for result in self.config.integer_extractor.extract(source):
        num = int(self.config.number_parser.parse(result).value)
        if num < 1 or num > 31:
            continue
        ret.append(result)
'''
_GUARD_FREE = {'range', 'int', 'abs', 'len', 'min', 'max', 'bool', 'True', 'False', 'None'}


def calendar_days():
    """the day numbers that are valid in some month of some year (computed, not listed)"""
    out = set()
    for m in range(1, 13):
        d = _dt.date(2016, m, 1)
        while d.month == m:
            out.add(d.day)
            d += _dt.timedelta(days=1)
    return out


def day_guards(fn):
    """[(loop, variable, [(if node, 'reject'|'accept')])] for every loop of fn that binds `v = int(<..number_parser.parse(..)..>)`:
    the top-level guards of the loop body that decide on v alone.  AnalysisError for a guard on v the rule cannot read."""
    out = []
    for loop in ast.walk(fn):
        if not isinstance(loop, (ast.For, ast.While)):
            continue
        var, at = None, None
        for i, s in enumerate(loop.body):
            if isinstance(s, ast.Assign) and len(s.targets) == 1 and isinstance(s.targets[0], ast.Name) \
                    and any(isinstance(x, ast.Attribute) and x.attr == 'number_parser' for x in ast.walk(s.value)) \
                    and any(isinstance(x, ast.Call) and callee_name(x) == 'parse' for x in ast.walk(s.value)):
                var, at = s.targets[0].id, i
                break
        if var is None:
            continue
        guards = []
        rest = loop.body[at + 1:]
        for j, s in enumerate(rest):
            if isinstance(s, ast.Assign) and any(isinstance(t, ast.Name) and t.id == var for t in s.targets):
                raise AnalysisError('%s: the day number %s is rebound inside the loop (line %d)' % (fn.name, var, s.lineno))
            if not isinstance(s, ast.If):
                continue
            names = {x.id for x in ast.walk(s.test) if isinstance(x, ast.Name)}
            if var not in names:
                continue
            leaves = bool(s.body) and isinstance(s.body[-1], (ast.Continue, ast.Break, ast.Return))
            if names - {var} - _GUARD_FREE or any(isinstance(x, (ast.Attribute, ast.Subscript)) for x in ast.walk(s.test)):
                if leaves or j == len(rest) - 1:
                    raise AnalysisError('%s: the guard `%s` (line %d) on the day number depends on more than the number: it '
                                        'cannot be tabulated' % (fn.name, ast.unparse(s.test)[:60], s.lineno))
                continue
            if leaves and not s.orelse:
                guards.append((s, 'reject'))
            elif not leaves and j == len(rest) - 1 and not s.orelse:
                guards.append((s, 'accept'))          # `if 1 <= num <= 31: <everything else>`
            else:
                raise AnalysisError('%s: `if %s` (line %d) tests the day number in a shape that is neither a guard clause nor '
                                    'a wrapping condition' % (fn.name, ast.unparse(s.test)[:60], s.lineno))
        out.append((loop, var, guards))
    return out


def guard_accepts(idx, ctx, var, guards, n):
    for node, mode in guards:
        it = Interp(idx)
        try:
            t = it.eval(node.test, {var: n}, ctx)
        except (Unreadable, PyRaise) as e:
            raise AnalysisError('day guard `%s` cannot be evaluated at %d: %s' % (ast.unparse(node.test)[:60], n, e))
        if isinstance(t, Opaque) or not isinstance(t, (bool, int)):
            raise AnalysisError('day guard `%s` does not evaluate to a truth value at %d' % (ast.unparse(node.test)[:60], n))
        if bool(t) == (mode == 'reject'):
            return False
    return True


def rule_day_guard(chk, idx):
    rid = 'C09.day-guard'
    chk.rule(rid, 'the guard BaseDateExtractor.number_with_month puts on the parsed day number, tabulated over -2..40 from the '
                  'test as written (comparison chain, range()), lets every calendar day 1..31 through', floor=1, control=True)
    want = calendar_days()
    ctl_fn = ast.parse(DAY_GUARD_CONTROL).body[0]
    ctl = []
    for loop, var, guards in day_guards(ctl_fn):
        ctl.append(sorted(d for d in want if not guard_accepts(idx, (None, None, ctl_fn), var, guards, d)))
    chk.control(rid, ctl == [[31], []])
    bd = idx.cls(PKG + '.base_date.BaseDateExtractor')
    impls = [c for c in [bd] + idx.subclasses(bd) if 'number_with_month' in c.methods]
    if bd not in impls:
        raise AnalysisError('anchor vanished: BaseDateExtractor.number_with_month')
    for c in impls:
        fn = c.methods['number_with_month']
        found = day_guards(fn)
        if not found:
            raise AnalysisError('%s.number_with_month: no loop binding a day number from number_parser.parse found' % c.name)
        chk.consulted(c.mod.path)
        for k, (loop, var, guards) in enumerate(found, 1):
            construct = '%s.number_with_month[day number %s%s]' % (c.name, var, '' if len(found) == 1 else ' #%d' % k)
            acc = {n for n in range(-2, 41) if guard_accepts(idx, (c.mod, c, fn), var, guards, n)}
            missing = sorted(want - acc)
            extra = sorted(acc - want)
            line = guards[0][0].lineno if guards else loop.lineno
            chk.judge(not missing, rid, c.mod.path, construct,
                      'calendar days rejected: %s' % (missing or 'none'),
                      'the guard%s on the day number (%s) rejects the calendar day(s) %s: a month followed or preceded by that day '
                      'written in words (`march thirty first`) is cut short or not extracted, so the candidates are not those of '
                      'the stated month/day' % ('s' if len(guards) > 1 else '',
                                                 '; '.join('`%s`' % ast.unparse(g.test) for g, _ in guards), missing), line)
            if extra:
                chk.observe('%s: the day guard also lets %s through (not a calendar day; outside C09\'s quantifier)'
                            % (construct, extra[:6]))


# ---------------------------------------------------------------------------------------------------
# C09.lookup-case: a dictionary keyed by lower-case words is never asked with text captured as written

STR_SAME = {'strip', 'lstrip', 'rstrip', 'replace', 'format', 'join'}
STR_RAW = {'upper', 'title', 'capitalize', 'swapcase'}
ENTRY_METHODS = {'parse', 'extract', '__init__'}


class CaseVal:
    """abstract value: kind T(ext) / M(atch) / C(aptured text) / L(ist of captures) / I(terable of matches);
    lower = True (known lower case) | False (raw: established by an entry point or a call site) | None (provenance unknown)"""
    __slots__ = ('kind', 'lower')

    def __init__(self, kind, lower):
        self.kind, self.lower = kind, lower

    def __eq__(self, o):
        return isinstance(o, CaseVal) and (self.kind, self.lower) == (o.kind, o.lower)

    def __hash__(self):
        return hash((self.kind, self.lower))

    def __repr__(self):
        return '%s%s' % (self.kind, {True: '+', False: '-', None: '?'}[self.lower])


def _and3(x, y):
    """three-valued: raw as soon as one part is raw, lower only when both are, otherwise unknown"""
    if x is False or y is False:
        return False
    return True if (x is True and y is True) else None


def _cjoin(a, b):
    if a is None or b is None:
        if a is None and b is None:
            return None
        o = a or b
        return CaseVal(o.kind, False if o.lower is False else None)
    kind = 'C' if 'C' in (a.kind, b.kind) else a.kind
    return CaseVal(kind, _and3(a.lower, b.lower))


class CaseFlow:
    def __init__(self, fn, params, returns=None):
        self.fn = fn
        self.env = dict(params)
        self.lookups = []       # (node, slot, CaseVal of key)
        self.calls = []         # (method name, is_self, [CaseVal per positional arg], {kw: CaseVal})
        self.returns = returns or {}    # method name -> CaseVal of what self.<name>() returns
        self.callable_vars = {}         # loop variable -> [method names] (for f in (self.a, self.b): f(x))
        self.literals = {}              # local bound once to a tuple / list literal
        counts = {}
        for n in ast.walk(fn):
            if isinstance(n, ast.Assign):
                for t in n.targets:
                    if isinstance(t, ast.Name):
                        counts[t.id] = counts.get(t.id, 0) + 1
                        if isinstance(n.value, (ast.Tuple, ast.List)):
                            self.literals[t.id] = n.value
        self.literals = {k: v for k, v in self.literals.items() if counts.get(k) == 1}
        self.ret = []           # CaseVal of every returned expression

    def val(self, e, env):
        if e is None:
            return None
        if isinstance(e, ast.Constant):
            if isinstance(e.value, str):
                return CaseVal('T', e.value == e.value.lower())
            return None
        if isinstance(e, ast.Name):
            return env.get(e.id)
        if isinstance(e, ast.IfExp):
            return _cjoin(self.val(e.body, env), self.val(e.orelse, env))
        if isinstance(e, ast.BoolOp):
            vals = [x for x in (self.val(v, env) for v in e.values) if x is not None]
            if not vals:
                return None
            out = vals[0]
            for v in vals[1:]:
                out = _cjoin(out, v)
            return out
        if isinstance(e, ast.BinOp) and isinstance(e.op, ast.Add):
            a, b = self.val(e.left, env), self.val(e.right, env)
            if a is None and b is None:
                return None
            return _cjoin(a or CaseVal('T', None), b or CaseVal('T', None))
        if isinstance(e, ast.JoinedStr):
            out = CaseVal('T', True)
            for v in e.values:
                x = self.val(v.value if isinstance(v, ast.FormattedValue) else v, env)
                out = _cjoin(out, x or CaseVal('T', None))
            return out
        if isinstance(e, ast.Subscript):
            base = self.val(e.value, env)
            if base is None:
                return None
            if base.kind == 'L' and not isinstance(e.slice, ast.Slice):
                return CaseVal('C', base.lower)
            if base.kind == 'I' and not isinstance(e.slice, ast.Slice):
                return CaseVal('M', base.lower)
            return base
        if isinstance(e, ast.Attribute):
            base = self.val(e.value, env)
            if base is not None and base.kind == 'M' and e.attr in ('value', 'string'):
                return CaseVal('C', base.lower)
            if e.attr == 'text':
                return CaseVal('T', False)
            if config_slot(e):
                return CaseVal('T', True)      # configuration tokens (prefixes etc.) are resource constants, not input text
            return None
        if isinstance(e, ast.Call):
            return self.call(e, env)
        return None

    def call(self, e, env):
        f = e.func
        name = f.attr if isinstance(f, ast.Attribute) else (f.id if isinstance(f, ast.Name) else None)
        args = [self.val(a, env) for a in e.args]
        recv = self.val(f.value, env) if isinstance(f, ast.Attribute) else None
        recv_name = f.value.id if isinstance(f, ast.Attribute) and isinstance(f.value, ast.Name) else None
        if isinstance(f, ast.Name) and f.id in self.callable_vars:
            kw = {k.arg: self.val(k.value, env) for k in e.keywords if k.arg}
            for mname in self.callable_vars[f.id]:
                self.calls.append((mname, True, args, kw))
        if isinstance(f, ast.Attribute) and (recv_name == 'self' or not isinstance(f.value, ast.Name) or recv_name not in ('regex', 're', 'RegExpUtility', 'str')):
            self.calls.append((name, recv_name == 'self', args, {k.arg: self.val(k.value, env) for k in e.keywords if k.arg}))
        if recv_name == 'self' and name in self.returns:
            return self.returns[name]
        if name == 'lower' and not e.args:
            base = recv or CaseVal('T', None)
            return CaseVal(base.kind if base.kind in ('T', 'C') else 'T', True)
        if name in STR_RAW and not e.args:
            return CaseVal((recv.kind if recv and recv.kind in ('T', 'C') else 'T'), False)
        if name in STR_SAME and recv is not None and recv.kind in ('T', 'C'):
            out = recv
            for a in args:
                if a is not None:
                    out = _cjoin(out, a)
            return out
        if name == 'split' and recv is not None and recv.kind in ('T', 'C'):
            return CaseVal('L' if recv.kind == 'C' else 'T', recv.lower)
        if name in ('match', 'search', 'fullmatch', 'exact_match', 'match_begin', 'match_end', 'is_exact_match', 'finditer'):
            text = None
            if recv_name in ('regex', 're', 'RegExpUtility'):
                text = args[1] if len(args) > 1 else None
            elif args:
                text = args[0]
            lower = text.lower if text is not None else None
            return CaseVal('I' if name == 'finditer' else 'M', lower)
        if name == 'get_matches':
            return CaseVal('L', True)          # RegExpUtility.get_matches lower-cases what it returns
        if name in ('group', 'get_group', 'groups', 'captures', 'get_group_list', 'groupdict'):
            m = args[0] if recv_name == 'RegExpUtility' and args else recv
            lower = m.lower if (m is not None and m.kind == 'M') else None
            return CaseVal('L' if name in ('get_group_list', 'captures', 'groups') else 'C', lower)
        if name in ('next', 'iter', 'list', 'reversed', 'sorted', 'str') and isinstance(f, ast.Name) and args:
            a0 = args[0]
            if a0 is not None and a0.kind == 'I' and name == 'next':
                return CaseVal('M', a0.lower)
            return a0
        return None

    # ---- statements
    def scan(self, e, env):
        """record lookups keyed by captured text inside expression e"""
        for n in ast.walk(e):
            slot, key = None, None
            if isinstance(n, ast.Compare) and len(n.ops) == 1 and isinstance(n.ops[0], (ast.In, ast.NotIn)):
                slot, key = config_slot(n.comparators[0]), n.left
            elif isinstance(n, ast.Subscript):
                slot, key = config_slot(n.value), n.slice
            elif isinstance(n, ast.Call) and isinstance(n.func, ast.Attribute) and n.func.attr == 'get' and n.args:
                slot, key = config_slot(n.func.value), n.args[0]
            if slot and key is not None and not isinstance(key, ast.Slice):
                v = self.val(key, env)
                if v is not None and v.kind == 'C':
                    self.lookups.append((n, slot, v))
            if isinstance(n, ast.Call):
                self.call(n, env)       # records outgoing calls with their argument states

    def walk(self, stmts, env):
        for st in stmts:
            if isinstance(st, (ast.Assign, ast.AnnAssign)):
                if st.value is None:
                    continue
                self.scan(st.value, env)
                v = self.val(st.value, env)
                for t in (st.targets if isinstance(st, ast.Assign) else [st.target]):
                    if isinstance(t, ast.Name):
                        env[t.id] = v
                    elif isinstance(t, (ast.Tuple, ast.List)):
                        pair = isinstance(st.value, (ast.Tuple, ast.List)) and len(st.value.elts) == len(t.elts)
                        for i, x in enumerate(t.elts):
                            if isinstance(x, ast.Name):
                                env[x.id] = self.val(st.value.elts[i], env) if pair else None
            elif isinstance(st, ast.AugAssign):
                self.scan(st.value, env)
                if isinstance(st.target, ast.Name):
                    env[st.target.id] = _cjoin(env.get(st.target.id), self.val(st.value, env))
            elif isinstance(st, ast.If):
                self.scan(st.test, env)
                e1 = self.walk(st.body, dict(env))
                e2 = self.walk(st.orelse, dict(env))
                env.clear()
                env.update({k: (e1.get(k) if e1.get(k) == e2.get(k) else _cjoin(e1.get(k), e2.get(k))) for k in set(e1) | set(e2)})
            elif isinstance(st, (ast.For, ast.While)):
                if isinstance(st, ast.For):
                    self.scan(st.iter, env)
                    it = self.val(st.iter, env)
                    self.note_callables(st)
                    for x in ast.walk(st.target):
                        if isinstance(x, ast.Name):
                            env[x.id] = CaseVal('M', it.lower) if it is not None and it.kind == 'I' else \
                                (CaseVal('C', it.lower) if it is not None and it.kind == 'L' else None)
                else:
                    self.scan(st.test, env)
                e1 = self.walk(st.body, dict(env))
                merged = {k: (env.get(k) if env.get(k) == e1.get(k) else _cjoin(env.get(k), e1.get(k))) for k in set(env) | set(e1)}
                e1 = self.walk(st.body, dict(merged))
                self.walk(st.orelse, dict(merged))
                env.clear()
                env.update(merged)
            elif isinstance(st, ast.Try):
                self.walk(st.body, env)
                for h in st.handlers:
                    self.walk(h.body, env)
                self.walk(st.orelse, env)
                self.walk(st.finalbody, env)
            elif isinstance(st, ast.With):
                self.walk(st.body, env)
            elif isinstance(st, (ast.Return, ast.Expr)):
                if st.value is not None:
                    self.scan(st.value, env)
                    if isinstance(st, ast.Return):
                        self.ret.append(self.val(st.value, env))
        return env

    def note_callables(self, st):
        """for f in (self.a, self.b) / for f, n in ((self.a, 1), (self.b, 2)): the loop variable stands for those methods"""
        lit = st.iter
        if isinstance(lit, ast.Name):
            lit = self.literals.get(lit.id)
        if not isinstance(lit, (ast.Tuple, ast.List)) or not lit.elts:
            return

        def bound(e):
            return e.attr if isinstance(e, ast.Attribute) and isinstance(e.value, ast.Name) and e.value.id == 'self' else None

        if isinstance(st.target, ast.Name) and all(bound(e) for e in lit.elts):
            self.callable_vars[st.target.id] = [bound(e) for e in lit.elts]
        elif isinstance(st.target, ast.Tuple) and all(isinstance(e, ast.Tuple) and len(e.elts) == len(st.target.elts) for e in lit.elts):
            for i, t in enumerate(st.target.elts):
                if isinstance(t, ast.Name) and all(bound(e.elts[i]) for e in lit.elts):
                    self.callable_vars[t.id] = [bound(e.elts[i]) for e in lit.elts]

    def run(self):
        self.walk(self.fn.body, self.env)
        seen, out = set(), []
        for n, slot, v in self.lookups:          # loop bodies are walked twice: keep the weakest state per site
            out.append((n, slot, v))
        best = {}
        for n, slot, v in out:
            k = id(n)
            if k not in best or _and3(best[k][2].lower, v.lower) != best[k][2].lower:
                best[k] = (n, slot, v)
        return sorted(best.values(), key=lambda x: (x[0].lineno, x[0].col_offset))


def config_slot(e):
    """'<slot>' for self.config.<slot>"""
    if isinstance(e, ast.Attribute) and isinstance(e.value, ast.Attribute) and e.value.attr == 'config' \
            and isinstance(e.value.value, ast.Name) and e.value.value.id == 'self':
        return e.attr
    return None


def _lang_of(modname):
    rest = modname[len(PKG) + 1:] if modname.startswith(PKG + '.') else ''
    return rest.split('.')[0] if '.' in rest else ''


def slot_key_case(idx, R):
    """{(slot, language): (all keys lower?, number of tables, any cased key?)} for self._<slot> = <Resource>.<Dict> in the
    configuration classes; language '' = every culture together (used for the culture-independent base classes)"""
    out = {}
    for mod in [m for n, m in sorted(idx.mods.items()) if n.startswith(PKG)]:
        for c in mod.classes.values():
            for fn in c.methods.values():
                for n in ast.walk(fn):
                    if isinstance(n, ast.Assign) and isinstance(n.value, ast.Attribute) and isinstance(n.value.value, ast.Name):
                        for t in n.targets:
                            if isinstance(t, ast.Attribute) and isinstance(t.value, ast.Name) and t.value.id == 'self' \
                                    and t.attr.startswith('_'):
                                try:
                                    vals = R.by_name(mod, n.value.value.id)
                                except AnalysisError:
                                    vals = None
                                d = vals.get(n.value.attr) if vals else None
                                if isinstance(d, dict) and d and all(isinstance(k, str) for k in d):
                                    lower = all(k == k.lower() for k in d)
                                    cased = any(k.lower() != k.upper() for k in d)
                                    for lang in {_lang_of(mod.name), ''}:
                                        cur = out.get((t.attr[1:], lang), (True, 0, False))
                                        out[(t.attr[1:], lang)] = (cur[0] and lower, cur[1] + 1, cur[2] or cased)
    return out


CASE_CONTROL = """
def number_with_month(self, source):
    suffix = source[3:]
    match = regex.match(self.config.week_day_regex, suffix.strip())
    week_day_str = RegExpUtility.get_group(match, 'weekday')
    if week_day_str in self.config.day_of_week:
        pass
    lowered = RegExpUtility.get_group(match, 'weekday').lower()
    if lowered in self.config.day_of_week:
        pass
"""


def rule_lookup_case(chk, idx):
    from ..consteval import Resources
    rid = 'C09.lookup-case'
    chk.rule(rid, 'a configuration dictionary whose keys are all lower case is only asked with captured text that was lower-cased '
                  '(the capture, or the text that was searched) - the patterns are case-insensitive', floor=20, control=True)
    ctl = CaseFlow(ast.parse(CASE_CONTROL).body[0], {'source': CaseVal('T', False)}).run()
    chk.control(rid, [v.lower for _, _, v in ctl] == [False, True])
    # the patterns are compiled case-insensitively
    ru = idx.cls('recognizers_text.utilities.RegExpUtility')
    g = ru.methods.get('get_safe_reg_exp')
    if g is None:
        raise AnalysisError('anchor vanished: RegExpUtility.get_safe_reg_exp')
    dflt = ' '.join(ast.unparse(d) for d in g.args.defaults)
    chk.judge('regex.I' in dflt or 'IGNORECASE' in dflt, rid, ru.mod.path, 'RegExpUtility.get_safe_reg_exp',
              'default flags include IGNORECASE', 'get_safe_reg_exp no longer compiles case-insensitively by default (%s)' % dflt, g.lineno)
    R = Resources(idx)
    keycase = slot_key_case(idx, R)
    mods = [m for n, m in sorted(idx.mods.items()) if n.startswith(PKG) and '.resources' not in n]
    funcs = [(m, c, f) for m in mods for (mm, c, f) in idx.functions(m) if c is not None
             and any(isinstance(n_, ast.Call) for n_ in ast.walk(f))]
    by_name = {}
    for m, c, f in funcs:
        by_name.setdefault(f.name, []).append((m, c, f))
    # parameter states: optimistic start, weakened by every call site (same-name resolution), entry points are raw
    pstate = {}
    for m, c, f in funcs:
        names = [a.arg for a in f.args.args if a.arg not in ('self', 'cls')]
        pstate[(c, f.name)] = {n_: 'top' for n_ in names}
    rstate = {}      # method name -> return state (only names defined once per class family are kept simple: by name)
    for _ in range(10):
        incoming = {k: {n_: [] for n_ in v} for k, v in pstate.items()}
        new_r = {}
        for m, c, f in funcs:
            params = {k: (CaseVal('T', True) if v == 'top' else v) for k, v in pstate[(c, f.name)].items()}
            if f.name in ENTRY_METHODS:
                params = {k: CaseVal('T', False) for k in params}       # called directly by the Specs / the model: text as written
            cf = CaseFlow(f, {k: v for k, v in params.items() if v is not None}, rstate)
            cf.run()
            rets = [r for r in cf.ret]
            if rets and all(isinstance(r, CaseVal) for r in rets) and len({r.kind for r in rets}) == 1:
                low = True
                for r in rets:
                    low = _and3(low, r.lower)
                rv = CaseVal(rets[0].kind, low)
                prev = new_r.get(f.name, rv)
                new_r[f.name] = CaseVal(rv.kind, _and3(rv.lower, prev.lower)) if prev is not None and prev.kind == rv.kind else None
            elif rets and any(isinstance(r, CaseVal) for r in rets):
                new_r[f.name] = None
            for name, is_self, args, kwargs in cf.calls:
                owner = idx.find_method(c, name)[0] if is_self else None
                for (m2, c2, f2) in by_name.get(name, []):
                    if is_self and not (c2 is owner or (c in idx.mro(c2) and c2 is not c)):
                        continue
                    pn = [a.arg for a in f2.args.args if a.arg not in ('self', 'cls')]
                    for i, pname in enumerate(pn):
                        if i < len(args):
                            incoming[(c2, f2.name)][pname].append(args[i])
                        elif pname in kwargs:
                            incoming[(c2, f2.name)][pname].append(kwargs[pname])
        new = {}
        for k, v in pstate.items():
            new[k] = {}
            for pname in v:
                inc = incoming[k][pname]
                if k[1] in ENTRY_METHODS:
                    new[k][pname] = CaseVal('T', False)
                elif not inc:
                    new[k][pname] = CaseVal('T', None)      # no call site the analysis can enumerate: provenance unknown, not raw
                elif any(x is None for x in inc):
                    known = [x for x in inc if x is not None]
                    kinds = {x.kind for x in known}
                    raw = any(x.lower is False for x in known)
                    new[k][pname] = CaseVal(kinds.pop() if len(kinds) == 1 else 'T', False if raw else None)
                else:
                    out = inc[0]
                    for x in inc[1:]:
                        out = _cjoin(out, x) if out != x else out
                    new[k][pname] = out
        new_r = {k: v for k, v in new_r.items() if v is not None}
        if new == pstate and new_r == rstate:
            break
        pstate, rstate = new, new_r
    n = 0
    skipped = {}
    for m, c, f in funcs:
        params = {k: v for k, v in pstate[(c, f.name)].items() if isinstance(v, CaseVal)}
        counts = {}
        for node, slot, v in CaseFlow(f, params, rstate).run():
            kc = keycase.get((slot, _lang_of(m.name))) or keycase.get((slot, ''))
            if kc is None:
                skipped[slot] = skipped.get(slot, 0) + 1
                continue
            construct = '%s.%s' % (c.name, f.name)
            detail = 'self.config.%s asked with %s captured text' % (
                slot, {True: 'lower-cased', False: 'raw', None: 'captured (provenance of the searched text unknown)'}[v.lower])
            counts[detail] = counts.get(detail, 0) + 1
            if counts[detail] > 1:
                detail += ' (#%d)' % counts[detail]
            if not kc[0]:
                chk.exempt(rid, m.path, construct, 'some table assigned to this slot has keys that are not lower case', detail, node.lineno)
                continue
            if not kc[2]:
                chk.exempt(rid, m.path, construct, 'the keys of the table(s) of this culture have no letter case', detail, node.lineno)
                continue
            n += 1
            chk.consulted(m.path)
            if v.lower is None:
                chk.exempt(rid, m.path, construct, 'the text that was searched reaches this function through calls the analysis cannot '
                           'enumerate (method passed as a value / no visible call site): raw text is not established', detail, node.lineno)
                continue
            chk.judge(v.lower, rid, m.path, construct, detail,
                      '`%s` asks self.config.%s (all keys lower case in %d table(s)) with text captured as written by a '
                      'case-insensitive pattern: neither the capture nor the searched text passes through .lower(), so capitalised '
                      'input matches the pattern but misses the table' % (ast.unparse(node)[:70], slot, kc[1]), node.lineno)
    if skipped:
        chk.observe('C09.lookup-case: lookups in slots without a resource table of string keys were not judged: %s'
                    % ', '.join('%s(%d)' % kv for kv in sorted(skipped.items())))
    if n < 20:
        raise AnalysisError('only %d dictionary lookups keyed by captured text found' % n)


def run(chk):
    chk.explanation = ('granularity kinds (DateOnly vs DateTime) inferred flow-sensitively inside the candidate-selection '
                       'functions; every ordering comparison between the two kinds is a violation; polarity and step of every '
                       'candidate move; dataflow of the moved candidates to future_value / past_value; emission order in the merger')
    idx = get_index()
    scoped = scoped_functions(idx)
    rule_kinds(chk, idx, scoped)
    rule_polarity(chk, idx, scoped)
    rule_order(chk, idx)
    rule_eval_yearless(chk, idx)
    rule_eval_weekday(chk, idx)
    rule_numeric_order(chk, idx)
    rule_numeric_priority(chk, idx)
    rule_day_guard(chk, idx)
    rule_lookup_case(chk, idx)
    chk.assume('a parameter annotated `datetime` (the reference) may carry a time of day; DateUtils.safe_create_* with three '
               'date arguments and datetime(y, m, d) yield midnight; DateUtils.this/next/last add whole days')
