"""C09 - dates without a year resolve to the nearest past and next future occurrence.

Decided on the code that picks the two candidates of a year-less month/day (DateUtils.generate_dates,
BaseDateParser.parse_number_with_month) and of a bare weekday (the week_day_regex branch of parse_implicit_date,
base and Chinese):

  C09.kinds     mixed-granularity comparison rule: a value of kind DateOnly (safe_create*/datetime(y, m, d) without
                time arguments, .date(), .replace(hour=0, minute=0, second=0), DateOnly +- whole days/months/years) is
                never ordered (<, <=, >, >=) against a value of kind DateTime (a `datetime` parameter such as
                `reference`, DateTime +- timedelta, DateUtils.this/next/last of a DateTime) - on the reference day
                itself the time of day would decide which candidate is "past".
  C09.polarity  a candidate is moved forward (+1 year, +7 days; +4 years under the Feb-29 guard) only under
                `candidate < reference`, moved back (-1 year, -7 days, -4 years) only under `candidate >= reference`
                (or the else of the `<` test on an identically built candidate).
  C09.wiring    the forward-moved candidate flows to future_value (first element of generate_dates' result, unpacked
                into future_value at every call site), the backward-moved one to past_value.
  C09.order     _date_time_resolution (base and Chinese) emits resolveToPast before resolveToFuture, each from the
                resolution of the same name; _resolve_ampm is applied in the same order.
"""
import ast

from ..core import AnalysisError, rel
from ..index import get_index

LEVEL = 'other'
DESIGN_REF = 'DESIGN.md#c09'
META = {
    'text': 'C09 (partial): the past/future candidates of a year-less date or bare weekday are never ordered against a '
            'reference that still carries its time of day (granularity kinds), they move +-1 year / +-7 days (4 years for '
            '29 February) with the right polarity, reach future_value / past_value uncrossed, and are emitted past first',
    'note': 'Not decided: leap-year arithmetic inside the non-leap Feb-29 branch, validity filtering (is_valid_date), '
            'which surface layouts reach which function, the TIMEX strings, other cultures\' month/weekday tables. Kinds are '
            'inferred inside one function; a datetime parameter is assumed to carry a time of day (recognize_datetime passes '
            'the caller\'s reference unchanged). The same comparison shape in day-only branches ("on the 12th", a single '
            'number, Chinese this-month forms) is outside the property\'s quantifier and reported as observations only.',
    'technique': 'intra-procedural, flow-sensitive abstract interpretation over ast (kinds DateOnly / DateTime / unknown, '
                 'join at control-flow merges), path conditions from if/else chains, linear shift extraction '
                 '(year +- k, timedelta(weeks/days), datedelta, replace(year=..)), dataflow to future_value/past_value',
}

PKG = 'recognizers_date_time.date_time'
D, T, U = 'DateOnly', 'DateTime', '?'
CTORS = {'safe_create_from_min_value': 0, 'safe_create_from_value': 1, 'safe_create_date_resolve_overflow': 0, 'datetime': 0}
TIME_KW = {'hour', 'minute', 'second', 'microsecond'}
ORD = {ast.Lt: '<', ast.LtE: '<=', ast.Gt: '>', ast.GtE: '>='}
FLIP = {'<': '>', '<=': '>=', '>': '<', '>=': '<='}
NEG = {'<': '>=', '<=': '>', '>': '<=', '>=': '<'}


def callee_name(call):
    f = call.func
    if isinstance(f, ast.Attribute):
        return f.attr
    if isinstance(f, ast.Name):
        return f.id
    return None


def const_int(e):
    if isinstance(e, ast.Constant) and isinstance(e.value, int) and not isinstance(e.value, bool):
        return e.value
    if isinstance(e, ast.UnaryOp) and isinstance(e.op, ast.USub):
        v = const_int(e.operand)
        return -v if v is not None else None
    return None


def delta_of(call):
    """timedelta/datedelta call -> (unit, amount, date_preserving) or None"""
    if not isinstance(call, ast.Call):
        return None
    n = callee_name(call)
    if n not in ('timedelta', 'datedelta') or call.args:
        return None
    if len(call.keywords) != 1:
        return (None, None, all(k.arg in ('days', 'weeks', 'months', 'years') for k in call.keywords))
    k = call.keywords[0]
    amt = const_int(k.value)
    if k.arg == 'weeks':
        return ('days', amt * 7 if amt is not None else None, True)
    if k.arg in ('days', 'months', 'years'):
        return (k.arg, amt, True)
    return (k.arg, amt, False)


class Kinds:
    """flow-sensitive kind inference; records every ordering comparison with the kinds of both sides"""

    def __init__(self, fn):
        self.fn = fn
        self.cmps = []          # (node, op, kinds_left, kinds_right, region)
        self.region = None
        self.env = {}
        args = fn.args.posonlyargs + fn.args.args + fn.args.kwonlyargs
        for a in args:
            ann = a.annotation
            if isinstance(ann, ast.Name) and ann.id == 'datetime':
                self.env[a.arg] = frozenset([T])
        self.dt_params = set(self.env)

    # ---- expressions
    def kind(self, e, env):
        if isinstance(e, ast.Name):
            return env.get(e.id, frozenset([U]))
        if isinstance(e, ast.IfExp):
            return self.kind(e.body, env) | self.kind(e.orelse, env)
        if isinstance(e, ast.Call):
            n = callee_name(e)
            if n in CTORS:
                date_args = e.args[CTORS[n]:]
                kws = {k.arg for k in e.keywords}
                if len(date_args) <= 3 and not (kws & TIME_KW):
                    return frozenset([D])
                extra = list(date_args[3:]) + [k.value for k in e.keywords if k.arg in TIME_KW]
                if all(const_int(x) == 0 for x in extra):
                    return frozenset([D])
                return frozenset([T])
            if n == 'safe_create_from_min_value_date_time':
                return frozenset([D]) if len(e.args) + len(e.keywords) == 1 else frozenset([T])
            if n == 'date' and isinstance(e.func, ast.Attribute) and not e.args:
                return frozenset([D])
            if n == 'replace' and isinstance(e.func, ast.Attribute):
                base = self.kind(e.func.value, env)
                kws = {k.arg: k.value for k in e.keywords}
                if {'hour', 'minute', 'second'} <= set(kws) and all(const_int(kws[k]) == 0 for k in kws if k in TIME_KW):
                    return frozenset([D])
                if set(kws) <= {'year', 'month', 'day'}:
                    return base
                return frozenset([U])
            if n in ('this', 'next', 'last') and e.args:
                return self.kind(e.args[0], env)
            if n in ('now', 'today', 'utcnow'):
                return frozenset([T])
            return frozenset([U])
        if isinstance(e, ast.BinOp) and isinstance(e.op, (ast.Add, ast.Sub)):
            base = self.kind(e.left, env)
            d = delta_of(e.right)
            if d is None:
                return frozenset([U])
            if d[2]:
                return base
            return frozenset(T if k == D else k for k in base)
        return frozenset([U])

    def scan_expr(self, e, env):
        for n in ast.walk(e):
            if isinstance(n, ast.Compare):
                terms = [n.left] + list(n.comparators)
                for i, op in enumerate(n.ops):
                    if type(op) in ORD:
                        self.cmps.append((n, ORD[type(op)], terms[i], terms[i + 1],
                                          self.kind(terms[i], env), self.kind(terms[i + 1], env), self.region))

    # ---- statements
    def walk(self, stmts, env, top=False):
        for s in stmts:
            if top:
                self.note_region(s)
            self.stmt(s, env)
        return env

    def note_region(self, s):
        """top-level `match = regex.<f>(self.config.<slot>, ...)` names the branch that follows"""
        if isinstance(s, ast.Assign) and len(s.targets) == 1 and isinstance(s.targets[0], ast.Name) \
                and isinstance(s.value, ast.Call) and s.value.args:
            a = s.value.args[0]
            if isinstance(a, ast.Attribute) and isinstance(a.value, ast.Attribute) and a.value.attr == 'config':
                self.region = a.attr
            elif isinstance(a, ast.Attribute) and isinstance(a.value, ast.Name) and a.value.id == 'self':
                self.region = a.attr

    @staticmethod
    def join(a, b):
        out = {}
        for k in set(a) | set(b):
            out[k] = a.get(k, frozenset([U])) | b.get(k, frozenset([U]))
        return out

    def stmt(self, s, env):
        if isinstance(s, ast.Assign):
            self.scan_expr(s.value, env)
            for t in s.targets:
                self.assign(t, s.value, env)
        elif isinstance(s, ast.AnnAssign):
            if s.value is not None:
                self.scan_expr(s.value, env)
                self.assign(s.target, s.value, env)
        elif isinstance(s, ast.AugAssign):
            self.scan_expr(s.value, env)
            if isinstance(s.target, ast.Name):
                env[s.target.id] = self.kind(ast.BinOp(left=ast.Name(id=s.target.id, ctx=ast.Load()), op=s.op, right=s.value), env)
        elif isinstance(s, ast.If):
            self.scan_expr(s.test, env)
            e1 = self.walk(s.body, dict(env))
            e2 = self.walk(s.orelse, dict(env))
            env.clear()
            env.update(self.join(e1, e2))
        elif isinstance(s, (ast.While, ast.For)):
            if isinstance(s, ast.While):
                self.scan_expr(s.test, env)
            else:
                self.scan_expr(s.iter, env)
                for n in ast.walk(s.target):
                    if isinstance(n, ast.Name):
                        env[n.id] = frozenset([U])
            e1 = self.walk(s.body, dict(env))
            if isinstance(s, ast.While):
                self.scan_expr(s.test, e1)
            e1 = self.walk(s.body, self.join(env, e1))     # second pass with the loop-carried kinds
            e2 = self.walk(s.orelse, dict(env))
            j = self.join(self.join(env, e1), e2)
            env.clear()
            env.update(j)
        elif isinstance(s, ast.Try):
            self.walk(s.body, env)
            for h in s.handlers:
                self.walk(h.body, env)
            self.walk(s.orelse, env)
            self.walk(s.finalbody, env)
        elif isinstance(s, ast.With):
            self.walk(s.body, env)
        elif isinstance(s, (ast.Return, ast.Expr)):
            if s.value is not None:
                self.scan_expr(s.value, env)
        elif isinstance(s, (ast.FunctionDef, ast.AsyncFunctionDef, ast.ClassDef)):
            pass

    def assign(self, target, value, env):
        if isinstance(target, ast.Name):
            env[target.id] = self.kind(value, env)
        elif isinstance(target, (ast.Tuple, ast.List)):
            k = frozenset([D]) if isinstance(value, ast.Call) and callee_name(value) == 'generate_dates' else frozenset([U])
            if isinstance(value, (ast.Tuple, ast.List)) and len(value.elts) == len(target.elts):
                for t, v in zip(target.elts, value.elts):
                    self.assign(t, v, env)
                return
            for t in target.elts:
                if isinstance(t, ast.Name):
                    env[t.id] = k

    def run(self):
        self.walk(self.fn.body, self.env, top=True)
        merged, order = {}, []
        for node, op, a, b, ka, kb, reg in self.cmps:       # loop bodies are walked twice: merge the kinds seen
            key = (id(a), id(b))
            if key in merged:
                m = merged[key]
                m[4], m[5] = m[4] | ka, m[5] | kb
            else:
                merged[key] = [node, op, a, b, ka, kb, reg]
                order.append(key)
        self.cmps = [tuple(merged[k]) for k in order]
        return self.cmps


def kinds_str(k):
    return '|'.join(sorted(k))


def mixed(kl, kr):
    return (D in kl and T in kr) or (T in kl and D in kr)


def parents_of(fn):
    par = {}
    for n in ast.walk(fn):
        for ch in ast.iter_child_nodes(n):
            par[ch] = n
    return par


def guard_calls(node, par, stop):
    """names of predicates called in the enclosing if-tests: ['is_Feb_29th', '!is_leap_year', ...]"""
    out = []
    cur = node
    while cur is not stop and cur in par:
        p = par[cur]
        if isinstance(p, ast.If):
            neg = any(cur is s for s in p.orelse)
            if neg or any(cur is s for s in p.body):
                for n in ast.walk(p.test):
                    if isinstance(n, ast.Call) and callee_name(n) and callee_name(n).lower().startswith(('is_', 'has_')):
                        out.append(('!' if neg else '') + callee_name(n))
        cur = p
    return sorted(set(out))


# ---------------------------------------------------------------------------------------------------
# shifts and polarity

def shift_of(stmt):
    """-> (var, unit, amount) when the statement moves a candidate date, else None"""
    if isinstance(stmt, ast.AugAssign) and isinstance(stmt.target, ast.Name) and isinstance(stmt.op, (ast.Add, ast.Sub)):
        d = delta_of(stmt.value)
        if d and d[0] and d[1] is not None:
            amt = d[1] if isinstance(stmt.op, ast.Add) else -d[1]
            return (stmt.target.id, d[0], amt)
        return None
    if isinstance(stmt, ast.Assign) and len(stmt.targets) == 1 and isinstance(stmt.targets[0], ast.Name):
        x, v = stmt.targets[0].id, stmt.value
        if isinstance(v, ast.BinOp) and isinstance(v.op, (ast.Add, ast.Sub)) and isinstance(v.left, ast.Name) and v.left.id == x:
            d = delta_of(v.right)
            if d and d[0] and d[1] is not None:
                return (x, d[0], d[1] if isinstance(v.op, ast.Add) else -d[1])
        if isinstance(v, ast.Call):
            n = callee_name(v)
            if n in CTORS and len(v.args) > CTORS[n]:
                y = v.args[CTORS[n]]
                if isinstance(y, ast.BinOp) and isinstance(y.op, (ast.Add, ast.Sub)) and const_int(y.right) is not None \
                        and not isinstance(y.left, ast.Constant):
                    return (x, 'years', const_int(y.right) if isinstance(y.op, ast.Add) else -const_int(y.right))
            if n == 'replace' and isinstance(v.func, ast.Attribute):
                for k in v.keywords:
                    if k.arg in ('year', 'month', 'day') and isinstance(k.value, ast.BinOp) \
                            and isinstance(k.value.op, (ast.Add, ast.Sub)) and const_int(k.value.right) is not None:
                        amt = const_int(k.value.right)
                        return (x, k.arg + 's', amt if isinstance(k.value.op, ast.Add) else -amt)
    return None


def reference_like(fn, dt_params):
    """the datetime parameters plus locals computed from them alone (e.g. a truncated copy of the reference)"""
    ref_like = set(dt_params)
    for _ in range(3):
        for n in ast.walk(fn):
            if isinstance(n, ast.Assign) and len(n.targets) == 1 and isinstance(n.targets[0], ast.Name):
                names = {x.id for x in ast.walk(n.value) if isinstance(x, ast.Name) and not x.id[:1].isupper()
                         and x.id not in ('datetime', 'timedelta', 'datedelta', 'self')}
                if names and names <= ref_like:
                    ref_like.add(n.targets[0].id)
    # a name that is also assigned from something else is not a pure copy of the reference
    for n in ast.walk(fn):
        if isinstance(n, ast.Assign) and len(n.targets) == 1 and isinstance(n.targets[0], ast.Name) \
                and n.targets[0].id in ref_like and n.targets[0].id not in dt_params:
            names = {x.id for x in ast.walk(n.value) if isinstance(x, ast.Name) and not x.id[:1].isupper()
                     and x.id not in ('datetime', 'timedelta', 'datedelta', 'self')}
            if not (names and names <= ref_like):
                ref_like.discard(n.targets[0].id)
    return ref_like


def cand_ref_compare(test, dt_params, ref_like):
    """conjunct `cand <op> ref` (either order) -> (cand name, normalised op) list"""
    out = []
    conj = test.values if isinstance(test, ast.BoolOp) and isinstance(test.op, ast.And) else [test]
    for c in conj:
        if isinstance(c, ast.Compare) and len(c.ops) == 1 and type(c.ops[0]) in ORD:
            a, b, op = c.left, c.comparators[0], ORD[type(c.ops[0])]
            if isinstance(a, ast.Name) and isinstance(b, ast.Name):
                if b.id in ref_like and a.id not in ref_like:
                    out.append((a.id, op))
                elif a.id in ref_like and b.id not in ref_like:
                    out.append((b.id, FLIP[op]))
    return out


def polarity_scan(fn, region_of=None):
    """-> list of {var, unit, amount, cond_var, op, line, guards, same, region}"""
    k = Kinds(fn)
    k.run()
    ref_like = reference_like(fn, k.dt_params)
    par = parents_of(fn)
    # last top-down constructor expression per name (to recognise identically built candidates)
    built = {}
    for n in ast.walk(fn):
        if isinstance(n, ast.Assign) and len(n.targets) == 1 and isinstance(n.targets[0], ast.Name):
            built.setdefault(n.targets[0].id, ast.dump(n.value))
    out = []
    for n in ast.walk(fn):
        if not isinstance(n, ast.If):
            continue
        cr = cand_ref_compare(n.test, k.dt_params, ref_like)
        if not cr:
            continue
        for branch, negate in ((n.body, False), (n.orelse, True)):
            for s in branch:
                sh = shift_of(s)
                if not sh:
                    continue
                var, unit, amt = sh
                # prefer the comparison on the moved variable itself
                pick = [c for c in cr if c[0] == var] or cr
                cvar, op = pick[0]
                if negate:
                    op = NEG[op]
                same = cvar == var or (built.get(cvar) is not None and built.get(cvar) == built.get(var))
                out.append({'var': var, 'unit': unit, 'amount': amt, 'cond_var': cvar, 'op': op, 'line': s.lineno,
                            'guards': guard_calls(n, par, fn), 'same': same, 'node': s, 'if': n})
    return out


def polarity_verdict(p):
    msgs = []
    fwd = p['amount'] > 0
    if not p['same']:
        msgs.append('the test is on a different, differently built candidate than the one moved')
    if fwd and p['op'] != '<':
        msgs.append('a candidate is moved forward (%+d %s) under `candidate %s reference`; only `<` (strictly before the '
                    'reference) may move it forward' % (p['amount'], p['unit'], p['op']))
    if not fwd and p['op'] != '>=':
        msgs.append('a candidate is moved back (%+d %s) under `candidate %s reference`; only `>=` (on or after the '
                    'reference) may move it back' % (p['amount'], p['unit'], p['op']))
    feb29 = any(g.lstrip('!').lower().startswith('is_feb_29') and not g.startswith('!') for g in p['guards'])
    want = {'years': 4 if feb29 else 1, 'days': 7}.get(p['unit'])
    if want is None:
        msgs.append('unit %s is not a year or week step' % p['unit'])
    elif abs(p['amount']) != want:
        msgs.append('step is %+d %s, expected +-%d%s' % (p['amount'], p['unit'], want, ' (29 February: neighbouring leap years)' if feb29 else ''))
    return msgs


KINDS_CONTROL = '''
def gen(no_year: bool, reference: datetime, year: int, month: int, day: int):
    future_date = DateUtils.safe_create_from_min_value(year, month, day)
    past_date = DateUtils.safe_create_from_min_value(year, month, day)
    today = reference.replace(hour=0, minute=0, second=0, microsecond=0)
    if future_date < reference:
        future_date = DateUtils.safe_create_from_min_value(year + 1, month, day)
    if past_date >= today:
        past_date = DateUtils.safe_create_from_min_value(year + 1, month, day)
    return future_date, past_date
'''


# ---------------------------------------------------------------------------------------------------

def scoped_functions(idx):
    """[(mod, cls, fn, region filter or None)]"""
    out = []
    du = idx.cls(PKG + '.utilities.DateUtils')
    if 'generate_dates' not in du.methods:
        raise AnalysisError('anchor vanished: DateUtils.generate_dates')
    out.append((du.mod, du, du.methods['generate_dates'], None))
    bd = idx.cls(PKG + '.base_date.BaseDateParser')
    for name, region in (('parse_number_with_month', None), ('parse_implicit_date', 'week_day_regex')):
        if name not in bd.methods:
            raise AnalysisError('anchor vanished: BaseDateParser.%s' % name)
        out.append((bd.mod, bd, bd.methods[name], region))
    for c in idx.subclasses(bd):
        for name, region in (('parse_number_with_month', None), ('parse_implicit_date', 'week_day_regex')):
            if name in c.methods:
                out.append((c.mod, c, c.methods[name], region))
    return out


def other_date_functions(idx):
    bd = idx.cls(PKG + '.base_date.BaseDateParser')
    for c in [bd] + idx.subclasses(bd):
        for name, fn in sorted(c.methods.items()):
            if name.startswith('parse') or name.startswith('match_to'):
                yield c.mod, c, fn


def region_of_node(fn, node, par):
    """slot name of the top-level `match = regex.f(self.config.<slot>, ..)` preceding the top-level statement holding node"""
    cur = node
    while cur in par and par[cur] is not fn:
        cur = par[cur]
    k = Kinds(fn)
    for s in fn.body:
        k.note_region(s)
        if s is cur:
            return k.region
    return None


def rule_kinds(chk, idx, scoped):
    rid = 'C09.kinds'
    chk.rule(rid, 'no ordering comparison between a date-only candidate and a reference that carries its time of day',
             floor=6, control=True)
    ctl = Kinds(ast.parse(KINDS_CONTROL).body[0]).run()
    chk.control(rid, [mixed(c[4], c[5]) for c in ctl] == [True, False])
    seen_fn = set()
    for mod, cls, fn, region in scoped:
        seen_fn.add(fn)
        chk.consulted(mod.path)
        k = Kinds(fn)
        cmps = k.run()
        par = parents_of(fn)
        if region is not None and not any(c[6] == region for c in cmps):
            raise AnalysisError('%s.%s: no comparison found in the branch guarded by self.config.%s (weekday branch moved?)'
                                % (cls.name, fn.name, region))
        counts = {}
        for node, op, a, b, ka, kb, reg in cmps:
            if region is not None and reg != region:
                continue
            if not ({D, T} & (ka | kb)):
                continue
            guards = guard_calls(node, par, fn)
            detail = '%s %s %s' % (kinds_str(ka), op, kinds_str(kb))
            if guards:
                detail += ' under [%s]' % ', '.join(guards)
            if region is not None:
                detail += ' in branch ' + reg
            counts[detail] = counts.get(detail, 0) + 1
            if counts[detail] > 1:
                detail += ' (#%d)' % counts[detail]
            construct = '%s.%s' % (cls.name, fn.name)
            chk.judge(not mixed(ka, kb), rid, mod.path, construct, detail,
                      '`%s %s %s` orders a date-only value (midnight) against a datetime that still carries its time of day: '
                      'when the stated day is the reference day, the outcome depends on the time of the reference'
                      % (ast.unparse(a), op, ast.unparse(b)), node.lineno)
    # the same shape outside the property's quantifier: observations only
    obs = {}
    for mod, cls, fn in other_date_functions(idx):
        k = Kinds(fn)
        for node, op, a, b, ka, kb, reg in k.run():
            if mixed(ka, kb) and not (fn in seen_fn and (reg == 'week_day_regex' or fn.name != 'parse_implicit_date')):
                where = '%s %s.%s%s' % (rel(mod.path), cls.name, fn.name, '[%s]' % reg if reg else '')
                obs.setdefault(where, []).append('%d: %s %s %s' % (node.lineno, ast.unparse(a), op, ast.unparse(b)))
    for where, items in sorted(obs.items()):
        chk.observe('%s: date-only candidate ordered against the raw reference (%s) - same shape, but day-only / other '
                    'layouts are outside C09\'s quantifier' % (where, '; '.join(items)))


def rule_polarity(chk, idx, scoped):
    rid, rw = 'C09.polarity', 'C09.wiring'
    chk.rule(rid, 'forward moves (+1 year / +7 days / +4 years for Feb 29) only under candidate < reference, backward moves '
                  'only under candidate >= reference', floor=6, control=True)
    chk.rule(rw, 'the forward-moved candidate reaches future_value, the backward-moved one past_value', floor=4)
    ctl = polarity_scan(ast.parse(KINDS_CONTROL).body[0])
    chk.control(rid, [bool(polarity_verdict(p)) for p in sorted(ctl, key=lambda p: p['line'])] == [False, True])
    gen_order = None
    for mod, cls, fn, region in scoped:
        par = parents_of(fn)
        ps = polarity_scan(fn)
        if region is not None:
            ps = [p for p in ps if region_of_node(fn, p['node'], par) == region]
        if fn.name != 'parse_number_with_month' or cls.name == 'BaseDateParser':
            if not ps:
                raise AnalysisError('%s.%s: no candidate move under a comparison with the reference recognised' % (cls.name, fn.name))
        construct = '%s.%s' % (cls.name, fn.name)
        fwd, back = set(), set()
        counts = {}
        for p in sorted(ps, key=lambda p: p['line']):
            detail = 'move %+d %s under candidate %s reference' % (p['amount'], p['unit'], p['op'])
            if p['guards']:
                detail += ' [%s]' % ', '.join(p['guards'])
            if not p['same']:
                detail += ' (tested candidate differs)'
            counts[detail] = counts.get(detail, 0) + 1
            if counts[detail] > 1:
                detail += ' (#%d)' % counts[detail]
            msgs = polarity_verdict(p)
            chk.judge(not msgs, rid, mod.path, construct, detail, '; '.join(msgs), p['line'])
            # role of a variable = role given by the comparison that guards its move
            (fwd if p['op'] in ('<', '<=') else back).add(p['var'])
        # ---- wiring
        amb = fwd & back
        if amb:
            chk.bad(rw, mod.path, construct, 'same variable moved under both < and >=', 'candidate variable(s) %s are moved '
                    'under both polarities' % sorted(amb), fn.lineno)
            continue
        sinks = {}
        for n in ast.walk(fn):
            if isinstance(n, ast.Assign):
                for t in n.targets:
                    if isinstance(t, ast.Attribute) and t.attr in ('future_value', 'past_value'):
                        if region is not None and region_of_node(fn, n, par) != region:
                            continue
                        names = {x.id for x in ast.walk(n.value) if isinstance(x, ast.Name)}
                        sinks.setdefault(t.attr, []).append((n, names))
        if fn.name == 'generate_dates':
            rets = [n for n in ast.walk(fn) if isinstance(n, ast.Return) and isinstance(n.value, ast.Tuple) and len(n.value.elts) == 2]
            if not rets:
                raise AnalysisError('DateUtils.generate_dates: no `return a, b` found')
            for r in rets:
                a, b = r.value.elts
                ok = isinstance(a, ast.Name) and isinstance(b, ast.Name) and a.id in fwd and b.id in back
                chk.judge(ok, rw, mod.path, construct, 'returns (forward-moved, backward-moved)',
                          'generate_dates does not return (future candidate, past candidate) in that order', r.lineno)
            gen_order = True
            continue
        if not sinks:
            raise AnalysisError('%s: no future_value / past_value assignment found' % construct)
        for attr, role, other in (('future_value', fwd, back), ('past_value', back, fwd)):
            for n, names in sinks.get(attr, []):
                ok = bool(names & role) and not (names & other)
                chk.judge(ok, rw, mod.path, construct, '%s <- %s-moved candidate' % (attr, 'forward' if attr == 'future_value' else 'backward'),
                          '%s is assigned from %s, which is not the candidate moved %s' %
                          (attr, ast.unparse(n.value), 'forward' if attr == 'future_value' else 'back'), n.lineno)
    # call sites of generate_dates
    ncall = 0
    nth = {}
    for mod in [m for n, m in sorted(idx.mods.items()) if n.startswith(PKG)]:
        for m, cls, fn in idx.functions(mod):
            for n in ast.walk(fn):
                if isinstance(n, ast.Assign) and isinstance(n.value, ast.Call) and callee_name(n.value) == 'generate_dates':
                    ncall += 1
                    construct = '%s.%s' % (cls.name if cls else '', fn.name)
                    t = n.targets[0]
                    if isinstance(t, ast.Name):
                        # pair kept in one name: element [0] must feed future_value, [1] past_value
                        par = parents_of(fn)
                        uses = []
                        for u in ast.walk(fn):
                            if isinstance(u, ast.Subscript) and isinstance(u.value, ast.Name) and u.value.id == t.id \
                                    and const_int(u.slice) in (0, 1):
                                cur, sink = u, None
                                while cur in par and sink is None:
                                    cur = par[cur]
                                    if isinstance(cur, ast.Assign):
                                        sink = [x.attr for x in cur.targets if isinstance(x, ast.Attribute)]
                                uses.append((const_int(u.slice), (sink or ['?'])[0]))
                        ok = bool(uses) and all((i == 0 and a == 'future_value') or (i == 1 and a == 'past_value') for i, a in uses)
                        nth[construct] = nth.get(construct, 0) + 1
                        chk.judge(ok, rw, mod.path, construct + '#%d' % nth[construct], 'generate_dates()[0] -> future_value, [1] -> past_value',
                                  'elements of the pair returned by generate_dates are used as %s' % sorted(set(uses)), n.lineno)
                        chk.consulted(mod.path)
                        continue
                    if not (isinstance(t, ast.Tuple) and len(t.elts) == 2 and all(isinstance(e, ast.Name) for e in t.elts)):
                        raise AnalysisError('%s:%d generate_dates result not unpacked into two names' % (rel(mod.path), n.lineno))
                    a, b = t.elts[0].id, t.elts[1].id
                    fut = [s for s in ast.walk(fn) if isinstance(s, ast.Assign) and any(isinstance(x, ast.Attribute) and x.attr == 'future_value' for x in s.targets)]
                    pst = [s for s in ast.walk(fn) if isinstance(s, ast.Assign) and any(isinstance(x, ast.Attribute) and x.attr == 'past_value' for x in s.targets)]
                    ok = bool(fut) and bool(pst) and all(isinstance(s.value, ast.Name) and s.value.id == a for s in fut) \
                        and all(isinstance(s.value, ast.Name) and s.value.id == b for s in pst)
                    chk.judge(ok, rw, mod.path, construct, 'generate_dates()[0] -> future_value, [1] -> past_value',
                              'the pair returned by generate_dates is not stored as (future_value, past_value)', n.lineno)
                    chk.consulted(mod.path)
    if ncall < 2:
        raise AnalysisError('fewer than 2 call sites of generate_dates found (%d)' % ncall)


def rule_order(chk, idx):
    rid = 'C09.order'
    chk.rule(rid, '_date_time_resolution emits resolveToPast (from past_resolution) before resolveToFuture (from '
                  'future_resolution)', floor=2)
    base = idx.cls(PKG + '.base_merged.BaseMergedParser')
    consts = idx.cls(PKG + '.constants.Constants')

    def cval(e):
        if isinstance(e, ast.Constant):
            return e.value
        if isinstance(e, ast.Attribute) and isinstance(e.value, ast.Name) and e.value.id == 'Constants':
            v = consts.attrs.get(e.attr)
            return v.value if isinstance(v, ast.Constant) else None
        return None

    done = set()
    for c in [base] + idx.subclasses(base):
        k, fn = idx.find_method(c, '_date_time_resolution')
        if fn is None:
            raise AnalysisError('anchor vanished: %s._date_time_resolution' % c.name)
        if k in done:
            continue
        done.add(k)
        chk.consulted(k.mod.path)
        defs = {}
        for n in ast.walk(fn):
            if isinstance(n, ast.Assign) and len(n.targets) == 1 and isinstance(n.targets[0], ast.Name):
                defs.setdefault(n.targets[0].id, []).append(n.value)

        def origin(name, depth=0):
            """'past' / 'future' when the name is (generated from) value.<x>_resolution"""
            out = set()
            for v in defs.get(name, []):
                for a in ast.walk(v):
                    if isinstance(a, ast.Attribute) and a.attr in ('past_resolution', 'future_resolution'):
                        out.add(a.attr.split('_')[0])
                    elif isinstance(a, ast.Name) and a.id != name and depth < 3:
                        out |= origin(a.id, depth + 1)
            return out

        for callee in ('_add_resolution_fields_any', '_resolve_ampm'):
            calls = []
            for n in ast.walk(fn):
                if isinstance(n, ast.Call) and callee_name(n) == callee:
                    keys = [cval(a) for a in n.args]
                    for key in ('resolveToPast', 'resolveToFuture'):
                        if key in keys:
                            calls.append((n.lineno, n.col_offset, key, n))
            calls.sort(key=lambda x: (x[0], x[1]))
            seq = [x[2] for x in calls]
            if callee == '_add_resolution_fields_any' and sorted(seq) != ['resolveToFuture', 'resolveToPast']:
                raise AnalysisError('%s._date_time_resolution: expected one emission each of resolveToPast / resolveToFuture, found %s'
                                    % (k.name, seq))
            if not seq:
                continue
            construct = '%s._date_time_resolution#%s' % (k.name, callee)
            chk.judge(seq == ['resolveToPast', 'resolveToFuture'], rid, k.mod.path, construct, 'sequence=%s' % seq,
                      'resolveToFuture is emitted before resolveToPast (the values list is built in insertion order)', calls[0][0])
            if callee == '_add_resolution_fields_any':
                for _, _, key, n in calls:
                    arg = n.args[-1]
                    src = origin(arg.id) if isinstance(arg, ast.Name) else set()
                    want = 'past' if key == 'resolveToPast' else 'future'
                    chk.judge(src == {want}, rid, k.mod.path, construct + '[%s]' % key, '%s <- %s_resolution' % (key, '/'.join(sorted(src)) or '?'),
                              '%s is filled from %s, expected value.%s_resolution' % (key, sorted(src) or 'an unknown source', want), n.lineno)


def run(chk):
    chk.explanation = ('granularity kinds (DateOnly vs DateTime) inferred flow-sensitively inside the candidate-selection '
                       'functions; every ordering comparison between the two kinds is a violation; polarity and step of every '
                       'candidate move; dataflow of the moved candidates to future_value / past_value; emission order in the merger')
    idx = get_index()
    scoped = scoped_functions(idx)
    rule_kinds(chk, idx, scoped)
    rule_polarity(chk, idx, scoped)
    rule_order(chk, idx)
    chk.assume('a parameter annotated `datetime` (the reference) may carry a time of day; DateUtils.safe_create_* with three '
               'date arguments and datetime(y, m, d) yield midnight; DateUtils.this/next/last add whole days')
