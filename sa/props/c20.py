"""C20 - yes/no answers keep their polarity (partial: polarity wiring + regex language + who-produces).

Everything is read from the ASTs of recognizers_choice (recognizer, configuration classes, extractor, parser, model),
of recognizers_text.utilities (StringUtility.remove_unicode_matches / index_of, RegExpUtility.get_matches) and from the
evaluated resource classes (<Language>Choice.TrueRegex / FalseRegex / TokenizerRegex).  Nothing is imported or run.

 (i)    wiring chain, per registered culture and polarity:
        Resource.TrueRegex -> config.regex_true -> regexes_map[...] = SYS_BOOLEAN_TRUE -> resolutions[SYS_BOOLEAN_TRUE] = True
        (and the false mirror); the extract loop pairs every match with the type of the pattern that produced it, the
        parser looks the value up by the extracted type, the model copies value / score into the resolution; every
        registered culture is wired from its own language's resource class; only_top_match is effectively True and the
        top-match branch appends exactly one element.
 (ii)   word languages: `remove_unicode_matches` is re-stated from its AST (the two re.sub calls) and applied to the pattern;
        the languages of the listed pattern (escapes decoded) and of the pattern that is actually matched are enumerated
        (finite) and compared: every listed word and every listed single-code-point emoji must survive the rewrite, what the
        rewrite leaves over must be dead (upper-case residue under case-sensitive matching of a lower-cased query), the two
        polarities are disjoint and non-empty, words are lower-case stable, no alternative begins/ends with whitespace
        (iv: `end = start + len(text) - 1` with text = slice.strip()), separators are separators for the tokenizer.
 (iii)  who produces resolution['score']: abstract evaluation get_resolution <- parser.parse <- extractor.extract over
        constructor bindings; every producer that is a number must lie in [0, 1]; a producer that is not decided is reported
        as undecided (exempt), unless it is match_value's formula while the not-found sentinel defect is present.
 (v)    reachability of BooleanModel.get_resolution's other-results branch (attribute assignment on a dict);
        StringUtility.index_of's failure value vs. the found-guard of match_value; locals read after a swallowing try in
        ChoiceModel.parse; provenance of the reported start (match position vs. text re-search).
"""
import ast
import re

from .. import rx
from ..consteval import Resources
from ..core import AnalysisError
from ..index import Index, Mod, get_index
from ..ointerp import Bound, FuncRef, Interp, Native, PyExc, native
from ..ointerp import Obj as IObj

LEVEL = 'other'
DESIGN_REF = 'DESIGN.md#c20'
META = {
    'text': 'Partial, polarity wiring + regex language + who-produces: for every culture registered for BooleanModel the chain '
            'TrueRegex -> regex_true -> SYS_BOOLEAN_TRUE -> True (and the false mirror) through configuration, extractor map, '
            'match loop, parser table and model resolution; resource language purity; exactly one entity (only_top_match); the '
            'finite word/emoji languages of both patterns before and after remove_unicode_matches (survival of every listed '
            'word and single-code-point emoji, dead residue, disjointness, lower-case stability, no whitespace edges, tokenizer '
            'separators); every producer of resolution["score"] within [0, 1]; reachability of the crashing other-results '
            'branch and of the per-other-match path with its attribute reads; not-found sentinel vs found-guard; locals read after a '
            'swallowing try; start taken from the match position; is_emoji interpreted on every listed code point; extract interpreted '
            'as written on token configurations (<= 7 tokens) around every listed expression.',
    'note': 'Not decided: grapheme clustering (code points are used) and emoji classification beyond the listed code points (the '
            'third-party emoji table is read as data when present); which entity wins when two standalone expressions of both '
            'polarities occur (score order) - a phrase against the words embedded in it is tabulated; `x <= 1` for match_value\'s formula (loop-count argument) - reported undecided when it reaches the output; '
            'two-code-point skin-tone sequences (outside the quantifier, NotSupportedByDesign for python in the Specs); that '
            '\\b-delimited matching finds a listed word in every surrounding (L+ treats \\b as always true, so membership is a '
            'necessary condition only).',
    'technique': 'table agreement over constructor / dict wiring, finite regex-language enumeration before and after a re-stated '
                 'textual rewrite, small abstract interpreter (constructor binding, last-store-wins fields, interval arithmetic) '
                 'for who-produces, definite-assignment and sentinel/guard agreement, closed-helper tabulation with a whitelisting '
                 'interpreter (sa/ointerp.py) for is_emoji and extract',
}

SEPARATOR_POOL = [' ', '\t', ',', '.', '!', '?', ';', ':', "'", '"', '(', ')', '-']
LANGUAGE_OF_MEMBER = {'SpanishMexican': 'Spanish', 'EnglishOthers': 'English'}
SLOT_ATTR = {'regex_true': 'TrueRegex', 'regex_false': 'FalseRegex', 'token_regex': 'TokenizerRegex'}


# =====================================================================================================
# small AST helpers
# =====================================================================================================

def is_self_attr(n, attr=None):
    return isinstance(n, ast.Attribute) and isinstance(n.value, ast.Name) and n.value.id == 'self' and \
        (attr is None or n.attr == attr)


def is_static(fn):
    return any(isinstance(d, ast.Name) and d.id in ('staticmethod',) for d in fn.decorator_list)


def params_of(fn, method=True):
    a = fn.args
    names = [x.arg for x in a.posonlyargs + a.args]
    if method and not is_static(fn) and names:
        names = names[1:]
    return names


def defaults_of(fn):
    a = fn.args
    pos = a.posonlyargs + a.args
    out = {}
    for p, d in zip(pos[len(pos) - len(a.defaults):], a.defaults):
        out[p.arg] = d
    for p, d in zip(a.kwonlyargs, a.kw_defaults):
        if d is not None:
            out[p.arg] = d
    return out


def bind_args(call, fn, method=True, explicit_self=False):
    """param name -> argument expression for the arguments given at `call` (defaults not included)"""
    names = params_of(fn, method)
    args = list(call.args)
    if explicit_self and args:
        args = args[1:]
    if any(isinstance(a, ast.Starred) for a in args) or any(k.arg is None for k in call.keywords):
        raise AnalysisError('line %d: star arguments in a call the wiring rules must bind' % call.lineno)
    out = {}
    for n, a in zip(names, args):
        out[n] = a
    if len(args) > len(names):
        raise AnalysisError('line %d: more arguments than parameters of %s' % (call.lineno, fn.name))
    for k in call.keywords:
        out[k.arg] = k.value
    return out


def body_of(fn):
    b = fn.body
    if b and isinstance(b[0], ast.Expr) and isinstance(b[0].value, ast.Constant) and isinstance(b[0].value.value, str):
        return b[1:]
    return b


def walk_fn(fn):
    """nodes of fn without nested function / class bodies (lambdas are kept)"""
    stack = list(fn.body)
    while stack:
        n = stack.pop()
        yield n
        for c in ast.iter_child_nodes(n):
            if isinstance(c, (ast.FunctionDef, ast.AsyncFunctionDef, ast.ClassDef)):
                continue
            stack.append(c)


def qual(cls, fn):
    return '%s.%s' % (cls.name, fn.name) if cls is not None else fn.name


def super_init_call(st):
    """Expr(Call) that is super().__init__(...) or Base.__init__(self, ...) -> (call, base expr or None) else None"""
    if not (isinstance(st, ast.Expr) and isinstance(st.value, ast.Call)):
        return None
    c = st.value
    f = c.func
    if isinstance(f, ast.Attribute) and f.attr == '__init__':
        if isinstance(f.value, ast.Call) and isinstance(f.value.func, ast.Name) and f.value.func.id == 'super':
            return c, None
        if isinstance(f.value, (ast.Name, ast.Attribute)):
            return c, f.value
    return None


class Unres(Exception):
    pass


def const_of(idx, mod, e, env=None):
    """python constant denoted by e in module mod (literals, Class.ATTR, module constants, -x, a | b on names)"""
    if isinstance(e, ast.Constant):
        return e.value
    if isinstance(e, ast.UnaryOp) and isinstance(e.op, ast.USub):
        return -const_of(idx, mod, e.operand, env)
    if isinstance(e, ast.Name):
        if env and e.id in env:
            return env[e.id]
        r = idx.resolve(mod, e.id)
        if r and r[0] == 'const':
            return const_of(idx, r[1], r[2])
        raise Unres('name ' + e.id)
    if isinstance(e, ast.Attribute):
        c = idx.resolve_class(mod, e.value)
        if c is not None:
            k, node = idx.class_attr(c, e.attr)
            if node is not None:
                return const_of(idx, k.mod, node)
        raise Unres('attribute ' + ast.unparse(e))
    raise Unres(type(e).__name__ + ' ' + ast.unparse(e)[:40])


def mini_index(src, name='ctl'):
    """a one-module index over an embedded snippet (positive controls)"""
    ix = Index.__new__(Index)
    ix.mods, ix.by_path, ix.classes_by_name, ix.errors = {}, {}, {}, []
    m = Mod(name, '<control:%s>' % name, ast.parse(src), src)
    ix.mods[name] = m
    ix._scan(m)
    return ix, m


# =====================================================================================================
# abstract evaluator: who produces a value  (numbers as intervals, empty lists, objects with fields)
# =====================================================================================================

class Obj:
    """an object built by a constructor call; fields: name -> frozenset of values"""

    def __init__(self, cls, fields):
        self.cls = cls
        self.fields = fields

    def __repr__(self):
        return '<%s>' % self.cls.name


def v_num(lo, hi=None):
    return ('num', float(lo), float(lo if hi is None else hi))


def v_unk(where, text):
    return ('unk', where, text)


V_EMPTY = ('empty',)
V_NONE = ('none',)
INF = float('inf')


class Fctx:
    """a function being evaluated: module, class (or None), def, environment of parameter values"""

    def __init__(self, mod, cls, fn, env=None):
        self.mod, self.cls, self.fn = mod, cls, fn
        self.env = env or {}
        self.where = qual(cls, fn)


class Evaluator:
    def __init__(self, idx):
        self.idx = idx
        self.stack = []
        self.depth = 0
        self.visited = set()

    # ---- names
    def _name_defs(self, fn, name):
        out = []
        for n in walk_fn(fn):
            if isinstance(n, ast.Assign):
                for t in n.targets:
                    if isinstance(t, ast.Name) and t.id == name:
                        out.append(('assign', n.value, n))
                    elif isinstance(t, (ast.Tuple, ast.List)) and any(isinstance(x, ast.Name) and x.id == name for x in ast.walk(t)):
                        out.append(('opaque', n.value, n))
            elif isinstance(n, ast.AnnAssign) and isinstance(n.target, ast.Name) and n.target.id == name and n.value is not None:
                out.append(('assign', n.value, n))
            elif isinstance(n, ast.AugAssign) and isinstance(n.target, ast.Name) and n.target.id == name:
                out.append(('opaque', n.value, n))
            elif isinstance(n, (ast.For, ast.comprehension)) and any(
                    isinstance(x, ast.Name) and x.id == name for x in ast.walk(n.target)):
                out.append(('opaque', n.iter, n))
            elif isinstance(n, ast.NamedExpr) and n.target.id == name:
                out.append(('assign', n.value, n))
        return out

    def stores(self, fn, base):
        """(attr, value expr, unconditional, line) for `base.attr = value` in fn, in source order"""
        top = set(id(s) for s in fn.body)
        out = []
        for n in walk_fn(fn):
            tgt = None
            if isinstance(n, ast.Assign) and len(n.targets) == 1:
                tgt = n.targets[0]
            elif isinstance(n, ast.AnnAssign) and n.value is not None:
                tgt = n.target
            if isinstance(tgt, ast.Attribute) and isinstance(tgt.value, ast.Name) and tgt.value.id == base:
                out.append((tgt.attr, n.value, id(n) in top, n.lineno))
        out.sort(key=lambda s: s[3])
        return out

    @staticmethod
    def _settle(entries):
        """entries: ordered (valueset, unconditional) -> values that may be observed afterwards"""
        last = -1
        for i, (_v, u) in enumerate(entries):
            if u:
                last = i
        vals = set()
        for i, (v, _u) in enumerate(entries):
            if i >= last:
                vals |= v
        return frozenset(vals)

    # ---- objects
    def _ctor_entries(self, K, call_env_vals, init_owner, init, out):
        """append (attr, valueset, unconditional) of K's constructor chain to out; call_env_vals: param -> valueset"""
        ctx = Fctx(init_owner.mod, init_owner, init, call_env_vals)
        top = set(id(s) for s in init.body)
        for st in body_of(init):
            sc = super_init_call(st)
            if sc is not None:
                call, base = sc
                bases = [self.idx.resolve_class(init_owner.mod, base)] if base is not None else \
                    [b for b in self.idx.mro(init_owner)[1:]]
                for b in bases:
                    if b is None:
                        continue
                    bk, binit = self.idx.find_method(b, '__init__')
                    if binit is None:
                        continue
                    bound = bind_args(call, binit, True, explicit_self=base is not None)
                    env = self._bind_values(bound, binit, ctx, bk)
                    self._ctor_entries(b, env, bk, binit, out)
                    break
        for attr, val, uncond, _line in self.stores(init, 'self'):
            out.append((attr, self.eval(val, ctx), uncond))

    def _bind_values(self, bound, fn, caller_ctx, owner):
        env = {}
        dfl = defaults_of(fn)
        for p in params_of(fn, True):
            if p in bound:
                env[p] = self.eval(bound[p], caller_ctx)
            elif p in dfl:
                env[p] = self.eval(dfl[p], Fctx(owner.mod, owner, fn, {}))
            else:
                env[p] = frozenset([v_unk(qual(owner, fn), 'parameter %s not supplied' % p)])
        return env

    def make_obj(self, K, call, ctx, bound_name=None):
        kcls, init = self.idx.find_method(K, '__init__')
        entries = []
        if init is not None:
            env = self._bind_values(bind_args(call, init, True), init, ctx, kcls)
            self._ctor_entries(K, env, kcls, init, entries)
        by_attr = {}
        for attr, vals, uncond in entries:
            by_attr.setdefault(attr, []).append((vals, uncond))
        if bound_name is not None:
            for attr, val, uncond, line in self.stores(ctx.fn, bound_name):
                if line >= call.lineno:
                    by_attr.setdefault(attr, []).append((self.eval(val, ctx), uncond))
        return Obj(K, {a: self._settle(e) for a, e in by_attr.items()})

    # ---- expressions
    def eval(self, e, ctx):
        self.depth += 1
        try:
            if self.depth > 60:
                return frozenset([v_unk(ctx.where, 'evaluation too deep')])
            return frozenset(self._eval(e, ctx))
        finally:
            self.depth -= 1

    def _eval(self, e, ctx):
        idx = self.idx
        if isinstance(e, ast.Constant):
            if isinstance(e.value, bool):
                return {('const', repr(e.value))}
            if isinstance(e.value, (int, float)):
                return {v_num(e.value)}
            if e.value is None:
                return {V_NONE}
            return {('const', repr(e.value))}
        if isinstance(e, (ast.List, ast.Tuple, ast.Set, ast.Dict)):
            n = len(e.keys) if isinstance(e, ast.Dict) else len(e.elts)
            return {V_EMPTY} if n == 0 else {('nonempty', ast.unparse(e)[:60])}
        if isinstance(e, ast.ListComp):
            src = self.eval(e.generators[0].iter, ctx)
            if src and all(v == V_EMPTY for v in src):
                return {V_EMPTY}
            if src and all(v in (V_EMPTY,) or v[0] == 'nonempty' for v in src if not isinstance(v, Obj)) and \
                    not any(isinstance(v, Obj) for v in src) and not e.generators[0].ifs and len(e.generators) == 1:
                return {V_EMPTY if v == V_EMPTY else ('nonempty', 'comprehension over ' + v[1]) for v in src}
            return {v_unk(ctx.where, 'comprehension ' + ast.unparse(e)[:60])}
        if isinstance(e, ast.Name):
            if e.id in ctx.env:
                return set(ctx.env[e.id])
            defs = self._name_defs(ctx.fn, e.id)
            if not defs:
                return {v_unk(ctx.where, 'free name ' + e.id)}
            key = (id(ctx.fn), e.id)
            if key in self.stack:
                return {v_unk(ctx.where, 'loop-carried ' + e.id)}
            self.stack.append(key)
            try:
                out = set()
                for kind, val, _st in defs:
                    if kind == 'opaque':
                        out.add(v_unk(ctx.where, '%s bound by %s' % (e.id, type(_st).__name__)))
                        continue
                    K = idx.resolve_class(ctx.mod, val.func) if isinstance(val, ast.Call) else None
                    if K is not None:
                        out.add(self.make_obj(K, val, ctx, e.id))
                    else:
                        out |= self.eval(val, ctx)
                return out
            finally:
                self.stack.pop()
        if isinstance(e, ast.Attribute):
            out = set()
            for b in self.eval(e.value, ctx):
                if isinstance(b, Obj):
                    if e.attr in b.fields:
                        out |= b.fields[e.attr]
                    else:
                        out.add(v_unk(ctx.where, '%s has no stored field %s' % (b.cls.name, e.attr)))
                elif b == V_NONE:
                    continue            # None.attr raises: produces no value
                elif b[0] == 'unk':
                    out.add(v_unk(b[1], b[2] + '.' + e.attr))
                else:
                    out.add(v_unk(ctx.where, ast.unparse(e)[:60]))
            return out
        if isinstance(e, ast.IfExp):
            return self.eval(e.body, ctx) | self.eval(e.orelse, ctx)
        if isinstance(e, ast.BoolOp):
            out = set()
            for v in e.values:
                out |= self.eval(v, ctx)
            return out
        if isinstance(e, ast.UnaryOp) and isinstance(e.op, ast.USub):
            return {self._arith(ast.Sub(), v_num(0), v, ctx) for v in self.eval(e.operand, ctx)}
        if isinstance(e, ast.BinOp):
            out = set()
            for a in self.eval(e.left, ctx):
                for b in self.eval(e.right, ctx):
                    out.add(self._arith(e.op, a, b, ctx))
            return out
        if isinstance(e, ast.Call):
            return self._call(e, ctx)
        return {v_unk(ctx.where, type(e).__name__ + ' ' + ast.unparse(e)[:60])}

    def _arith(self, op, a, b, ctx):
        for x in (a, b):
            if isinstance(x, Obj) or x[0] != 'num':
                if not isinstance(x, Obj) and x[0] == 'unk':
                    return v_unk(x[1], x[2] if x[2].startswith('arithmetic over ') else 'arithmetic over ' + x[2])
                return v_unk(ctx.where, 'arithmetic over a non-number')
        (_, al, ah), (_, bl, bh) = a, b
        try:
            if isinstance(op, ast.Add):
                return v_num(al + bl, ah + bh)
            if isinstance(op, ast.Sub):
                return v_num(al - bh, ah - bl)
            if isinstance(op, ast.Mult):
                c = [al * bl, al * bh, ah * bl, ah * bh]
                if any(x != x for x in c):
                    return v_unk(ctx.where, 'unbounded product')
                return v_num(min(c), max(c))
            if isinstance(op, ast.Div):
                if bl <= 0 <= bh:
                    return v_unk(ctx.where, 'division by an interval containing 0')
                c = [al / bl, al / bh, ah / bl, ah / bh]
                return v_num(min(c), max(c))
        except (OverflowError, ZeroDivisionError):
            pass
        return v_unk(ctx.where, 'operator ' + type(op).__name__)

    def _call(self, e, ctx):
        idx = self.idx
        f = e.func
        if isinstance(f, ast.Name) and f.id in ('list', 'dict', 'set', 'tuple') and not e.args and not e.keywords:
            return {V_EMPTY}
        if isinstance(f, ast.Name) and f.id in ('max', 'min') and len(e.args) >= 2 and not e.keywords:
            sets = [self.eval(a, ctx) for a in e.args]
            out = set()
            nums = []
            for s in sets:
                for v in s:
                    if not isinstance(v, Obj) and v[0] == 'num':
                        nums.append(v)
                    elif not isinstance(v, Obj) and v[0] == 'unk':
                        out.add(v)
                    else:
                        out.add(v_unk(ctx.where, f.id + ' over a non-number'))
            # max/min of the produced numbers is one of them or lies between them: report the hull members
            out |= set(nums)
            return out
        if isinstance(f, ast.Name) and f.id == 'len':
            return {v_num(0, INF)}
        if isinstance(f, ast.Name) and f.id in ('float', 'int') and len(e.args) == 1:
            return set(self.eval(e.args[0], ctx))
        K = idx.resolve_class(ctx.mod, f) if isinstance(f, (ast.Name, ast.Attribute)) else None
        if K is not None:
            return {self.make_obj(K, e, ctx)}
        if is_self_attr(f) and ctx.cls is not None:
            k, m = idx.find_method(ctx.cls, f.attr)
            if m is not None:
                env = self._bind_values(bind_args(e, m, True), m, ctx, k)
                return self.returns(Fctx(k.mod, k, m, env))
        return {v_unk(ctx.where, 'call ' + ast.unparse(e)[:60])}

    def returns(self, fctx):
        self.visited.add(fctx.where)
        key = (id(fctx.fn), '<return>')
        if key in self.stack:
            return {v_unk(fctx.where, 'recursive call')}
        self.stack.append(key)
        try:
            out = set()
            for n in walk_fn(fctx.fn):
                if isinstance(n, ast.Return) and n.value is not None:
                    out |= self.eval(n.value, fctx)
            return out
        finally:
            self.stack.pop()


def show_val(v):
    if isinstance(v, Obj):
        return '<%s object>' % v.cls.name
    if v[0] == 'num':
        return ('%g' % v[1]) if v[1] == v[2] else '[%g, %g]' % (v[1], v[2])
    if v[0] == 'unk':
        return 'undecided(%s: %s)' % (v[1], v[2])
    if v[0] in ('const', 'nonempty'):
        return '%s(%s)' % (v[0], v[1])
    return v[0]


# =====================================================================================================
# (i) wiring: registrations, configuration slots, extractor map, parser table
# =====================================================================================================

class Reg:
    """one register_model(<boolean model>, Culture.X, lambda ...) decoded"""
    __slots__ = ('mod', 'line', 'name', 'member', 'culture', 'construct', 'model_cls', 'parser_cls', 'parser_call',
                 'extractor_cls', 'extractor_call', 'config_cls', 'config_call')


def in_mro(idx, c, name):
    return any(k.name == name for k in idx.mro(c))


def boolean_registrations(idx, rec_cls, model_base='ChoiceModel'):
    fn = rec_cls.methods.get('initialize_configuration')
    if fn is None:
        raise AnalysisError('anchor vanished: %s.initialize_configuration' % rec_cls.name)
    mod = rec_cls.mod
    out = []
    for n in walk_fn(fn):
        if not (isinstance(n, ast.Call) and is_self_attr(n.func, 'register_model')):
            continue
        a = bind_args(n, ast.parse('def register_model(self, model_type_name, culture, model_ctor): pass').body[0])
        if set(a) != {'model_type_name', 'culture', 'model_ctor'} or not isinstance(a['model_ctor'], ast.Lambda):
            raise AnalysisError('%s:%d register_model call shape not understood' % (mod.rel, n.lineno))
        body = a['model_ctor'].body
        if not isinstance(body, ast.Call):
            raise AnalysisError('%s:%d registration factory is not a constructor call' % (mod.rel, n.lineno))
        mcls = idx.resolve_class(mod, body.func)
        if mcls is None:
            raise AnalysisError('%s:%d model class %s not resolvable' % (mod.rel, n.lineno, ast.unparse(body.func)))
        if not in_mro(idx, mcls, model_base):
            continue
        r = Reg()
        r.mod, r.line, r.model_cls = mod, n.lineno, mcls
        try:
            r.name = const_of(idx, mod, a['model_type_name'])
        except Unres as e:
            raise AnalysisError('%s:%d model name not evaluable (%s)' % (mod.rel, n.lineno, e))
        ce = a['culture']
        if not (isinstance(ce, ast.Attribute) and isinstance(ce.value, ast.Name)):
            raise AnalysisError('%s:%d culture argument is not Culture.<Member>' % (mod.rel, n.lineno))
        r.member = ce.attr
        try:
            r.culture = const_of(idx, mod, ce)
        except Unres as e:
            raise AnalysisError('%s:%d culture not evaluable (%s)' % (mod.rel, n.lineno, e))
        r.construct = "register_model('%s', %s)" % (r.name, ast.unparse(ce))
        _k, minit = idx.find_method(mcls, '__init__')
        if minit is None:
            raise AnalysisError('%s: no __init__ for %s' % (mod.rel, mcls.name))
        margs = bind_args(body, minit)
        roles = model_init_roles(idx, mcls, minit)
        pe = margs.get(roles.get('parser'))
        ee = margs.get(roles.get('extractor'))
        if not (isinstance(pe, ast.Call) and isinstance(ee, ast.Call)):
            raise AnalysisError('%s:%d model constructor is not called with a parser and an extractor constructor call'
                                % (mod.rel, n.lineno))
        r.parser_call, r.extractor_call = pe, ee
        r.parser_cls = idx.resolve_class(mod, pe.func)
        r.extractor_cls = idx.resolve_class(mod, ee.func)
        if r.parser_cls is None or r.extractor_cls is None:
            raise AnalysisError('%s:%d parser / extractor class not resolvable' % (mod.rel, n.lineno))
        _k, einit = idx.find_method(r.extractor_cls, '__init__')
        eargs = bind_args(ee, einit) if einit is not None else {}
        cfg = [v for v in eargs.values() if isinstance(v, ast.Call)]
        if len(cfg) != 1:
            raise AnalysisError('%s:%d extractor is not constructed from one configuration constructor call' % (mod.rel, n.lineno))
        r.config_call = cfg[0]
        r.config_cls = idx.resolve_class(mod, cfg[0].func)
        if r.config_cls is None:
            raise AnalysisError('%s:%d configuration class %s not resolvable' % (mod.rel, n.lineno, ast.unparse(cfg[0].func)))
        out.append(r)
    return out


def model_init_roles(idx, mcls, minit):
    """which constructor parameter is stored as self.parser / self.extractor -> {'parser': p, 'extractor': q}"""
    roles = {}
    ps = set(params_of(minit))
    for st in walk_fn(minit):
        if isinstance(st, ast.Assign) and len(st.targets) == 1 and is_self_attr(st.targets[0]) and \
                st.targets[0].attr in ('parser', 'extractor') and isinstance(st.value, ast.Name) and st.value.id in ps:
            roles[st.targets[0].attr] = st.value.id
    if set(roles) != {'parser', 'extractor'} or roles['parser'] == roles['extractor']:
        raise AnalysisError('%s: %s.__init__ does not store one parameter as self.parser and another as self.extractor'
                            % (mcls.mod.rel, mcls.name))
    return roles


class Closure:
    """an expression together with the scope it must be read in"""

    def __init__(self, expr, mod, env):
        self.expr, self.mod, self.env = expr, mod, env


def strip_safe(e):
    """get_safe_reg_exp(x[, flags]) / regex.compile(x[, flags]) -> x"""
    while isinstance(e, ast.Call) and isinstance(e.func, ast.Attribute) and e.func.attr in ('get_safe_reg_exp', 'compile') \
            and e.args:
        e = e.args[0]
    return e


def config_slots(idx, cls, call, call_mod):
    """slot name -> Closure of the expression stored in self.<slot> by the configuration's constructor chain"""
    slots = {}

    def run(k, init, env, depth=0):
        if depth > 6:
            raise AnalysisError('%s: constructor chain of %s too deep' % (k.mod.rel, k.name))
        for st in body_of(init):
            sc = super_init_call(st)
            if sc is not None:
                c, base = sc
                if base is not None:
                    b = idx.resolve_class(k.mod, base)
                else:
                    b = next((x for x in idx.mro(k)[1:] if '__init__' in x.methods), None)
                if b is None:
                    continue
                bk, binit = idx.find_method(b, '__init__')
                if binit is None:
                    continue
                bound = bind_args(c, binit, True, explicit_self=base is not None)
                benv = {p: Closure(e, k.mod, env) for p, e in bound.items()}
                for p, d in defaults_of(binit).items():
                    benv.setdefault(p, Closure(d, bk.mod, {}))
                run(bk, binit, benv, depth + 1)
            elif isinstance(st, ast.Assign) and len(st.targets) == 1 and is_self_attr(st.targets[0]):
                slots[st.targets[0].attr] = Closure(st.value, k.mod, env)
            elif isinstance(st, ast.AnnAssign) and is_self_attr(st.target) and st.value is not None:
                slots[st.target.attr] = Closure(st.value, k.mod, env)
            elif isinstance(st, (ast.Pass, ast.AnnAssign)):
                continue
            else:
                raise AnalysisError('%s:%d %s.__init__: statement the wiring rule does not understand: %s'
                                    % (k.mod.rel, st.lineno, k.name, ast.unparse(st)[:60]))

    k, init = idx.find_method(cls, '__init__')
    if init is None:
        raise AnalysisError('%s: configuration %s has no __init__' % (cls.mod.rel, cls.name))
    bound = bind_args(call, init)
    env = {p: Closure(e, call_mod, {}) for p, e in bound.items()}
    for p, d in defaults_of(init).items():
        env.setdefault(p, Closure(d, k.mod, {}))
    run(k, init, env)
    return slots


def chase(idx, clo, depth=0):
    """follow parameter bindings and safe-regexp wrappers: -> ('res', Cls, attr) | ('const', value) | ('other', text)"""
    e = strip_safe(clo.expr)
    if depth > 10:
        return ('other', ast.unparse(e)[:60])
    if isinstance(e, ast.Name) and e.id in clo.env:
        return chase(idx, clo.env[e.id], depth + 1)
    if isinstance(e, ast.Attribute) and isinstance(e.value, ast.Name):
        c = idx.resolve_class(clo.mod, e.value)
        if c is not None:
            return ('res', c, e.attr)
    try:
        return ('const', const_of(idx, clo.mod, e))
    except Unres:
        return ('other', ast.unparse(e)[:60])


def dict_flow(fn, e, line_limit=None, _depth=0):
    """ordered (key expr, value expr) pairs of the dict denoted by e inside fn: literals, name = {...}, name.update(x), name[k] = v"""
    if _depth > 5:
        return None
    if isinstance(e, ast.Dict):
        if any(k is None for k in e.keys):
            return None
        return list(zip(e.keys, e.values))
    if isinstance(e, ast.Call) and isinstance(e.func, ast.Name) and e.func.id == 'dict' and not e.args and not e.keywords:
        return []
    if not isinstance(e, ast.Name):
        return None
    events = []
    for n in walk_fn(fn):
        if isinstance(n, (ast.Assign, ast.AnnAssign)):
            tgts = n.targets if isinstance(n, ast.Assign) else [n.target]
            for t in tgts:
                if isinstance(t, ast.Name) and t.id == e.id and n.value is not None:
                    events.append((n.lineno, 'set', n.value))
                elif isinstance(t, ast.Subscript) and isinstance(t.value, ast.Name) and t.value.id == e.id:
                    events.append((n.lineno, 'item', (t.slice, n.value)))
        elif isinstance(n, ast.Call) and isinstance(n.func, ast.Attribute) and isinstance(n.func.value, ast.Name) \
                and n.func.value.id == e.id:
            if n.func.attr == 'update' and len(n.args) == 1 and not n.keywords:
                events.append((n.lineno, 'update', n.args[0]))
            elif n.func.attr in ('pop', 'clear', 'popitem', 'setdefault', 'update', '__setitem__'):
                return None
    if not any(k == 'set' for _l, k, _v in events):
        return None
    events.sort(key=lambda x: x[0])
    pairs = []
    for _l, kind, v in events:
        if kind == 'set':
            got = dict_flow(fn, v, None, _depth + 1) if not (isinstance(v, ast.Name) and v.id == e.id) else None
            if got is None:
                return None
            pairs = list(got)
        elif kind == 'update':
            got = dict_flow(fn, v, None, _depth + 1)
            if got is None:
                return None
            pairs += got
        else:
            pairs.append(v)
    return pairs


def option_stores(idx, cls, init):
    """BooleanExtractor.__init__: the options object handed to the base constructor and what is stored on it:
    -> (options name, {attr: value expr}, config parameter name)"""
    handed = None
    for st in walk_fn(init):
        sc = super_init_call(st) if isinstance(st, ast.Expr) else None
        if sc is not None:
            c, base = sc
            args = c.args[1:] if base is not None else c.args
            args = list(args) + [k.value for k in c.keywords]
            if len(args) == 1 and isinstance(args[0], ast.Name):
                handed = args[0].id
    if handed is None:
        raise AnalysisError('%s: %s.__init__ does not hand one options object to its base constructor' % (cls.mod.rel, cls.name))
    stores = {}
    for st in walk_fn(init):
        if isinstance(st, ast.Assign) and len(st.targets) == 1 and isinstance(st.targets[0], ast.Attribute) and \
                isinstance(st.targets[0].value, ast.Name) and st.targets[0].value.id == handed:
            stores[st.targets[0].attr] = st.value
    ps = params_of(init)
    if len(ps) < 1:
        raise AnalysisError('%s: %s.__init__ takes no configuration' % (cls.mod.rel, cls.name))
    return handed, stores, ps[0]


def extractor_map(idx, ecls):
    """-> (init owner, init, [(slot, type constant)] in insertion order with later duplicates overriding, option stores, cfg param)"""
    k, init = idx.find_method(ecls, '__init__')
    if init is None or k.name == 'ChoiceExtractor':
        raise AnalysisError('%s: %s has no __init__ building the regexes map' % (ecls.mod.rel, ecls.name))
    _handed, stores, cfgp = option_stores(idx, k, init)
    if 'regexes_map' not in stores:
        raise AnalysisError('%s: %s.__init__ does not store regexes_map on the options object' % (k.mod.rel, k.name))
    pairs = dict_flow(init, stores['regexes_map'])
    if pairs is None:
        raise AnalysisError('%s:%d %s.__init__: construction of regexes_map not understood' % (k.mod.rel, init.lineno, k.name))
    out = []
    for ke, ve in pairs:
        if not (isinstance(ke, ast.Attribute) and isinstance(ke.value, ast.Name) and ke.value.id == cfgp):
            raise AnalysisError('%s:%d regexes_map key %s is not a slot of the configuration parameter'
                                % (k.mod.rel, ke.lineno, ast.unparse(ke)))
        try:
            tv = const_of(idx, k.mod, ve)
        except Unres as e:
            raise AnalysisError('%s:%d regexes_map value not evaluable (%s)' % (k.mod.rel, ve.lineno, e))
        out.append((ke.attr, tv, ve.lineno))
    return k, init, out, stores, cfgp


def parser_table(idx, pcls):
    """-> (owner, init, {type constant: value}, [(key, value, line)])"""
    k, init = idx.find_method(pcls, '__init__')
    if init is None:
        raise AnalysisError('%s: %s has no __init__' % (pcls.mod.rel, pcls.name))
    target = None
    for st in walk_fn(init):
        if isinstance(st, ast.Assign) and len(st.targets) == 1 and isinstance(st.targets[0], ast.Attribute) \
                and st.targets[0].attr == 'resolutions':
            target = st.value
    if target is None:
        raise AnalysisError('%s: %s.__init__ does not store a resolutions table' % (k.mod.rel, k.name))
    pairs = dict_flow(init, target)
    if pairs is None:
        raise AnalysisError('%s:%d %s.__init__: construction of the resolutions table not understood' % (k.mod.rel, init.lineno, k.name))
    out = []
    for ke, ve in pairs:
        try:
            out.append((const_of(idx, k.mod, ke), const_of(idx, k.mod, ve), ke.lineno))
        except Unres as e:
            raise AnalysisError('%s:%d resolutions entry not evaluable (%s)' % (k.mod.rel, ke.lineno, e))
    return k, init, out


# =====================================================================================================
# structural detectors on extract / parse / get_resolution / index_of  (each returns findings:
# (ok, what, detail, message, line); AnalysisError when the shape cannot be classified)
# =====================================================================================================

def _attr_chain(e):
    parts = []
    while isinstance(e, ast.Attribute):
        parts.append(e.attr)
        e = e.value
    if isinstance(e, ast.Name):
        parts.append(e.id)
        return list(reversed(parts))
    return None


REWRITE_NAME = 'remove_unicode_matches'


def _unwrap_rewrite(e):
    """X.remove_unicode_matches(E) -> (E, True); E -> (E, False)"""
    if isinstance(e, ast.Call) and isinstance(e.func, ast.Attribute) and e.func.attr == REWRITE_NAME and len(e.args) == 1 \
            and not e.keywords:
        return e.args[0], True
    return e, False


def matching_calls(scope):
    """calls that produce the matches inside `scope`:
    X.get_matches(pattern, text) | regex.finditer(pattern, text[, flags]) | pattern.finditer(text)
    -> list of dict(kind, call, pattern expr (rewrite unwrapped), rewritten, text expr, ci)"""
    out = []
    for c in ast.walk(scope):
        if not (isinstance(c, ast.Call) and isinstance(c.func, ast.Attribute)):
            continue
        if c.func.attr == 'get_matches':
            if len(c.args) < 2:
                raise AnalysisError('line %d: get_matches call shape not understood' % c.lineno)
            out.append({'kind': 'get_matches', 'call': c, 'pattern': c.args[0], 'rewritten': None, 'text': c.args[1], 'ci': None})
        elif c.func.attr == 'finditer':
            recv = c.func.value
            if isinstance(recv, ast.Name) and recv.id in ('regex', 're'):
                if len(c.args) < 2:
                    raise AnalysisError('line %d: finditer call shape not understood' % c.lineno)
                pe, text, extra = c.args[0], c.args[1], list(c.args[2:])
            else:
                if len(c.args) < 1:
                    raise AnalysisError('line %d: finditer call shape not understood' % c.lineno)
                pe, text, extra = recv, c.args[0], []
            flags = extra + [k.value for k in c.keywords if k.arg == 'flags']
            ci = any(isinstance(x, ast.Attribute) and x.attr in ('I', 'IGNORECASE') for f in flags for x in ast.walk(f))
            pe, rewritten = _unwrap_rewrite(pe)
            if not rewritten:
                # the compiled pattern itself is matched: it carries get_safe_reg_exp's flags (IGNORECASE by default)
                ci = True
            out.append({'kind': 'finditer', 'call': c, 'pattern': pe, 'rewritten': rewritten, 'text': text, 'ci': ci})
    return out


def det_extract_typing(fn, where):
    """the match loop pairs every match with the type of the pattern that produced it"""
    out = []
    loops = []
    for n in walk_fn(fn):
        if isinstance(n, ast.For) and isinstance(n.iter, ast.Call) and isinstance(n.iter.func, ast.Attribute) \
                and n.iter.func.attr == 'items' and (_attr_chain(n.iter.func.value) or [''])[-1] == 'regexes_map':
            loops.append(n)
    if not loops:
        raise AnalysisError('%s: no loop over regexes_map.items() (match loop not recognised)' % where)
    info = {'matching': None, 'match_vars': set()}
    for lp in loops:
        t = lp.target
        if not (isinstance(t, ast.Tuple) and len(t.elts) == 2 and all(isinstance(x, ast.Name) for x in t.elts)):
            raise AnalysisError('%s:%d loop target over regexes_map.items() is not (pattern, type)' % (where, lp.lineno))
        pat, typ = t.elts[0].id, t.elts[1].id
        calls = matching_calls(lp)
        if not calls:
            raise AnalysisError('%s:%d no get_matches / finditer call in the match loop' % (where, lp.lineno))
        if len(calls) > 1:
            raise AnalysisError('%s:%d several matching calls in the match loop' % (where, lp.lineno))
        for mc in calls:
            c = mc['call']
            good = isinstance(mc['pattern'], ast.Name) and mc['pattern'].id == pat
            out.append((good, 'matches', '%s(%s, ...) in loop (pattern=%s, type=%s)'
                        % (mc['kind'], '<paired pattern>' if good else ast.unparse(mc['pattern'])[:40], pat if not good else 'arg0', typ),
                        'the matches are not those of the pattern the type is paired with', c.lineno))
            info['matching'] = mc
            holders = set()
            for n in ast.walk(lp):       # names the matches are bound to before being iterated
                if isinstance(n, ast.Assign) and any(x is c for x in ast.walk(n.value)):
                    holders |= {t_.id for t_ in n.targets if isinstance(t_, ast.Name)}
            for n in ast.walk(lp):
                if isinstance(n, ast.For) and isinstance(n.target, ast.Name) and (
                        any(x is c for x in ast.walk(n.iter)) or (isinstance(n.iter, ast.Name) and n.iter.id in holders)):
                    info['match_vars'].add(n.target.id)
        stores = [s_ for s_ in ast.walk(lp) if isinstance(s_, ast.Assign) and len(s_.targets) == 1
                  and isinstance(s_.targets[0], ast.Attribute) and s_.targets[0].attr == 'type']
        if not stores:
            raise AnalysisError('%s:%d the match loop stores no .type' % (where, lp.lineno))
        for s_ in stores:
            good = isinstance(s_.value, ast.Name) and s_.value.id == typ
            out.append((good, 'type', '.type = %s' % ('<paired type>' if good else ast.unparse(s_.value)),
                        'the extracted type is not the one paired with the matching pattern', s_.lineno))
    return out, info


def det_lowered(fn, text_expr):
    """is the text that is matched a lower-cased copy of the query? -> bool"""
    if text_expr is None:
        return False
    a = text_expr

    def lowering(e):
        return isinstance(e, ast.Call) and isinstance(e.func, ast.Attribute) and 'lower' in e.func.attr.lower()
    if lowering(a):
        return True
    if isinstance(a, ast.Name):
        defs = [n.value for n in walk_fn(fn) if isinstance(n, ast.Assign) and any(
            isinstance(t, ast.Name) and t.id == a.id for t in n.targets)]
        return bool(defs) and all(lowering(d) for d in defs)
    return False


def det_single(fn, where):
    """the only_top_match branch yields exactly one element"""
    def empty_list(v):
        return (isinstance(v, (ast.List, ast.Tuple)) and not v.elts) or \
            (isinstance(v, ast.Call) and isinstance(v.func, ast.Name) and v.func.id == 'list' and not v.args)
    rets = [n for n in walk_fn(fn) if isinstance(n, ast.Return) and n.value is not None and not empty_list(n.value)]
    names = {n.value.id for n in rets if isinstance(n.value, ast.Name)}
    if len(names) != 1 or any(not isinstance(n.value, ast.Name) for n in rets):
        raise AnalysisError('%s: extract does not return one result list by name' % where)
    res = names.pop()
    branch = None
    for n in walk_fn(fn):
        if isinstance(n, ast.If) and any(isinstance(x, ast.Attribute) and x.attr == 'only_top_match' for x in ast.walk(n.test)):
            if isinstance(n.test, ast.UnaryOp):
                raise AnalysisError('%s:%d negated only_top_match test not understood' % (where, n.lineno))
            branch = n
    if branch is None:
        raise AnalysisError('%s: no branch on only_top_match' % where)
    inside = set()
    for s in branch.body:
        for x in ast.walk(s):
            inside.add(id(x))
    other = set()
    for s in branch.orelse:
        for x in ast.walk(s):
            other.add(id(x))
    loops_in = []
    for s in branch.body:
        for x in ast.walk(s):
            if isinstance(x, (ast.For, ast.While, ast.ListComp, ast.GeneratorExp)):
                loops_in.append(set(id(y) for y in ast.walk(x)))
    writes_branch, problems = [], []
    for n in walk_fn(fn):
        w = None
        if isinstance(n, (ast.Assign, ast.AnnAssign, ast.AugAssign)):
            tgts = n.targets if isinstance(n, ast.Assign) else [n.target]
            if any(isinstance(t, ast.Name) and t.id == res for t in tgts):
                v = n.value
                empty = isinstance(n, (ast.Assign, ast.AnnAssign)) and v is not None and (
                    (isinstance(v, (ast.List, ast.Tuple)) and not v.elts) or
                    (isinstance(v, ast.Call) and isinstance(v.func, ast.Name) and v.func.id == 'list' and not v.args))
                w = ('empty' if empty else 'rebind', n)
        elif isinstance(n, ast.Call) and isinstance(n.func, ast.Attribute) and isinstance(n.func.value, ast.Name) \
                and n.func.value.id == res and n.func.attr in ('append', 'extend', 'insert', '__iadd__'):
            w = (n.func.attr, n)
        if w is None:
            continue
        kind, node = w
        if id(node) in other:
            continue
        if id(node) in inside:
            looped = any(id(node) in L for L in loops_in)
            writes_branch.append((kind, looped, node))
        elif kind != 'empty' and node.lineno < branch.lineno:
            problems.append((kind, node))
    out = []
    appends = [w for w in writes_branch if w[0] in ('append', 'insert') and not w[1]]
    bad_w = [w for w in writes_branch if not (w[0] in ('append', 'insert') and not w[1]) and w[0] != 'empty']
    good = len(appends) == 1 and not bad_w and not problems
    detail = 'top-match branch writes: %s; earlier writes: %s' % (
        sorted('%s%s' % (k, ' in loop' if lp else '') for k, lp, _n in writes_branch), sorted(k for k, _n in problems))
    out.append((good, 'top-match branch', detail,
                'with only_top_match the result list does not receive exactly one element', branch.lineno))
    return out


def det_span_source(fn, where, match_vars=()):
    """the reported start is the position of the loop's match object, not a re-search of the matched text"""
    out = []

    def from_match(e):
        return isinstance(e, ast.Name) and e.id in match_vars
    stores = [s for s in walk_fn(fn) if isinstance(s, ast.Assign) and len(s.targets) == 1
              and isinstance(s.targets[0], ast.Attribute) and s.targets[0].attr == 'start']
    if not stores:
        raise AnalysisError('%s: no .start store in extract' % where)

    def classify(e, depth=0):
        if depth > 4:
            return None
        if isinstance(e, ast.Name):
            defs = [n.value for n in walk_fn(fn) if isinstance(n, ast.Assign) and any(
                isinstance(t, ast.Name) and t.id == e.id for t in n.targets)]
            kinds = {classify(d, depth + 1) for d in defs}
            if len(kinds) == 1:
                return kinds.pop()
            return None
        if isinstance(e, ast.Call) and isinstance(e.func, ast.Attribute):
            if e.func.attr in ('index', 'find') and e.args:
                return 'research'
            if e.func.attr in ('start', 'span') and len(e.args) <= 1 and from_match(e.func.value):
                return 'position'
        if isinstance(e, ast.Subscript):
            return classify(e.value, depth + 1)
        if isinstance(e, ast.BinOp):
            kinds = {classify(e.left, depth + 1), classify(e.right, depth + 1)} - {None}
            if len(kinds) == 1:
                return kinds.pop()
        return None
    for s in stores:
        k = classify(s.value)
        if k is None:
            raise AnalysisError('%s:%d provenance of .start (%s) not recognised' % (where, s.lineno, ast.unparse(s.value)[:50]))
        out.append((k == 'position', 'start', 'start <- %s' % ('match position' if k == 'position' else 'text re-search (str.index / find of the matched text)'),
                    'start is the first occurrence of the matched text in the query, which may lie inside another word '
                    '(\\b-delimited match found elsewhere)', s.lineno))
    return out


def sentinel_values(fn, where):
    """constants index_of returns when the token is not found -> list of numbers"""
    consts = {}
    for n in walk_fn(fn):
        if isinstance(n, ast.Assign) and len(n.targets) == 1 and isinstance(n.targets[0], ast.Name):
            consts.setdefault(n.targets[0].id, []).append(n.value)
    tries = [n for n in walk_fn(fn) if isinstance(n, ast.Try)]
    vals = []

    def num(e):
        if isinstance(e, ast.UnaryOp) and isinstance(e.op, ast.USub) and isinstance(e.operand, ast.Constant):
            return -e.operand.value
        if isinstance(e, ast.Constant) and isinstance(e.value, (int, float)) and not isinstance(e.value, bool):
            return e.value
        return None
    if tries:
        for t in tries:
            for h in t.handlers:
                for st in ast.walk(h):
                    if isinstance(st, ast.Return) and st.value is not None and num(st.value) is not None:
                        vals.append((num(st.value), st.lineno))
                    elif isinstance(st, ast.Assign) and num(st.value) is not None:
                        vals.append((num(st.value), st.lineno))
    else:
        for st in walk_fn(fn):
            if isinstance(st, ast.Return) and st.value is not None and num(st.value) is not None:
                vals.append((num(st.value), st.lineno))
    if not vals:
        raise AnalysisError('%s: not-found value of index_of not recognised' % where)
    return sorted(set(vals))


def compare_holds(test, name, value):
    """truth of a Compare over one local name and numeric literals with name := value (nothing is executed)"""
    def term(e):
        if isinstance(e, ast.Name) and e.id == name:
            return value
        if isinstance(e, ast.Constant) and isinstance(e.value, (int, float)):
            return e.value
        if isinstance(e, ast.UnaryOp) and isinstance(e.op, ast.USub):
            return -term(e.operand)
        raise AnalysisError('line %d: guard term not understood: %s' % (e.lineno, ast.unparse(e)))
    ops = {ast.Gt: lambda a, b: a > b, ast.GtE: lambda a, b: a >= b, ast.Lt: lambda a, b: a < b, ast.LtE: lambda a, b: a <= b,
           ast.Eq: lambda a, b: a == b, ast.NotEq: lambda a, b: a != b}
    left = term(test.left)
    for op, right in zip(test.ops, test.comparators):
        if type(op) not in ops:
            raise AnalysisError('line %d: guard operator not understood' % test.lineno)
        r = term(right)
        if not ops[type(op)](left, r):
            return False
        left = r
    return True


def det_sentinel(index_fn, iwhere, match_fn, mwhere):
    """the not-found value must fail the found-guard at the call site"""
    vals = sentinel_values(index_fn, iwhere)
    pos = None
    for n in walk_fn(match_fn):
        if isinstance(n, ast.Assign) and len(n.targets) == 1 and isinstance(n.targets[0], ast.Name) and \
                isinstance(n.value, ast.Call) and isinstance(n.value.func, ast.Attribute) and n.value.func.attr == index_fn.name:
            pos = n.targets[0].id
    if pos is None:
        raise AnalysisError('%s: result of %s is not bound to a local' % (mwhere, index_fn.name))
    guards = [n for n in walk_fn(match_fn) if isinstance(n, ast.If) and isinstance(n.test, ast.Compare)
              and any(isinstance(x, ast.Name) and x.id == pos for x in ast.walk(n.test))
              and all(isinstance(x, (ast.Name, ast.Constant, ast.Compare, ast.UnaryOp, ast.USub, ast.cmpop, ast.Load))
                      for x in ast.walk(n.test))
              and {x.id for x in ast.walk(n.test) if isinstance(x, ast.Name)} == {pos}]
    if not guards:
        raise AnalysisError('%s: no found-guard on %s' % (mwhere, pos))
    g = guards[0]
    out = []
    for v, vline in vals:
        passed = compare_holds(g.test, pos, v)
        out.append((not passed, 'not-found value', 'index_of not-found value %r; guard `%s` %s'
                    % (v, ast.unparse(g.test).replace(pos, 'pos'), 'passes' if passed else 'fails'),
                    'a token that is not found is counted as found at position %r: distances become negative, the score can '
                    'exceed 1 and matched + total_deviation can be 0 (ZeroDivisionError)' % v, vline))
    return out


def det_unbound(fn, where):
    """locals assigned only inside a try whose handlers swallow, read after it -> [(name, line)]"""
    out = []
    body = fn.body
    for i, st in enumerate(body):
        if not isinstance(st, ast.Try):
            continue
        swallow = bool(st.handlers) and all(
            not any(isinstance(x, (ast.Raise, ast.Return)) for h2 in [h] for s in h.body for x in ast.walk(s))
            for h in st.handlers)
        if not swallow:
            continue
        assigned_in = set()
        for s in st.body:
            for x in ast.walk(s):
                if isinstance(x, ast.Name) and isinstance(x.ctx, ast.Store):
                    assigned_in.add(x.id)
        comp_locals = set()
        for s in st.body:
            for x in ast.walk(s):
                if isinstance(x, ast.comprehension):
                    comp_locals |= {y.id for y in ast.walk(x.target) if isinstance(y, ast.Name)}
        assigned_in -= comp_locals
        before = set(a.arg for a in fn.args.args)
        for s in body[:i]:
            if isinstance(s, (ast.Assign, ast.AnnAssign, ast.AugAssign)):
                for x in ast.walk(s):
                    if isinstance(x, ast.Name) and isinstance(x.ctx, ast.Store):
                        before.add(x.id)
        in_handlers = None
        for h in st.handlers:
            hs = {x.id for s in h.body for x in ast.walk(s) if isinstance(x, ast.Name) and isinstance(x.ctx, ast.Store)}
            in_handlers = hs if in_handlers is None else in_handlers & hs
        read_after = {}
        for s in body[i + 1:]:
            for x in ast.walk(s):
                if isinstance(x, ast.Name) and isinstance(x.ctx, ast.Load) and x.id not in read_after:
                    read_after[x.id] = x.lineno
        for name in sorted(assigned_in):
            if name in read_after:
                safe = name in before or name in (in_handlers or set())
                out.append((safe, name, read_after[name]))
    return out


# =====================================================================================================
# (ii) word languages: the rewrite of remove_unicode_matches re-stated, get_matches' matching mode, languages
# =====================================================================================================

def matching_mode(fn, where, rewrite_name='remove_unicode_matches'):
    """RegExpUtility.get_matches -> {'rewritten': bool, 'ci': bool}: is the pattern rewritten, is matching case-insensitive"""
    ps = params_of(fn, True)
    calls = [n for n in walk_fn(fn) if isinstance(n, ast.Call) and isinstance(n.func, ast.Attribute)
             and n.func.attr in ('finditer', 'findall', 'search', 'match')]
    if len(calls) != 1:
        raise AnalysisError('%s: expected exactly one matching call in get_matches' % where)
    c = calls[0]
    recv = c.func.value
    if isinstance(recv, ast.Name) and recv.id in ('regex', 're'):
        if not c.args:
            raise AnalysisError('%s: matching call without a pattern' % where)
        pat, extra = c.args[0], c.args[2:]
        module_level = True
    else:
        pat, extra, module_level = recv, [], False
    flags = list(extra) + [k.value for k in c.keywords if k.arg == 'flags']
    ci = any(isinstance(x, ast.Attribute) and x.attr in ('I', 'IGNORECASE') for f in flags for x in ast.walk(f))
    rewritten = None
    if isinstance(pat, ast.Name) and pat.id == ps[0]:
        rewritten = False
    elif isinstance(pat, ast.Name):
        defs = [n.value for n in walk_fn(fn) if isinstance(n, ast.Assign) and any(
            isinstance(t, ast.Name) and t.id == pat.id for t in n.targets)]
        if len(defs) == 1 and isinstance(defs[0], ast.Call) and isinstance(defs[0].func, ast.Attribute) and \
                defs[0].func.attr == rewrite_name and len(defs[0].args) == 1 and isinstance(defs[0].args[0], ast.Name) \
                and defs[0].args[0].id == ps[0]:
            rewritten = True
    elif isinstance(pat, ast.Call) and isinstance(pat.func, ast.Attribute) and pat.func.attr == rewrite_name and \
            len(pat.args) == 1 and isinstance(pat.args[0], ast.Name) and pat.args[0].id == ps[0]:
        rewritten = True
    if rewritten is None:
        raise AnalysisError('%s:%d pattern handed to %s not understood' % (where, c.lineno, c.func.attr))
    if not rewritten:
        ci = True       # the compiled pattern carries get_safe_reg_exp's flags (IGNORECASE by default)
    return {'rewritten': rewritten, 'ci': ci, 'line': c.lineno}


_PAIR = re.compile(r'\\u([dD][89abAB][0-9a-fA-F]{2})\\u([dD][c-fC-F][0-9a-fA-F]{2})')
_LONG = re.compile(r'\\u(000[0-9a-fA-F]|0010)([0-9a-fA-F]{4})')


def decode_listed(pattern):
    """the resource's escapes as the code points they denote: surrogate pairs combined, the 8-digit \\u000HHHHH spelling
    (written for the python rewrite) as one code point; BMP \\uHHHH is left to the regex reader"""
    def pair(m):
        hi, lo = int(m.group(1), 16), int(m.group(2), 16)
        return chr(0x10000 + ((hi - 0xD800) << 10) + (lo - 0xDC00))

    def long_(m):
        v = int(m.group(1) + m.group(2), 16)
        return chr(v) if 0x10000 <= v <= 0x10FFFF else m.group(0)
    return _LONG.sub(long_, _PAIR.sub(pair, pattern))


def normalise_escapes(text):
    """\\UXXXXXXXX and \\uXXXX escapes as the characters they denote (lone surrogates are kept as escapes)"""
    def rep(m):
        v = int(m.group(1) or m.group(2), 16)
        if v > 0x10FFFF or 0xD800 <= v <= 0xDFFF:
            return m.group(0)
        return chr(v)
    return re.sub(r'\\U([0-9a-fA-F]{8})|\\u([0-9a-fA-F]{4})', rep, text)


def escape_differences(expected, got):
    """both normalised: -> list of 'U+XXXX comes out as U+YYYY' / structural difference"""
    ea = [ch for ch in expected if ord(ch) > 0x7F]
    ga = [ch for ch in got if ord(ch) > 0x7F]
    skeleton = (re.sub(r'[^\x00-\x7f]', '#', expected), re.sub(r'[^\x00-\x7f]', '#', got))
    if skeleton[0] != skeleton[1] or len(ea) != len(ga):
        return ['the text around the escapes changes: expected %s, rewritten %s' % (ascii(expected)[:120], ascii(got)[:120])]
    return sorted({'U+%04X comes out as U+%04X' % (ord(a), ord(b)) for a, b in zip(ea, ga) if a != b})


def escapes_wellformed(pattern):
    """every \\U is followed by 8 hex digits denoting a code point, every \\u by 4 -> None or a complaint"""
    i = 0
    while i < len(pattern):
        if pattern[i] == '\\' and i + 1 < len(pattern):
            c = pattern[i + 1]
            if c in 'uU':
                n = 8 if c == 'U' else 4
                h = pattern[i + 2:i + 2 + n]
                if len(h) != n or any(ch not in '0123456789abcdefABCDEF' for ch in h) or int(h, 16) > 0x10FFFF:
                    return 'escape %s at offset %d is not followed by %d hex digits of a code point' % (pattern[i:i + 2 + n], i, n)
                i += 2 + n
                continue
            i += 2
            continue
        i += 1
    return None


def language(pattern, what):
    try:
        t = rx.parse(pattern)
        lang = rx.enumerate_language(t, limit=20000)
    except (rx.RxError, ValueError, IndexError) as e:
        raise AnalysisError('%s: pattern not analysable as a finite language (%s)' % (what, e))
    flags = any(n.kind == 'flags' for n in rx.walk(t))
    return t, lang, flags


def is_surrogate(ch):
    return 0xD800 <= ord(ch) <= 0xDFFF


def is_emoji_word(w):
    return len(w) >= 1 and all(ord(ch) > 0x7F and not ch.isalnum() and not ch.isspace() for ch in w)


def cased_up(w):
    """has a character the query lower-casing removes (so a case-sensitive pattern containing it is dead)"""
    return any(len(ch.lower()) == 1 and ch.lower() != ch for ch in w)


def analyse_polarity(pattern, rewrite, mode):
    """-> dict with listed / matched languages partitioned"""
    listed_src = decode_listed(pattern)
    _t, listed, _f = language(listed_src, 'listed pattern')
    listed.discard('')
    if mode['rewritten']:
        py_src = rewrite(pattern)
    else:
        py_src = pattern
    res = {'listed_src': listed_src, 'py_src': py_src, 'compile': escapes_wellformed(py_src)}
    if res['compile']:
        res.update(listed=listed, py=set(), live=set(), dead=set(), ci=mode['ci'])
        return res
    _t, py, inline_flags = language(py_src, 'matched pattern')
    had_empty = '' in py
    py.discard('')
    ci = mode['ci'] or inline_flags
    norm = (lambda w: w.lower()) if ci else (lambda w: w)
    live, dead = set(), set()
    for w in py:
        if any(is_surrogate(ch) for ch in w) or (not ci and cased_up(w)):
            dead.add(w)
        else:
            live.add(norm(w))
    res.update(listed=listed, py=py, live=live, dead=dead, ci=ci, matches_empty=had_empty)
    return res


def det_parse_value(fn, where):
    """the parser looks the value up by the extracted type"""
    ps = params_of(fn)
    if not ps:
        raise AnalysisError('%s: parse takes no extract result' % where)
    p = ps[0]
    stores = [s for s in walk_fn(fn) if isinstance(s, ast.Assign) and len(s.targets) == 1
              and isinstance(s.targets[0], ast.Attribute) and s.targets[0].attr == 'value']
    if not stores:
        raise AnalysisError('%s: parse stores no .value' % where)
    copies = set()
    for n in walk_fn(fn):
        if isinstance(n, ast.Assign) and len(n.targets) == 1 and isinstance(n.targets[0], ast.Name) and \
                isinstance(n.value, ast.Call) and n.value.args and isinstance(n.value.args[0], ast.Name) and n.value.args[0].id == p:
            copies.add(n.targets[0].id)
    out = []
    for s in stores:
        v = s.value
        key = None
        if isinstance(v, ast.Call) and isinstance(v.func, ast.Attribute) and v.func.attr == 'get' and v.args and \
                (_attr_chain(v.func.value) or [''])[-1] == 'resolutions':
            key = v.args[0]
        elif isinstance(v, ast.Subscript) and (_attr_chain(v.value) or [''])[-1] == 'resolutions':
            key = v.slice
        if key is None:
            raise AnalysisError('%s:%d value is not looked up in the resolutions table' % (where, s.lineno))
        good = isinstance(key, ast.Attribute) and key.attr == 'type' and isinstance(key.value, ast.Name) and \
            (key.value.id == p or key.value.id in copies)
        out.append((good, 'value', 'value <- resolutions[%s]' % ('<extracted>.type' if good else ast.unparse(key)),
                    'the value is looked up by something other than the extracted type', s.lineno))
    return out


def resolution_dict(fn, where):
    """the dict get_resolution returns -> (param, {key: value expr}, dict name or None)"""
    ps = params_of(fn)
    if not ps:
        raise AnalysisError('%s: get_resolution takes no parse result' % where)
    rets = [n for n in walk_fn(fn) if isinstance(n, ast.Return) and n.value is not None]
    if len(rets) != 1:
        raise AnalysisError('%s: expected one return' % where)
    v = rets[0].value
    name = None
    if isinstance(v, ast.Name):
        name = v.id
        defs = [n.value for n in walk_fn(fn) if isinstance(n, ast.Assign) and any(
            isinstance(t, ast.Name) and t.id == name for t in n.targets)]
        if len(defs) != 1:
            raise AnalysisError('%s: returned name is not bound once' % where)
        v = defs[0]
    if not isinstance(v, ast.Dict) or any(not (isinstance(k, ast.Constant) and isinstance(k.value, str)) for k in v.keys):
        raise AnalysisError('%s: the resolution is not a dict literal with constant keys' % where)
    d = {k.value: val for k, val in zip(v.keys, v.values)}
    for n in walk_fn(fn):      # later item stores overwrite
        if isinstance(n, ast.Assign) and len(n.targets) == 1 and isinstance(n.targets[0], ast.Subscript) and \
                isinstance(n.targets[0].value, ast.Name) and n.targets[0].value.id == name and \
                isinstance(n.targets[0].slice, ast.Constant):
            d[n.targets[0].slice.value] = n.value
    return ps[0], d, name


def resolution_sites(fn):
    """names o with `<x>.resolution = self.get_resolution(o)` in fn"""
    out = []
    for n in walk_fn(fn):
        if isinstance(n, ast.Assign) and len(n.targets) == 1 and isinstance(n.targets[0], ast.Attribute) and \
                n.targets[0].attr == 'resolution' and isinstance(n.value, ast.Call) and is_self_attr(n.value.func, 'get_resolution') \
                and len(n.value.args) == 1 and not n.value.keywords and isinstance(n.value.args[0], ast.Name):
            out.append(n.value.args[0].id)
    return out


def iterated_from(fn, name):
    """Name X such that `name` is the target of `for name in X` or of a comprehension generator over X (exactly one) else None"""
    srcs = []
    for n in walk_fn(fn):
        if isinstance(n, (ast.For, ast.comprehension)) and isinstance(n.target, ast.Name) and n.target.id == name:
            srcs.append(n.iter)
    if len(srcs) == 1 and isinstance(srcs[0], ast.Name):
        return srcs[0].id
    return None


def model_parse_chain(idx, cls, fn, where):
    """ChoiceModel.parse: resolution <- get_resolution(o), o in [parser.parse(e) for e in extractor.extract(query)];
    the assembly may live one level down in a helper of the same class that is mapped over the parse results"""
    ps = params_of(fn)
    pr = None
    direct = resolution_sites(fn)
    if direct:
        if len(set(direct)) != 1:
            raise AnalysisError('%s: several get_resolution arguments' % where)
        pr = iterated_from(fn, direct[0])
    else:
        for n in walk_fn(fn):
            if isinstance(n, ast.Call) and is_self_attr(n.func) and len(n.args) == 1 and not n.keywords and isinstance(n.args[0], ast.Name):
                hk, hfn = idx.find_method(cls, n.func.attr)
                if hfn is None or hfn is fn:
                    continue
                hps = params_of(hfn)
                if len(hps) == 1 and resolution_sites(hfn) and set(resolution_sites(hfn)) == {hps[0]}:
                    rets = [r_ for r_ in walk_fn(hfn) if isinstance(r_, ast.Return) and r_.value is not None]
                    if not rets:
                        raise AnalysisError('%s: helper %s assembles a result but returns nothing' % (where, hfn.name))
                    pr = iterated_from(fn, n.args[0].id)
                    break
        else:
            raise AnalysisError('%s: get_resolution call not recognised (neither in parse nor in a helper of the class '
                                'called with one element)' % where)
    if pr is None:
        raise AnalysisError('%s: result loop not recognised' % where)

    def is_call(e, recv, meth):
        return isinstance(e, ast.Call) and isinstance(e.func, ast.Attribute) and e.func.attr == meth and \
            is_self_attr(e.func.value, recv)
    ok_pr, er = False, None
    for n in walk_fn(fn):
        if isinstance(n, ast.Assign) and any(isinstance(t, ast.Name) and t.id == pr for t in n.targets):
            v = n.value
            if isinstance(v, ast.ListComp) and is_call(v.elt, 'parser', 'parse') and len(v.generators) == 1 and \
                    isinstance(v.generators[0].iter, ast.Name):
                ok_pr, er = True, v.generators[0].iter.id
        if isinstance(n, ast.For) and isinstance(n.iter, ast.Name) and any(
                isinstance(c, ast.Call) and isinstance(c.func, ast.Attribute) and c.func.attr == 'append'
                and isinstance(c.func.value, ast.Name) and c.func.value.id == pr and c.args and is_call(c.args[0], 'parser', 'parse')
                for c in ast.walk(n)):
            ok_pr, er = True, n.iter.id
    if not ok_pr:
        raise AnalysisError('%s: %s is not built from self.parser.parse over the extract results' % (where, pr))
    ok_er = any(isinstance(n, ast.Assign) and any(isinstance(t, ast.Name) and t.id == er for t in n.targets)
                and is_call(n.value, 'extractor', 'extract') and n.value.args and isinstance(n.value.args[0], ast.Name)
                and n.value.args[0].id in ps for n in walk_fn(fn))
    if not ok_er:
        raise AnalysisError('%s: %s is not self.extractor.extract(<query>)' % (where, er))
    return True


class Recorder:
    """collects verdicts of an analysis run on an embedded control package"""

    def __init__(self):
        self.bad_rules = {}
        self.count = {}

    def ok(self, rule, *a, **k):
        self.count[rule] = self.count.get(rule, 0) + 1

    def exempt(self, rule, *a, **k):
        self.count[rule] = self.count.get(rule, 0) + 1

    def bad(self, rule, file, construct, detail, msg, line=None):
        self.count[rule] = self.count.get(rule, 0) + 1
        self.bad_rules.setdefault(rule, []).append((construct, detail))

    def judge(self, cond, rule, file, construct, detail, msg, line=None):
        if cond:
            self.ok(rule)
        else:
            self.bad(rule, file, construct, detail, msg, line)

    def observe(self, text):
        pass

    def consulted(self, path):
        pass


# =====================================================================================================
# tabulation: StringUtility.is_emoji and ChoiceExtractor.extract interpreted as written (sa/ointerp.py) on finite
# grids - listed emoji code points, and token configurations around every listed expression
# =====================================================================================================

FILLER = 'zz'
_EMOJI_TABLE = {}


def emoji_table():
    """the third-party `emoji` package's data read as a table (never imported):
    -> None | dict(path, data {char: entry}, status {name: int})"""
    if 'v' in _EMOJI_TABLE:
        return _EMOJI_TABLE['v']
    out = None
    try:
        import importlib.util
        import json
        import os
        spec = importlib.util.find_spec('emoji')           # locates the package, does not import it
        if spec is not None and spec.origin:
            base = os.path.join(os.path.dirname(spec.origin), 'unicode_codes')
            jp, dp = os.path.join(base, 'emoji.json'), os.path.join(base, 'data_dict.py')
            if os.path.exists(jp) and os.path.exists(dp):
                with open(jp, encoding='utf-8') as f:
                    data = json.load(f)
                tree = ast.parse(open(dp, encoding='utf-8').read())
                consts, status = {}, None
                for st in tree.body:
                    tgt = st.targets[0] if isinstance(st, ast.Assign) and len(st.targets) == 1 else (
                        st.target if isinstance(st, ast.AnnAssign) and st.value is not None else None)
                    if not isinstance(tgt, ast.Name):
                        continue
                    if isinstance(st.value, ast.Constant) and isinstance(st.value.value, int):
                        consts[tgt.id] = st.value.value
                    elif tgt.id == 'STATUS' and isinstance(st.value, ast.Dict):
                        status = {}
                        for k, v in zip(st.value.keys, st.value.values):
                            if isinstance(k, ast.Constant) and isinstance(v, ast.Name) and v.id in consts:
                                status[k.value] = consts[v.id]
                            elif isinstance(k, ast.Constant) and isinstance(v, ast.Constant):
                                status[k.value] = v.value
                if isinstance(data, dict) and status and all(isinstance(e, dict) and 'status' in e for e in list(data.values())[:50]):
                    out = {'path': jp, 'data': data, 'status': status}
    except (OSError, ValueError, SyntaxError, ImportError):
        out = None
    _EMOJI_TABLE['v'] = out
    return out


class ChoiceInterp(Interp):
    """ointerp with the few extras the choice pipeline needs: grapheme `slice` (code points - the test strings hold no
    combining sequences), the emoji package's names as natives over the table read from disk, list.index with a start
    position, name-mangled private methods"""

    def __init__(self, idx, hooks=None, budget=400000, where='ointerp', table=None, probes=()):
        Interp.__init__(self, idx, hooks=hooks, budget=budget, where=where)
        self.table = table
        self.probes = probes

    def _emoji_native(self, name, node):
        t = self.table
        if t is None:
            self.fail(node, 'name %s of the emoji package (its data is not readable here)' % name)
        data = t['data']
        if name == 'demojize':
            return native(lambda it, a, k: ''.join(data[ch].get('en', ':x:') if ch in data else ch for ch in a[0]))
        if name in ('is_emoji', 'purely_emoji'):
            return native(lambda it, a, k: a[0] in data)
        if name == 'STATUS':
            return {k: (k, v) for k, v in t['status'].items()}
        if name == 'EMOJI_DATA':
            d = {}
            for ch in self.probes:
                if ch in data:
                    d[ch] = (ch, {k: (k, v) for k, v in data[ch].items() if isinstance(v, (str, int, float, bool, list))})
            return d
        self.fail(node, 'name %s of the emoji package' % name)

    def resolve_name(self, name, mod, node):
        imp = mod.imports.get(name) if mod is not None else None
        if imp and imp[0] == 'from':
            if imp[1].split('.')[0] == 'grapheme' and imp[2] == 'slice':
                return native(lambda it, a, k: a[0] if len(a) == 1 else a[0][a[1]:(a[2] if len(a) > 2 else None)])
            if imp[1].split('.')[0] == 'emoji':
                return self._emoji_native(imp[2], node)
        if name in ('format', 'hex') and (mod is None or self.idx.resolve(mod, name) is None):
            return ('builtin', name)
        return Interp.resolve_name(self, name, mod, node)

    def _getattr_private(self, o, name, node, cls):
        if isinstance(o, IObj) and name.startswith('__') and not name.endswith('__') and o.cls is not None \
                and hasattr(o.cls, 'methods'):
            for k in self.idx.mro(o.cls):
                if name in k.methods:
                    return Bound(o, FuncRef(k.mod, k.methods[name], k))
        return Interp.getattr(self, o, name, node, cls)

    _CODECS = {'utf-16', 'utf_16', 'utf-16-le', 'utf-16-be', 'utf-16le', 'utf-16be', 'utf-8', 'utf8', 'utf-32', 'utf-32-le', 'utf-32-be'}

    def binop(self, op, a, b, node):
        ints = isinstance(a, int) and isinstance(b, int) and not isinstance(a, bool) and not isinstance(b, bool)
        if isinstance(op, (ast.LShift, ast.RShift)) and ints:
            if not 0 <= b <= 64 or abs(a) > 1 << 64:
                raise PyExc('shift out of range in ' + ast.unparse(node)[:60])
            return a << b if isinstance(op, ast.LShift) else a >> b
        if isinstance(op, ast.BitXor) and ints:
            return a ^ b
        if isinstance(op, ast.Mod) and isinstance(a, str):
            args = tuple(b) if isinstance(b, (tuple, list)) else (b,)
            if all(isinstance(x, (int, float, str)) for x in args):
                try:
                    return a % args
                except (TypeError, ValueError):
                    raise PyExc('error in string formatting ' + ast.unparse(node)[:60])
            self.fail(node, 'string formatting of %r' % (b,))
        return Interp.binop(self, op, a, b, node)

    def builtin(self, name, args, kwargs, node):
        try:
            if name == 'int' and len(args) == 2 and isinstance(args[0], str) and isinstance(args[1], int) and not kwargs:
                return int(args[0], args[1])
            if name == 'format' and len(args) == 2 and isinstance(args[0], (int, float, str)) and isinstance(args[1], str):
                return format(args[0], args[1])
            if name == 'hex' and len(args) == 1 and isinstance(args[0], int):
                return hex(args[0])
            if name == 'chr' and len(args) == 1 and isinstance(args[0], int):
                if not 0 <= args[0] <= 0x10FFFF:
                    raise PyExc('ValueError: chr() arg not in range')
                return chr(args[0])
        except (TypeError, ValueError):
            raise PyExc('error in builtin ' + name)
        return Interp.builtin(self, name, args, kwargs, node)

    def ev(self, e, env, mod, cls):
        if isinstance(e, ast.JoinedStr) and any(isinstance(p, ast.FormattedValue) and p.format_spec is not None for p in e.values):
            out = ''
            for p in e.values:
                if isinstance(p, ast.Constant):
                    out += str(p.value)
                elif isinstance(p, ast.FormattedValue) and p.conversion == -1:
                    v = self.ev(p.value, env, mod, cls)
                    spec = ''
                    if p.format_spec is not None:
                        if not all(isinstance(x, ast.Constant) for x in p.format_spec.values):
                            self.fail(e, 'computed format spec')
                        spec = ''.join(str(x.value) for x in p.format_spec.values)
                    if not isinstance(v, (int, float, str)):
                        self.fail(e, 'formatted value %r' % (v,))
                    try:
                        out += format(v, spec)
                    except (TypeError, ValueError):
                        raise PyExc('error in format spec')
                else:
                    self.fail(e, 'f-string conversion')
            return out
        return Interp.ev(self, e, env, mod, cls)

    def getattr(self, o, name, node, cls):      # noqa: F811 (extended below for bytes)
        if isinstance(o, bytes):
            return ('method', o, name)
        return self._getattr_private(o, name, node, cls)

    def method(self, recv, name, args, kwargs, node):
        if isinstance(recv, str) and name == 'encode' and 1 <= len(args) <= 2 and all(isinstance(a, str) for a in args) \
                and args[0].lower() in self._CODECS and (len(args) == 1 or args[1] in ('strict', 'surrogatepass')):
            try:
                return recv.encode(*args)
            except (UnicodeError, LookupError):
                raise PyExc('UnicodeEncodeError')
        if isinstance(recv, bytes) and name == 'decode' and 1 <= len(args) <= 2 and all(isinstance(a, str) for a in args) \
                and args[0].lower() in self._CODECS and (len(args) == 1 or args[1] in ('strict', 'surrogatepass')):
            try:
                return recv.decode(*args)
            except (UnicodeError, LookupError):
                raise PyExc('UnicodeDecodeError')
        if isinstance(recv, str) and name in ('isalnum', 'isupper', 'islower', 'isnumeric', 'isdecimal', 'isascii') and not args:
            return getattr(recv, name)()
        if isinstance(recv, list) and name == 'index' and len(args) in (2, 3) and all(isinstance(a, int) for a in args[1:]):
            hi = args[2] if len(args) == 3 else len(recv)
            for i, x in enumerate(recv):
                if args[1] <= i < hi and self.eq(x, args[0]):
                    return i
            raise PyExc('ValueError')
        return Interp.method(self, recv, name, args, kwargs, node)


class RewriteRunner:
    """remove_unicode_matches run as written (sa/ointerp.py) on a pattern's source text.  re / regex `sub` and `compile` are
    hooks implemented with Python's own `re` over the pattern *data* found in the tree; a callable replacement is called back
    through the interpreter with a stand-in match object.  Anything outside the interpreted subset is an AnalysisError."""

    def __init__(self, idx, scls, fn):
        self.idx, self.scls, self.fn = idx, scls, fn
        self.where = '%s:%s.%s' % (scls.mod.rel, scls.name, fn.name)

    @staticmethod
    def _match(m):
        def group(it, a, k):
            try:
                g = m.group(*a)
            except (IndexError, re.error):
                raise PyExc('IndexError: no such group')
            return list(g) if isinstance(g, tuple) else g
        return Native({'group': native(group), 'groups': native(lambda it, a, k: list(m.groups())),
                       'start': native(lambda it, a, k: m.start(*a)), 'end': native(lambda it, a, k: m.end(*a)),
                       'span': native(lambda it, a, k: list(m.span(*a))), 'string': m.string}, 'match')

    def _sub(self, it, pat, repl, text, rest, kwargs):
        if rest or kwargs:
            raise AnalysisError('%s: sub with count / flags is outside the interpreted subset' % self.where)
        if isinstance(pat, Native) and 'pattern' in pat.table:
            pat = pat.table['pattern']
        if not isinstance(pat, str) or not isinstance(text, str):
            raise AnalysisError('%s: sub called with %r, %r' % (self.where, type(pat).__name__, type(text).__name__))
        try:
            cre = re.compile(pat)
        except re.error as e:
            raise AnalysisError('%s: escape pattern %r does not compile (%s)' % (self.where, pat, e))
        if isinstance(repl, str):
            try:
                return cre.sub(repl, text)
            except (re.error, IndexError) as e:
                raise AnalysisError('%s: replacement template %r invalid (%s)' % (self.where, repl, e))

        def call(m):
            r = it.call_value(repl, [self._match(m)], {}, self.fn)
            if not isinstance(r, str):
                raise PyExc('TypeError: replacement function returned %r' % (r,))
            return r
        return cre.sub(call, text)

    def __call__(self, pattern_text):
        def sub_hook(it, a, k):
            if len(a) < 3:
                raise AnalysisError('%s: sub call shape not understood' % self.where)
            return self._sub(it, a[0], a[1], a[2], a[3:], k)

        def compile_hook(it, a, k):
            if len(a) != 1 or k or not isinstance(a[0], str):
                raise AnalysisError('%s: compile with flags is outside the interpreted subset' % self.where)
            src = a[0]
            obj = Native({'pattern': src}, 'compiled-pattern')
            obj.table['sub'] = native(lambda it_, b, kw: self._sub(it_, src, b[0], b[1], b[2:], kw) if len(b) >= 2 else
                                      it_.fail(self.fn, 'sub call shape'))
            return obj
        it = ChoiceInterp(self.idx, hooks={'regex.sub': sub_hook, 'regex.compile': compile_hook}, where=self.where, budget=200000)
        arg = Native({'pattern': pattern_text}, 'pattern')
        try:
            out = it.call_function(FuncRef(self.scls.mod, self.fn, self.scls), [arg], {}, None, selfobj=None)
        except PyExc as ex:
            raise AnalysisError('%s raises %s on the pattern text' % (self.where, ex))
        if not isinstance(out, str):
            raise AnalysisError('%s returned %r' % (self.where, type(out).__name__))
        return out


def is_emoji_function(idx, xk):
    """the classifier the tokenizer of extractor class xk calls -> (owner class, FunctionDef)"""
    tk, tfn = None, None
    for k in idx.mro(xk):
        for nm, fn in k.methods.items():
            if 'tokenize' in nm:
                tk, tfn = k, fn
    if tfn is None:
        raise AnalysisError('%s: tokenizer of %s not found' % (xk.mod.rel, xk.name))
    calls = [n for n in walk_fn(tfn) if isinstance(n, ast.Call) and isinstance(n.func, ast.Attribute) and 'emoji' in n.func.attr.lower()]
    if not calls:
        return None, None, tk, tfn
    ucls = idx.resolve_class(tk.mod, calls[0].func.value)
    if ucls is None or calls[0].func.attr not in ucls.methods:
        raise AnalysisError('%s:%d emoji classifier %s not resolvable' % (tk.mod.rel, calls[0].lineno, ast.unparse(calls[0].func)))
    return ucls, ucls.methods[calls[0].func.attr], tk, tfn


def emoji_formulation(fn):
    """fallback when the package data cannot be read: 'roundtrip' | 'lookup' | 'filtered' | None"""
    names = {n.id for n in walk_fn(fn) if isinstance(n, ast.Name)}
    if 'demojize' in names and not ({'EMOJI_DATA', 'STATUS'} & names):
        return 'roundtrip'
    if 'EMOJI_DATA' in names or 'is_emoji' in names:
        extra = [n for n in walk_fn(fn) if isinstance(n, ast.Subscript) or
                 (isinstance(n, ast.Compare) and not all(isinstance(o, (ast.Is, ast.IsNot, ast.In, ast.NotIn)) for o in n.ops))]
        return 'filtered' if extra or 'STATUS' in names else 'lookup'
    return None


class EmojiModel:
    """StringUtility.is_emoji decided per character: interpreted as written over the package table when it is readable"""

    def __init__(self, idx, ucls, fn, probes):
        self.idx, self.ucls, self.fn = idx, ucls, fn
        self.table = emoji_table() if fn is not None else None
        self.probes = tuple(probes)
        self.cache = {}
        self.form = emoji_formulation(fn) if fn is not None else 'none'

    def __call__(self, ch):
        if self.fn is None:
            return False
        if ch not in self.cache:
            if self.table is None:
                if self.form is None:
                    raise AnalysisError('%s: formulation of %s not recognised and the emoji package data is not readable'
                                        % (self.ucls.mod.rel, self.fn.name))
                # roundtrip / lookup: whatever the package knows; filtered: unknown -> treated as possibly excluded
                self.cache[ch] = (is_emoji_word(ch) and self.form in ('roundtrip', 'lookup'))
            else:
                it = ChoiceInterp(self.idx, where='%s.%s' % (self.ucls.name, self.fn.name), budget=20000, table=self.table,
                                  probes=self.probes + (ch,))
                try:
                    r = it.call_function(FuncRef(self.ucls.mod, self.fn, self.ucls), [ch], {}, None, selfobj=None)
                except PyExc as ex:
                    raise AnalysisError('%s.%s(%r) raises %s' % (self.ucls.name, self.fn.name, ch, ex))
                self.cache[ch] = bool(it.truth(r))
        return self.cache[ch]


class Tabulator:
    """runs extract of an extractor class, as written, on a source string: patterns are stood in for by the finite
    languages the word rules computed, the tokenizer pattern by its syntax tree, is_emoji by EmojiModel"""

    def __init__(self, idx, xk, live_true, live_false, t_true, t_false, ttree, emoji, options):
        self.idx, self.xk = idx, xk
        self.fn = idx.find_method(xk, 'extract')[1]
        self.owner = idx.find_method(xk, 'extract')[0]
        self.langs = {'T': sorted(live_true, key=lambda w: (-len(w), w)), 'F': sorted(live_false, key=lambda w: (-len(w), w))}
        self.types = {'T': t_true, 'F': t_false}
        self.ttree, self.emoji, self.options = ttree, emoji, options
        self.runs = 0

    def _matches(self, tag, text):
        cands = []
        for w in self.langs[tag]:
            pat = re.escape(w).replace('\\ ', r'\s+')
            if w[0].isalnum() or w[0] == '_':
                pat = r'(?<!\w)' + pat
            if w[-1].isalnum() or w[-1] == '_':
                pat = pat + r'(?!\w)'
            for m in re.finditer(pat, text):
                cands.append((m.start(), -(m.end() - m.start()), m.group()))
        cands.sort()
        out, pos = [], 0
        for s_, neg, g in cands:        # leftmost, longest, non-overlapping - as finditer over an alternation between \b
            if s_ >= pos:
                out.append((s_, g))
                pos = s_ - neg
        return out

    def extract(self, source, only_top):
        pats = {t: Native({'pattern': t}, 'pattern-' + t) for t in ('T', 'F')}
        tag_of = {id(v): k for k, v in pats.items()}

        def finditer(it, args, kw):
            pat, text = args[0], args[1]
            if id(pat) not in tag_of or not isinstance(text, str):
                raise AnalysisError('extract: finditer called with something else than a pattern of the map and a text')
            return [Native({'group': native(lambda it_, a, k, g=g: g), 'start': native(lambda it_, a, k, s_=s_: s_),
                            'end': native(lambda it_, a, k, s_=s_, g=g: s_ + len(g)),
                            'span': native(lambda it_, a, k, s_=s_, g=g: [s_, s_ + len(g)])}, 'match')
                    for s_, g in self._matches(tag_of[id(pat)], text)]

        ttree = self.ttree
        tokpat = Native({'search': native(lambda it, a, k: (True if rx.matches(ttree, a[0]) else None))}, 'token-pattern')
        hooks = {'regex.finditer': finditer, 'regex.compile': lambda it, a, k: tokpat,
                 'StringUtility.remove_unicode_matches': lambda it, a, k: a[0],
                 'StringUtility.is_emoji': lambda it, a, k: self.emoji(a[0])}
        it = ChoiceInterp(self.idx, hooks=hooks, where='%s.extract' % self.owner.name, budget=300000)
        table = dict(self.options)
        table['regexes_map'] = {it.key(pats['T']): (pats['T'], self.types['T']), it.key(pats['F']): (pats['F'], self.types['F'])}
        table['only_top_match'] = only_top
        table['token_regex'] = tokpat
        selfo = IObj(self.xk, {'config': Native(table, 'options')})
        self.runs += 1
        try:
            out = it.call_function(FuncRef(self.owner.mod, self.fn, self.owner), [source], {}, None, selfobj=selfo)
        except PyExc as ex:
            return 'raises %s' % ex
        if not isinstance(out, list) or not all(isinstance(o, IObj) for o in out):
            raise AnalysisError('extract returned %r' % (out,))
        res = []
        for o in out:
            try:
                res.append((o.attrs['start'], o.attrs['text'], o.attrs['type']))
            except KeyError as e:
                raise AnalysisError('extract result lacks %s' % e)
        return res


def tokens_of(w, is_sep):
    out, cur = [], ''
    for ch in w:
        if ch.isspace() or is_sep(ch):
            if cur:
                out.append(cur)
            cur = ''
        else:
            cur += ch
    if cur:
        out.append(cur)
    return out


def tabulate_scoring(tab, listed, is_sep, max_n):
    """listed: [(expression, tag 'T'|'F')] -> (findings per multi-token phrase, finding for the single-token sweep)
    finding = (phrase, configurations, first failure text or None)"""
    singles, phrases = [], []
    alone = {w for w, _t in listed}
    for w, tag in listed:
        if is_emoji_word(w):
            toks = list(w)
        else:
            toks = tokens_of(w, is_sep)
        if len(toks) >= 2 and not is_emoji_word(w):
            phrases.append((w, tag, toks))
        elif len(toks) == 1:
            singles.append((w, tag))
    out = []
    for w, tag, toks in sorted(phrases):
        k = len(toks)
        n_conf, fail = 0, None
        for n in range(k, max_n + 1):
            for j in range(0, n - k + 1):
                extras = [None] + [(pos, t) for pos in range(n) if not j <= pos < j + k for t in sorted(set(toks))]
                for ex in extras:
                    src_t = [FILLER] * n
                    src_t[j:j + k] = toks
                    if ex is not None:
                        src_t[ex[0]] = ex[1]
                    # the phrase may now also stand elsewhere (extra token next to a filler never completes it: fillers differ)
                    source = ' '.join(src_t)
                    places = [sum(len(x) + 1 for x in src_t[:q]) for q in range(0, n - k + 1) if src_t[q:q + k] == toks]
                    phrase_text = ' '.join(toks)
                    n_conf += 1
                    got = tab.extract(source, False)
                    ok1 = isinstance(got, list) and any(st in places and tx == phrase_text and ty == tab.types[tag] for st, tx, ty in got)
                    why = None
                    if not ok1:
                        why = 'no candidate for %r in %r (candidates kept: %s)' % (phrase_text, source, got)
                    elif ex is None or ex[1] not in alone:
                        top = tab.extract(source, True)
                        if not (isinstance(top, list) and len(top) == 1 and top[0][0] in places and top[0][1] == phrase_text
                                and top[0][2] == tab.types[tag]):
                            why = 'reported entity for %r is %s, not %r' % (source, top, phrase_text)
                    if why and fail is None:
                        fail = why
        out.append((w, n_conf, fail))
    s_conf, s_fail = 0, None
    for w, tag in sorted(singles):
        for n in (1, 2, 3):
            for j in range(n):
                src_t = [FILLER] * n
                src_t[j] = w
                source = ' '.join(src_t)
                place = sum(len(x) + 1 for x in src_t[:j])
                s_conf += 1
                for top in (False, True):
                    got = tab.extract(source, top)
                    if not (isinstance(got, list) and len(got) == 1 and got[0] == (place, w, tab.types[tag])) and s_fail is None:
                        s_fail = '%r in %r: %s' % (w, source, got)
    return out, (s_conf, s_fail)


PUNCTUATION = ["'", '\u2019', ',', '.', '(', ')', '!', '?', '"', ' ']


def tabulate_punctuation(tab, listed, is_sep, small=False):
    """a listed expression written between punctuation: <p1> w <p2>, p1 of length <= 1, p2 of length <= 2 (second character from a smaller set) over the characters
    of PUNCTUATION that are separators for this culture's tokenizer (punctuation is followed by more punctuation, a blank or
    the end - never directly by a letter); alone and between filler words.  The one reported entity must be w at its place.
    Tabulated for one word per polarity, every multi-token phrase and one emoji (tokenisation is per character class).
    -> (configurations, first failure or None)"""
    P = [c for c in (PUNCTUATION[:4] + [' '] if small else PUNCTUATION) if c.isspace() or is_sep(c)]
    reps = []
    for tag in ('T', 'F'):
        ws = sorted(w for w, t in listed if t == tag and not is_emoji_word(w) and len(tokens_of(w, is_sep)) == 1)
        longer = [w for w in ws if len(w) > 1]
        if longer or ws:
            reps.append(((longer or ws)[0], tag, 'full'))
    for w, tag in sorted(listed):
        if not is_emoji_word(w) and len(tokens_of(w, is_sep)) >= 2:
            reps.append((w, tag, 'full'))
    em = sorted((w, t) for w, t in listed if is_emoji_word(w) and len(w) == 1)
    if em:
        reps.append((em[0][0], em[0][1], 'short'))
    n_conf, fail = 0, None
    second = [c for c in P if c in ("'", '.', ',', ')', ' ')]
    for n_rep, (w, tag, depth) in enumerate(reps):
        ctx = [(p1, p2, fill) for p1 in [''] + P for p2 in [''] + P for fill in ((False, True) if n_rep == 0 else (False,))]
        if depth == 'full':
            ctx += [(p1, a + b, False) for p1 in ['', "'"] if p1 == '' or p1 in P for a in P for b in second]
        for p1, p2, fill in ctx:
            source = p1 + w + p2
            place = len(p1)
            if fill:
                source = FILLER + ' ' + source + ' ' + FILLER
                place += len(FILLER) + 1
            n_conf += 1
            got = tab.extract(source, True)
            if not (isinstance(got, list) and len(got) == 1 and got[0] == (place, w, tab.types[tag])) and fail is None:
                fail = '%r written %r: reported %s' % (w, source, got)
    return n_conf, fail


# =====================================================================================================
# the analysis (run on the indexed tree, and on embedded control packages)
# =====================================================================================================

RULES = [
    ('C20.registration', 'every boolean registration is decodable, cultures are registered once, the getter asks for a registered name', 2),
    ('C20.language', 'every registered culture is wired from its own language\'s resource class (one class for all slots)', 1),
    ('C20.config', 'configuration slots regex_true / regex_false / token_regex come from TrueRegex / FalseRegex / TokenizerRegex', 3),
    ('C20.polarity', 'TrueRegex -> regex_true -> type -> True and FalseRegex -> regex_false -> type -> False through map and table', 2),
    ('C20.typing', 'match loop pairs matches with their pattern\'s type; parser looks up by extracted type; model copies value', 4),
    ('C20.single', 'only_top_match is effectively True and its branch yields exactly one element', 2),
    ('C20.rewrite', 'the pattern that is matched (after remove_unicode_matches) is well formed and finite', 2),
    ('C20.word', 'every listed word survives the rewrite, is lower-case stable, has no whitespace edge and a non-separator character', 4),
    ('C20.emoji', 'every listed single-code-point emoji is matched by the rewritten pattern', 1),
    ('C20.residue', 'whatever the rewritten pattern matches beyond the listed expressions is dead', 1),
    ('C20.disjoint', 'affirmative and negative languages are non-empty and disjoint (listed and matched)', 1),
    ('C20.separators', 'blank and punctuation are token separators', 1),
    ('C20.score', 'every producer of resolution["score"] is a number within [0, 1]', 1),
    ('C20.other-matches', 'the other-results branch of get_resolution (attribute assignment on a dict) is unreachable', 1),
    ('C20.other-path', 'the per-other-match path (parser helper, other-results branch) is unreachable, or every attribute it reads exists', 1),
    ('C20.sentinel', 'index_of\'s not-found value fails the found-guard of match_value', 1),
    ('C20.unbound', 'no local is read after a swallowing try that may not have assigned it', 1),
    ('C20.span', 'the reported start is the match position', 1),
    ('C20.is-emoji', 'the tokenizer\'s emoji classifier accepts every listed single-code-point emoji and no plain character', 2),
    ('C20.scoring', 'extract as written keeps (and reports) a contiguous listed expression on every tabulated token configuration', 1),
]


def analyse(idx, E, tab=None):
    R = Resources(idx)
    rec = idx.cls('ChoiceRecognizer')
    E.consulted(rec.mod.path)
    regs = boolean_registrations(idx, rec)
    if not regs:
        raise AnalysisError('%s: no boolean model registration found' % rec.mod.rel)

    # ---- registrations and getter
    seen = {}
    for r in regs:
        E.judge(r.culture not in seen, 'C20.registration', r.mod.path, r.construct, 'culture %s registered once' % r.culture,
                'culture registered twice (register_model raises ValueError: no model at all)', r.line)
        seen[r.culture] = r
    names = {r.name for r in regs}
    getters = 0
    for fn in rec.methods.values():
        for n in walk_fn(fn):
            if isinstance(n, ast.Call) and is_self_attr(n.func, 'get_model') and n.args:
                try:
                    asked = const_of(idx, rec.mod, n.args[0])
                except Unres:
                    raise AnalysisError('%s:%d get_model name not evaluable' % (rec.mod.rel, n.lineno))
                getters += 1
                E.judge(asked in names, 'C20.registration', rec.mod.path, '%s.%s' % (rec.name, fn.name),
                        'asks for %r; registered %s' % (asked, sorted(names)), 'the getter asks for a model name that is not registered',
                        n.lineno)
    if not getters:
        raise AnalysisError('%s: no getter calling self.get_model' % rec.mod.rel)

    ev = Evaluator(idx)
    done_classes = set()
    for r in regs:
        analyse_registration(idx, R, E, ev, r, done_classes, tab)


def analyse_registration(idx, R, E, ev, r, done, tab=None):
    # ---- configuration slots
    E.consulted(r.config_cls.mod.path)
    slots = config_slots(idx, r.config_cls, r.config_call, r.mod)
    cname = r.config_cls.name
    wired = {}
    for slot, attr in SLOT_ATTR.items():
        if slot not in slots:
            raise AnalysisError('%s: %s does not store %s' % (r.config_cls.mod.rel, cname, slot))
        got = chase(idx, slots[slot])
        if got[0] != 'res':
            raise AnalysisError('%s: %s.%s is not wired from a resource class attribute (%s)'
                                % (r.config_cls.mod.rel, cname, slot, got[1]))
        wired[slot] = (got[1], got[2])
        E.judge(got[2] == attr, 'C20.config', r.config_cls.mod.path, '%s.%s' % (cname, slot),
                '%s <- %s.%s' % (slot, got[1].name, got[2]), '%s is wired from %s, expected %s' % (slot, got[2], attr),
                slots[slot].expr.lineno)
    if 'only_top_match' not in slots:
        raise AnalysisError('%s: %s does not store only_top_match' % (r.config_cls.mod.rel, cname))
    otm = chase(idx, slots['only_top_match'])
    E.judge(otm == ('const', True), 'C20.single', r.config_cls.mod.path, '%s %s.only_top_match' % (r.construct, cname),
            'only_top_match = %s' % (otm[1] if otm[0] == 'const' else 'not a constant (%s)' % otm[1]),
            'only_top_match is not True for this registration: several entities may be reported', r.line)

    # ---- language purity
    lang = LANGUAGE_OF_MEMBER.get(r.member, r.member)
    rcs = {c.qual: c for c, _a in wired.values()}
    pure = len(rcs) == 1 and all(c.name.startswith(lang) for c in rcs.values())
    E.judge(pure, 'C20.language', r.mod.path, r.construct, 'Culture.%s <- %s' % (r.member, sorted(c.name for c in rcs.values())),
            'the culture is wired from the resources of another language (or from several classes)', r.line)
    vals = {}
    for slot, (c, a) in wired.items():
        E.consulted(c.mod.path)
        v = R.values(c).get(a)
        if not isinstance(v, str):
            raise AnalysisError('%s: %s.%s is not a string constant' % (c.mod.rel, c.name, a))
        vals[slot] = v

    # ---- extractor map, parser table, polarity chain
    ek, einit, emap, stores, cfgp = extractor_map(idx, r.extractor_cls)
    E.consulted(ek.mod.path)
    pk, pinit, ptab = parser_table(idx, r.parser_cls)
    E.consulted(pk.mod.path)
    table = {}
    for k_, v_, _l in ptab:
        table[k_] = v_
    for slot, want in (('regex_true', True), ('regex_false', False)):
        types = [(t, ln) for s, t, ln in emap if s == slot]
        res_attr = '%s.%s' % (wired[slot][0].name, wired[slot][1])
        construct = '%s %s' % (r.construct, 'true' if want else 'false')
        if not types:
            E.bad('C20.polarity', ek.mod.path, construct, '%s -> %s -> (no entry in regexes_map)' % (res_attr, slot),
                  'the pattern is not in the extractor map: this polarity is never extracted', einit.lineno)
            continue
        t, ln = types[-1]
        missing = t not in table
        val = table.get(t)
        good = (not missing) and val is want
        E.judge(good, 'C20.polarity', ek.mod.path, construct,
                '%s -> %s -> %r -> %s' % (res_attr, slot, t, 'no table entry (value None)' if missing else repr(val)),
                'a match of the %s pattern resolves to %s (map entry %s:%d, table %s%s)'
                % ('affirmative' if want else 'negative', 'None' if missing else repr(val), ek.mod.rel, ln, pk.mod.rel,
                   ''.join(':%d' % l_ for k_, _v, l_ in ptab if k_ == t) or ' has no such key'), ln)
    for attr, wantexpr in (('token_regex', 'token_regex'), ('only_top_match', 'only_top_match')):
        e = stores.get(attr)
        good = isinstance(e, ast.Attribute) and isinstance(e.value, ast.Name) and e.value.id == cfgp and e.attr == wantexpr
        if e is None:
            raise AnalysisError('%s: %s.__init__ does not forward %s' % (ek.mod.rel, ek.name, attr))
        E.judge(good, 'C20.config', ek.mod.path, '%s.__init__ options.%s' % (ek.name, attr),
                'options.%s <- %s' % (attr, 'config.' + wantexpr if good else ast.unparse(e)[:40]),
                'the extractor does not forward the configuration\'s %s' % attr, e.lineno)

    # ---- structural rules on the shared classes (once per class)
    xk, xfn = idx.find_method(r.extractor_cls, 'extract')
    if xfn is None:
        raise AnalysisError('%s: no extract for %s' % (r.extractor_cls.mod.rel, r.extractor_cls.name))
    xw = '%s:%s' % (xk.mod.rel, qual(xk, xfn))
    findings, info = det_extract_typing(xfn, xw)
    lowered = det_lowered(xfn, info['matching']['text'])
    ppk, pfn = idx.find_method(r.parser_cls, 'parse')
    if pfn is None:
        raise AnalysisError('%s: no parse for %s' % (r.parser_cls.mod.rel, r.parser_cls.name))
    gk, gfn = idx.find_method(r.model_cls, 'get_resolution')
    mk, mfn = idx.find_method(r.model_cls, 'parse')
    if gfn is None or mfn is None:
        raise AnalysisError('%s: no get_resolution / parse for %s' % (r.model_cls.mod.rel, r.model_cls.name))
    E.consulted(gk.mod.path)
    model_parse_chain(idx, r.model_cls, mfn, '%s:%s' % (mk.mod.rel, qual(mk, mfn)))
    gparam, gdict, gname = resolution_dict(gfn, '%s:%s' % (gk.mod.rel, qual(gk, gfn)))
    vk, vfn = idx.find_method(r.extractor_cls, 'match_value')
    sentinel_broken = False
    key = (xk.qual, ppk.qual, gk.qual, mk.qual)
    first = key not in done
    done.add(key)
    if first:
        for good, what, detail, msg, line in findings:
            E.judge(good, 'C20.typing', xk.mod.path, '%s %s' % (qual(xk, xfn), what), detail, msg, line)
        for good, what, detail, msg, line in det_parse_value(pfn, '%s:%s' % (ppk.mod.rel, qual(ppk, pfn))):
            E.judge(good, 'C20.typing', ppk.mod.path, '%s %s' % (qual(ppk, pfn), what), detail, msg, line)
        ve = gdict.get('value')
        good = isinstance(ve, ast.Attribute) and ve.attr == 'value' and isinstance(ve.value, ast.Name) and ve.value.id == gparam
        E.judge(good, 'C20.typing', gk.mod.path, "%s['value']" % qual(gk, gfn),
                "resolution['value'] <- %s" % ('<parse result>.value' if good else (ast.unparse(ve)[:40] if ve is not None else 'missing')),
                'the resolution does not carry the parsed value', gfn.lineno)
        for good, what, detail, msg, line in det_single(xfn, xw):
            E.judge(good, 'C20.single', xk.mod.path, '%s %s' % (qual(xk, xfn), what), detail, msg, line)
        for good, what, detail, msg, line in det_span_source(xfn, xw, info['match_vars']):
            E.judge(good, 'C20.span', xk.mod.path, '%s %s' % (qual(xk, xfn), what), detail,
                    msg + " - e.g. 'I know. No' would report start 3 (inside 'know'), text 'no'", line)
    # sentinel
    if vfn is None:
        raise AnalysisError('%s: no match_value for %s' % (r.extractor_cls.mod.rel, r.extractor_cls.name))
    icall = [n for n in walk_fn(vfn) if isinstance(n, ast.Call) and isinstance(n.func, ast.Attribute) and n.func.attr == 'index_of']
    if not icall:
        raise AnalysisError('%s: match_value does not call index_of' % vk.mod.rel)
    ucls = idx.resolve_class(vk.mod, icall[0].func.value)
    if ucls is None or 'index_of' not in ucls.methods:
        raise AnalysisError('%s: receiver of index_of not resolvable' % vk.mod.rel)
    E.consulted(ucls.mod.path)
    sres = det_sentinel(ucls.methods['index_of'], '%s:%s.index_of' % (ucls.mod.rel, ucls.name), vfn,
                        '%s:%s' % (vk.mod.rel, qual(vk, vfn)))
    sentinel_broken = any(not g for g, *_ in sres)
    if first:
        for good, what, detail, msg, line in sres:
            E.judge(good, 'C20.sentinel', ucls.mod.path, '%s.index_of / %s' % (ucls.name, qual(vk, vfn)), detail,
                    msg + " - recognize_boolean('not ok not', 'en-us') raises (ZeroDivisionError swallowed, then "
                          "UnboundLocalError); the extractor scores 'not ok' 1.6", line)
        # unbound after try
        ub = det_unbound(mfn, qual(mk, mfn))
        for safe, name, line in ub:
            construct = '%s %s' % (qual(mk, mfn), name)
            if safe:
                E.ok('C20.unbound', mk.mod.path, construct, '%s assigned before the try or in every handler' % name, line)
            elif sentinel_broken:
                E.bad('C20.unbound', mk.mod.path, construct, '%s assigned only inside a try whose handler swallows; read after it' % name,
                      "when the extractor raises (decided source: ZeroDivisionError in match_value, see C20.sentinel) the handler "
                      "passes and reading %s raises UnboundLocalError out of recognize_boolean - recognize_boolean('not ok not', "
                      "'en-us')" % name, line)
            else:
                E.exempt('C20.unbound', mk.mod.path, construct,
                         'no raising path decided for string queries (a None query is outside the quantifier)',
                         '%s assigned only inside a try whose handler swallows; read after it' % name, line)
                E.observe('%s reads %s after a try whose body may not have assigned it; no string query that makes the '
                          'extractor raise was decided' % (qual(mk, mfn), name))
        if not ub:
            E.ok('C20.unbound', mk.mod.path, qual(mk, mfn), 'no local assigned only inside a swallowing try is read after it', mfn.lineno)

    # ---- (iii) who produces the score; other-results branch
    if first:
        other_live = analyse_other_path(idx, E, xk, xfn, ppk, pfn, gk, gfn)
        analyse_score(idx, E, ev, r, xk, xfn, ppk, pfn, gk, gfn, gparam, gdict, gname, sentinel_broken, other_live)

    # ---- (ii) word languages
    pol, is_sep, ttree = analyse_words(idx, E, r, vals, wired, info['matching'], lowered)

    # ---- is_emoji on the listed code points; extract interpreted as written on token configurations
    analyse_tabulation(idx, E, r, xk, pol, is_sep, ttree, emap, stores, wired, tab, all(f[0] for f in findings))


# =====================================================================================================
# the per-other-match path: reachability of parser.__to_other_match_result / the other-results branch, and
# soundness of the attribute reads on it
# =====================================================================================================

HARMLESS_BASES = {'object', 'ABC', 'Generic', 'Protocol'}


def defined_attrs(idx, cls):
    """attribute names instances of cls have: class-level names / annotations / methods and every self.x store in the MRO
    -> (names, closed): closed is False when a base class is outside the index (then absence proves nothing)"""
    names, closed = set(), True
    for k in idx.mro(cls):
        for b in k.node.bases:
            bn = b.value if isinstance(b, ast.Subscript) else b
            if idx.resolve_class(k.mod, bn) is None and not (isinstance(bn, ast.Name) and bn.id in HARMLESS_BASES) and \
                    not (isinstance(bn, ast.Attribute) and bn.attr in HARMLESS_BASES):
                closed = False
        for st in k.node.body:
            if isinstance(st, (ast.FunctionDef, ast.AsyncFunctionDef)):
                names.add(st.name)
                self_name = st.args.args[0].arg if st.args.args else None
                for n in walk_fn(st):
                    tgts = []
                    if isinstance(n, ast.Assign):
                        tgts = n.targets
                    elif isinstance(n, (ast.AnnAssign, ast.AugAssign)):
                        tgts = [n.target]
                    for t in tgts:
                        for x in ast.walk(t):
                            if isinstance(x, ast.Attribute) and isinstance(x.value, ast.Name) and x.value.id == self_name:
                                names.add(x.attr)
            elif isinstance(st, ast.Assign):
                names |= {t.id for t in st.targets if isinstance(t, ast.Name)}
            elif isinstance(st, ast.AnnAssign) and isinstance(st.target, ast.Name):
                names.add(st.target.id)
    return names, closed


def literal_empty(e):
    return (isinstance(e, (ast.List, ast.Tuple)) and not e.elts) or \
        (isinstance(e, ast.Call) and isinstance(e.func, ast.Name) and e.func.id in ('list', 'tuple') and not e.args and not e.keywords)


def field_param(idx, K, field):
    """the constructor parameter of K that is stored as self.<field> -> (name, default expr or None) or None"""
    kk, init = idx.find_method(K, '__init__')
    if init is None:
        return None
    ps = set(params_of(init))
    for st in walk_fn(init):
        if isinstance(st, (ast.Assign, ast.AnnAssign)):
            t = st.targets[0] if isinstance(st, ast.Assign) else st.target
            if is_self_attr(t, field) and isinstance(st.value, ast.Name) and st.value.id in ps:
                return st.value.id, defaults_of(init).get(st.value.id), init
    return None


def ctor_field_arg(idx, mod, call, field):
    """for a call of a class that stores a constructor parameter as self.<field>:
    -> None (not such a class) | ('arg', expr) | ('default', expr or None)"""
    K = idx.resolve_class(mod, call.func) if isinstance(call.func, (ast.Name, ast.Attribute)) else None
    if K is None:
        return None
    fp = field_param(idx, K, field)
    if fp is None:
        return None
    pname, default, init = fp
    bound = bind_args(call, init)
    if pname in bound:
        return ('arg', bound[pname])
    return ('default', default)


def extractor_attaches(idx, xk, xfn, field='other_matches'):
    """can an object that extract hands out carry a non-empty <field> in its data? -> (bool, reason)"""
    parents = {}
    for n in walk_fn(xfn):
        for c in ast.iter_child_nodes(n):
            parents[id(c)] = n
    reasons = []

    def flows(name, born_line):
        """is the local used other than as the base of an attribute access (stored, appended, returned, passed on)?"""
        for n in walk_fn(xfn):
            if isinstance(n, ast.Name) and n.id == name and isinstance(n.ctx, ast.Load):
                par = parents.get(id(n))
                if isinstance(par, ast.Attribute) and par.value is n:
                    continue
                return True
        return False
    for n in walk_fn(xfn):
        if not isinstance(n, ast.Call):
            continue
        got = ctor_field_arg(idx, xk.mod, n, field)
        if got is None:
            continue
        par = parents.get(id(n))
        holder = None
        if isinstance(par, (ast.Assign, ast.AnnAssign)) and par.value is n:
            t = par.targets[0] if isinstance(par, ast.Assign) else par.target
            if isinstance(t, ast.Name):
                holder = t.id
        if holder is not None and not flows(holder, n.lineno):
            continue        # a throw-away object: only its own fields are read or written
        kind, e = got
        if e is not None and not literal_empty(e):
            reasons.append('%s:%d %s(... %s=%s)' % (xk.mod.rel, n.lineno, ast.unparse(n.func), field,
                                                    ast.unparse(e)[:50] if kind == 'arg' else 'default ' + ast.unparse(e)[:30]))
        if holder is not None:
            for st in walk_fn(xfn):
                if isinstance(st, ast.Assign) and len(st.targets) == 1 and isinstance(st.targets[0], ast.Attribute) and \
                        st.targets[0].attr == field and isinstance(st.targets[0].value, ast.Name) and \
                        st.targets[0].value.id == holder and not literal_empty(st.value):
                    reasons.append('%s:%d %s.%s = %s' % (xk.mod.rel, st.lineno, holder, field, ast.unparse(st.value)[:40]))
    # stores through the data attribute of a handed-out object: <x>.data.other_matches = ...
    for st in walk_fn(xfn):
        if isinstance(st, ast.Assign) and len(st.targets) == 1 and isinstance(st.targets[0], ast.Attribute) and \
                st.targets[0].attr == field and isinstance(st.targets[0].value, ast.Attribute) and not literal_empty(st.value):
            reasons.append('%s:%d %s = ...' % (xk.mod.rel, st.lineno, ast.unparse(st.targets[0])[:40]))
        if isinstance(st, ast.Call) and isinstance(st.func, ast.Attribute) and st.func.attr in ('append', 'extend', 'insert') and \
                isinstance(st.func.value, ast.Attribute) and st.func.value.attr == field:
            reasons.append('%s:%d %s(...)' % (xk.mod.rel, st.lineno, ast.unparse(st.func)[:40]))
    return bool(reasons), '; '.join(sorted(set(reasons)))


def other_path(idx, ppk, pfn, xk, xfn, field='other_matches'):
    """the comprehension / loop in parser.parse that maps a helper over <data>.other_matches
    -> None (no such path) | dict(method, line, live, reason)"""
    ps = params_of(pfn)
    hit = None
    for n in walk_fn(pfn):
        if isinstance(n, (ast.ListComp, ast.GeneratorExp)) and len(n.generators) == 1:
            g = n.generators[0]
            if isinstance(n.elt, ast.Call) and is_self_attr(n.elt.func) and (_attr_chain(g.iter) or [''])[-1] == field:
                hit = (n.elt.func.attr, g.iter, n.lineno)
        elif isinstance(n, ast.For) and (_attr_chain(n.iter) or [''])[-1] == field:
            calls = [c for c in ast.walk(n) if isinstance(c, ast.Call) and is_self_attr(c.func)]
            if calls:
                hit = (calls[0].func.attr, n.iter, n.lineno)
    if hit is None:
        return None
    meth, it, line = hit
    res = {'method': meth, 'line': line}
    ext_live, ext_reason = extractor_attaches(idx, xk, xfn, field)

    def from_extractor(what):
        if ext_live:
            return True, '%s, and the extractor attaches matches (%s)' % (what, ext_reason)
        return False, '%s, and no object extract hands out carries a non-empty %s' % (what, field)

    def rooted_at_param(e):
        ch = _attr_chain(e)
        return bool(ch) and ch[0] in ps
    base = it.value
    live, reason = True, 'iterable %s not understood' % ast.unparse(it)[:40]
    if rooted_at_param(it):
        live, reason = from_extractor('parse iterates %s' % ast.unparse(it))
    elif isinstance(base, ast.Name):
        defs = [(n.value, n) for n in walk_fn(pfn) if isinstance(n, (ast.Assign, ast.AnnAssign)) and n.value is not None and any(
            isinstance(t, ast.Name) and t.id == base.id
            for t in (n.targets if isinstance(n, ast.Assign) else [n.target]))]
        verdicts = []
        for v, st in defs:
            if isinstance(v, ast.Call):
                got = ctor_field_arg(idx, ppk.mod, v, field)
                if got is None:
                    verdicts.append((True, '%s = %s not understood' % (base.id, ast.unparse(v)[:40])))
                elif got[0] == 'default':
                    if got[1] is not None and literal_empty(got[1]):
                        verdicts.append((False, '%s is a fresh %s built without %s (constructor default %s)'
                                         % (base.id, ast.unparse(v.func), field, ast.unparse(got[1]))))
                    else:
                        verdicts.append((True, 'constructor default of %s is not an empty literal' % field))
                else:
                    e = got[1]
                    if literal_empty(e):
                        verdicts.append((False, '%s is built with an empty %s' % (base.id, field)))
                    elif rooted_at_param(e):
                        verdicts.append(from_extractor('%s is built with %s=%s' % (base.id, field, ast.unparse(e)[:50])))
                    else:
                        verdicts.append((True, '%s is built with %s=%s' % (base.id, field, ast.unparse(e)[:50])))
            elif rooted_at_param(v):
                verdicts.append(from_extractor('%s = %s' % (base.id, ast.unparse(v)[:40])))
            else:
                verdicts.append((True, '%s = %s not understood' % (base.id, ast.unparse(v)[:40])))
        if verdicts:
            live = any(l for l, _r in verdicts)
            reason = '; '.join(r_ for l, r_ in verdicts if l == live)
    res['live'], res['reason'] = live, reason
    return res


def dangling_reads(idx, mod, scope, typed):
    """attribute reads `<name>.attr` in scope on names of known class whose class does not define attr
    -> [(text, class name, line)]; locals bound to constructor calls are typed on the way"""
    typed = dict(typed)
    for n in ast.walk(scope):
        if isinstance(n, ast.Assign) and len(n.targets) == 1 and isinstance(n.targets[0], ast.Name) and isinstance(n.value, ast.Call):
            K = idx.resolve_class(mod, n.value.func) if isinstance(n.value.func, (ast.Name, ast.Attribute)) else None
            if K is not None:
                typed[n.targets[0].id] = K
    out = []
    cache = {}
    for n in ast.walk(scope):
        if isinstance(n, ast.Attribute) and isinstance(n.ctx, ast.Load) and isinstance(n.value, ast.Name) and n.value.id in typed:
            K = typed[n.value.id]
            if K.qual not in cache:
                cache[K.qual] = defined_attrs(idx, K)
            names, closed = cache[K.qual]
            if closed and n.attr not in names:
                out.append(('%s.%s' % (n.value.id, n.attr), K.name, n.lineno))
    return sorted(set(out), key=lambda x: (x[2], x[0]))


def analyse_other_path(idx, E, xk, xfn, ppk, pfn, gk, gfn):
    """-> (live, reason) for the other-results branch of get_resolution"""
    construct = '%s other-match path' % qual(ppk, pfn)
    path = other_path(idx, ppk, pfn, xk, xfn)
    if path is None:
        E.ok('C20.other-path', ppk.mod.path, construct, 'parse maps no helper over other_matches', pfn.lineno)
        return False, 'parse builds no other matches'
    elem_cls = None
    for n in walk_fn(xfn):
        if isinstance(n, ast.Call) and isinstance(n.func, (ast.Name, ast.Attribute)):
            K = idx.resolve_class(xk.mod, n.func)
            if K is not None and in_mro(idx, K, 'ExtractResult'):
                elem_cls = K
    if elem_cls is None:
        raise AnalysisError('%s: extract builds no ExtractResult' % xk.mod.rel)
    hk, hfn = idx.find_method(ppk if path['method'] in ppk.methods else ppk, path['method'])
    if hfn is None:
        raise AnalysisError('%s:%d helper %s of the other-match path not found' % (ppk.mod.rel, path['line'], path['method']))
    hps = params_of(hfn)
    if len(hps) != 1:
        raise AnalysisError('%s:%d helper %s does not take exactly one other match' % (hk.mod.rel, hfn.lineno, hfn.name))
    dangling = [('%s.%s' % (hk.name, hfn.name), t, c, ln, hk.mod) for t, c, ln in dangling_reads(idx, hk.mod, hfn, {hps[0]: elem_cls})]
    # what the helper returns is what get_resolution's branch iterates
    ret_cls = None
    for n in walk_fn(hfn):
        if isinstance(n, ast.Return) and n.value is not None:
            v = n.value
            if isinstance(v, ast.Name):
                defs = [a.value for a in walk_fn(hfn) if isinstance(a, ast.Assign) and any(
                    isinstance(t, ast.Name) and t.id == v.id for t in a.targets)]
                v = defs[0] if len(defs) == 1 else None
            if isinstance(v, ast.Call) and isinstance(v.func, (ast.Name, ast.Attribute)):
                ret_cls = idx.resolve_class(hk.mod, v.func)
    if ret_cls is not None:
        for b in walk_fn(gfn):
            if isinstance(b, ast.If) and any(isinstance(x, ast.Attribute) and x.attr == 'other_matches' for x in ast.walk(b.test)):
                for s_ in b.body:
                    for comp in ast.walk(s_):
                        if isinstance(comp, (ast.ListComp, ast.GeneratorExp)):
                            for g in comp.generators:
                                if isinstance(g.target, ast.Name) and (_attr_chain(g.iter) or [''])[-1] == 'other_matches':
                                    dangling += [(qual(gk, gfn), t, c, ln, gk.mod)
                                                 for t, c, ln in dangling_reads(idx, gk.mod, comp, {g.target.id: ret_cls})]
    if not path['live']:
        E.ok('C20.other-path', ppk.mod.path, construct, 'unreachable: ' + path['reason'], path['line'])
        if dangling:
            E.observe('latent on the unreachable other-match path (%s): %s' % (path['reason'], '; '.join(
                '%s reads %s but %s defines no such attribute (%s:%d)' % (w, t, c, m.rel, ln) for w, t, c, ln, m in dangling)))
        return False, path['reason']
    if not dangling:
        E.ok('C20.other-path', ppk.mod.path, construct, 'reachable (%s); every attribute read on it is defined' % path['reason'],
             path['line'])
    for w, t, c, ln, m in dangling:
        E.bad('C20.other-path', m.path, '%s %s' % (w, t), 'reads %s on a %s, which defines no such attribute; path reachable: %s'
              % (t, c, path['reason']),
              'as soon as a second listed expression matches, %s raises AttributeError on %s: inside the parser it is swallowed by '
              "ChoiceModel.parse (no entity at all for 'yes no', 'not ok'), inside get_resolution it escapes recognize_boolean" % (w, t), ln)
    return True, path['reason']


def analyse_score(idx, E, ev, r, xk, xfn, ppk, pfn, gk, gfn, gparam, gdict, gname, sentinel_broken, other_live=(False, '')):
    xctx = Fctx(xk.mod, xk, xfn, {})
    elem_names = set()
    for n in walk_fn(xfn):
        if isinstance(n, ast.Assign) and len(n.targets) == 1 and isinstance(n.targets[0], ast.Name) and isinstance(n.value, ast.Call):
            K = idx.resolve_class(xk.mod, n.value.func)
            if K is not None and in_mro(idx, K, 'ExtractResult'):
                elem_names.add(n.targets[0].id)
    if not elem_names:
        raise AnalysisError('%s: extract builds no ExtractResult' % xk.mod.rel)
    elems = set()
    for nm in sorted(elem_names):
        elems |= ev.eval(ast.Name(id=nm, ctx=ast.Load()), xctx)
    pparam = params_of(pfn)[0]
    ret = ev.returns(Fctx(ppk.mod, ppk, pfn, {pparam: frozenset(elems)}))
    gctx = Fctx(gk.mod, gk, gfn, {gparam: frozenset(ret)})
    construct = "%s['score']" % qual(gk, gfn)
    se = gdict.get('score')
    if se is None:
        E.bad('C20.score', gk.mod.path, construct, 'no score key', 'the resolution carries no score', gfn.lineno)
    else:
        vals = ev.eval(se, gctx)
        formula = any((not isinstance(v, Obj)) and v[0] == 'unk' and 'match_value' in v[1] for v in vals)
        formula_reported = False
        if not vals:
            raise AnalysisError('%s: no producer found for the score' % gk.mod.rel)
        computed = False
        for v in sorted(vals, key=show_val):
            d = 'score <- ' + show_val(v)
            if isinstance(v, Obj) or v[0] in ('const', 'nonempty', 'empty', 'none'):
                E.bad('C20.score', gk.mod.path, construct, d, 'the reported score is not a number', gfn.lineno)
            elif v[0] == 'num':
                E.judge(0.0 <= v[1] and v[2] <= 1.0, 'C20.score', gk.mod.path, construct, d,
                        'a score outside [0, 1] reaches the resolution', gfn.lineno)
            else:
                computed = True
                if formula and sentinel_broken and 'match_value' in v[1]:
                    if formula_reported:
                        continue
                    formula_reported = True
                    E.bad('C20.score', gk.mod.path, construct, 'score <- match_value formula with a not-found value that passes the guard',
                          "match_value's result reaches the resolution while a token that is not found counts as found: "
                          "distance is negative and accuracy exceeds 1 (the extractor scores 'not ok' 1.6)", gfn.lineno)
                else:
                    E.exempt('C20.score', gk.mod.path, construct,
                             'undecided: the bound x <= 1 of a computed score needs a loop-count argument', d, gfn.lineno)
                    E.observe('score producer not decided: ' + show_val(v))
        if not computed and all((not isinstance(v, Obj)) and v[0] == 'num' and v[1] == v[2] for v in vals):
            E.observe('resolution["score"] is only ever the constant %s: %s.parse builds a fresh data object around the '
                      "extractor's one (as its first constructor argument), so the score computed by match_value is dropped "
                      "(recognize_boolean('Yes please', 'en-us') reports score 0.0; the Specs expect e.g. 1.0 for 'Sure!')"
                      % (', '.join(sorted(show_val(v) for v in vals)), ppk.name))

    # other-results branch
    branches = [n for n in walk_fn(gfn) if isinstance(n, ast.If)
                and any(isinstance(x, ast.Attribute) and x.attr == 'other_matches' for x in ast.walk(n.test))]
    oconstruct = '%s other-results branch' % qual(gk, gfn)
    if not branches:
        E.ok('C20.other-matches', gk.mod.path, oconstruct, 'no branch on other_matches', gfn.lineno)
    mutated = []
    for m in {xk.mod, ppk.mod, gk.mod}:
        for n in ast.walk(m.tree):
            if isinstance(n, ast.Call) and isinstance(n.func, ast.Attribute) and n.func.attr in ('append', 'extend', 'insert') \
                    and isinstance(n.func.value, ast.Attribute) and n.func.value.attr == 'other_matches':
                mutated.append('%s:%d' % (m.rel, n.lineno))
            if isinstance(n, ast.AugAssign) and isinstance(n.target, ast.Attribute) and n.target.attr == 'other_matches':
                mutated.append('%s:%d' % (m.rel, n.lineno))
    for b in branches:
        crash = [s for s in b.body if isinstance(s, ast.Assign) and isinstance(s.targets[0], ast.Attribute)
                 and isinstance(s.targets[0].value, ast.Name) and s.targets[0].value.id == gname]
        if isinstance(b.test, ast.UnaryOp):
            raise AnalysisError('%s:%d negated other_matches test not understood' % (gk.mod.rel, b.lineno))
        vals = ev.eval(b.test, gctx)
        empty = bool(vals) and all(v == V_EMPTY for v in vals) and not mutated and not other_live[0]
        if empty:
            E.ok('C20.other-matches', gk.mod.path, oconstruct, 'other_matches is always an empty list: branch dead', b.lineno)
            if crash:
                E.observe('%s: the branch on other_matches assigns an attribute on the resolution dict (AttributeError if ever '
                          'reached); it is dead: other_matches is always [] (the top-match result that carries partial_results '
                          'is discarded by extract)' % qual(gk, gfn))
        elif not crash:
            E.ok('C20.other-matches', gk.mod.path, oconstruct, 'branch reachable but does not assign attributes on the dict', b.lineno)
        elif other_live[0] or any((not isinstance(v, Obj)) and v[0] == 'nonempty' for v in vals) or any(isinstance(v, Obj) for v in vals):
            E.bad('C20.other-matches', gk.mod.path, oconstruct,
                  'other_matches may be non-empty (%s); branch assigns attribute %s on a dict'
                  % (other_live[1] if other_live[0] else sorted(show_val(v) for v in vals)[:3], crash[0].targets[0].attr),
                  'attribute assignment on a dict raises AttributeError outside the try of the model: recognition fails for '
                  'every answer', b.lineno)
        else:
            E.exempt('C20.other-matches', gk.mod.path, oconstruct, 'undecided: emptiness of other_matches not decided%s'
                     % (' (mutated at %s)' % ', '.join(mutated) if mutated else ''),
                     'other_matches <- %s' % sorted(show_val(v) for v in vals)[:3], b.lineno)


def attr_line(cls, attr):
    for st in cls.node.body:
        if isinstance(st, ast.Assign) and any(isinstance(t, ast.Name) and t.id == attr for t in st.targets):
            return st.lineno
    return cls.node.lineno


def analyse_words(idx, E, r, vals, wired, matching, lowered):
    # the rewrite and the matching mode, re-stated from the match loop (and RegExpUtility.get_matches when it is used)
    if matching['kind'] == 'get_matches':
        rcls = None
        for c in idx.classes_by_name.get('RegExpUtility', []):
            if 'get_matches' in c.methods:
                rcls = c
        if rcls is None:
            raise AnalysisError('anchor vanished: RegExpUtility.get_matches')
        mode = matching_mode(rcls.methods['get_matches'], '%s:RegExpUtility.get_matches' % rcls.mod.rel)
    else:
        mode = {'rewritten': matching['rewritten'], 'ci': matching['ci'], 'line': matching['call'].lineno}
    rewrite = None
    if mode['rewritten']:
        scls = None
        for c in idx.classes_by_name.get('StringUtility', []):
            if REWRITE_NAME in c.methods:
                scls = c
        if scls is None:
            raise AnalysisError('anchor vanished: StringUtility.%s' % REWRITE_NAME)
        rewrite = RewriteRunner(idx, scls, scls.methods[REWRITE_NAME])
        E.consulted(scls.mod.path)
    tok = vals['token_regex']
    try:
        ttree = rx.parse(tok)
    except rx.RxError as e:
        raise AnalysisError('%s tokenizer pattern not analysable (%s)' % (r.construct, e))

    def is_sep(ch):
        try:
            return rx.matches(ttree, ch)
        except rx.RxError as e:
            raise AnalysisError('%s tokenizer pattern not analysable (%s)' % (r.construct, e))
    tc, ta = wired['token_regex']
    notsep = [ch for ch in SEPARATOR_POOL if not is_sep(ch)]
    E.judge(not notsep, 'C20.separators', tc.mod.path, '%s.%s' % (tc.name, ta),
            'separators not matched by the tokenizer pattern: %s' % [repr(c) for c in notsep],
            'surrounding blanks / punctuation are not token separators: an answer next to them is not found', attr_line(tc, ta))

    pol = {}
    for slot, tag in (('regex_true', 'true'), ('regex_false', 'false')):
        c, a = wired[slot]
        construct = '%s.%s' % (c.name, a)
        rline = attr_line(c, a)
        A = analyse_polarity(vals[slot], rewrite, mode)
        pol[tag] = A
        if A['compile']:
            E.bad('C20.rewrite', c.mod.path, construct, 'rewritten pattern malformed: ' + A['compile'],
                  'the pattern handed to regex.finditer does not compile: every query raises', rline)
            why = 'not decidable: the matched pattern is malformed (reported under C20.rewrite)'
            for w in sorted(A['listed']):
                if not is_emoji_word(w):
                    E.exempt('C20.word', c.mod.path, '%s %r' % (construct, w), why, 'matched language not available', rline)
                elif len(w) == 1:
                    E.exempt('C20.emoji', c.mod.path, '%s U+%04X' % (construct, ord(w)), why, 'matched language not available', rline)
            E.exempt('C20.residue', c.mod.path, construct, why, 'matched language not available', rline)
            continue
        if mode['rewritten']:
            diffs = escape_differences(normalise_escapes(A['listed_src']), normalise_escapes(A['py_src']))
            E.judge(not diffs, 'C20.rewrite', c.mod.path, '%s escapes' % construct,
                    'every astral escape comes out as the code point it denotes, nothing else changes' if not diffs else '; '.join(diffs),
                    '%s, run as written on the pattern text, does not translate the escapes faithfully: %s'
                    % (REWRITE_NAME, '; '.join(diffs)), rline)
        E.judge(not A.get('matches_empty'), 'C20.rewrite', c.mod.path, construct,
                'rewritten pattern: %d expressions, empty match %s' % (len(A['py']), 'possible' if A.get('matches_empty') else 'impossible'),
                'the pattern can match the empty string', rline)
        ci = A['ci']
        norm = (lambda w: w.lower()) if ci else (lambda w: w)
        live = A['live']
        listed = A['listed']
        words = sorted(w for w in listed if not is_emoji_word(w))
        emoji1 = sorted(w for w in listed if is_emoji_word(w) and len(w) == 1)
        emojin = sorted(w for w in listed if is_emoji_word(w) and len(w) > 1)
        for w in words:
            problems = []
            if norm(w) not in live:
                if w in A['py'] or norm(w) in {norm(x) for x in A['py']}:
                    problems.append('contains a letter the query lower-casing removes while matching is case-sensitive')
                else:
                    problems.append('not matched by the pattern after remove_unicode_matches')
            if not ci and not lowered:
                problems.append('the query is not lower-cased before case-sensitive matching')
            if w[0].isspace() or w[-1].isspace():
                problems.append('begins or ends with whitespace (text is stripped, start/length are not: span and text disagree)')
            if all(ch.isspace() or is_sep(ch) for ch in w):
                problems.append('consists of token separators only')
            E.judge(not problems, 'C20.word', c.mod.path, '%s %r' % (construct, w), '; '.join(problems) or 'survives, stable, no edges',
                    'listed %s expression %r: %s' % ('affirmative' if tag == 'true' else 'negative', w, '; '.join(problems)), rline)
        for w in emoji1:
            E.judge(w in live, 'C20.emoji', c.mod.path, '%s U+%04X' % (construct, ord(w)),
                    'U+%04X %s by the rewritten pattern' % (ord(w), 'matched' if w in live else 'not matched'),
                    "listed %s emoji U+%04X is lost by remove_unicode_matches (its \\uXXXX spelling followed by '|' or '\\' is "
                    "deleted): recognize_boolean(%s, %r) yields nothing"
                    % ('affirmative' if tag == 'true' else 'negative', ord(w), ascii(w), r.culture), rline)
        lost = [w for w in emojin if w not in live]
        if lost:
            E.exempt('C20.emoji', c.mod.path, '%s sequences' % construct,
                     'outside the quantifier (single code points); NotSupportedByDesign for python in the Specs',
                     '%d multi-code-point emoji sequences (skin tones) not matched as a whole' % len(lost), rline)
        listed_norm = {norm(w) for w in listed}
        extra_live = sorted(w for w in live if w not in listed_norm)
        E.judge(not extra_live, 'C20.residue', c.mod.path, construct,
                'beyond the listed expressions: %d dead, live %s' % (len([w for w in A['dead'] if w not in listed]), extra_live[:8]),
                'the rewritten pattern matches text that is not a listed expression: %s' % extra_live[:8], rline)
    if len(pol) == 2 and not pol['true']['compile'] and not pol['false']['compile']:
        T, F = pol['true'], pol['false']
        ci = T['ci'] or F['ci']
        n2 = (lambda w: w.lower()) if ci else (lambda w: w)
        both_l = sorted({n2(w) for w in T['listed']} & {n2(w) for w in F['listed']})
        both_m = sorted(T['live'] & F['live'])
        wt = [w for w in T['listed'] if not is_emoji_word(w)]
        wf = [w for w in F['listed'] if not is_emoji_word(w)]
        good = not both_l and not both_m and wt and wf and T['live'] and F['live']
        E.judge(good, 'C20.disjoint', r.mod.path, '%s TrueRegex / FalseRegex' % r.construct,
                'listed %d / %d, matched %d / %d, in both: %s' % (len(T['listed']), len(F['listed']), len(T['live']), len(F['live']),
                                                                  sorted(set(both_l) | set(both_m))[:8]),
                'an expression is affirmative and negative at once (the affirmative reading wins ties) or a polarity is empty', r.line)
        toks = {}
        for tag, A in pol.items():
            for w in A['live']:
                if ' ' in w:
                    toks.setdefault(tag, []).append(w)
        cross = []
        for tag, other in (('true', 'false'), ('false', 'true')):
            for w in toks.get(tag, []):
                for v in pol[other]['live']:
                    if v in w.split():
                        cross.append('%r (%s) contains %r (%s)' % (w, tag, v, other))
        if cross:
            E.observe('%s: cross-polarity containment, decided by score order only: %s' % (r.construct, '; '.join(sorted(cross))))
    else:
        E.exempt('C20.disjoint', r.mod.path, '%s TrueRegex / FalseRegex' % r.construct,
                 'not decidable: a matched pattern is malformed (reported under C20.rewrite)', 'languages not available', r.line)
    return pol, is_sep, ttree


def analyse_tabulation(idx, E, r, xk, pol, is_sep, ttree, emap, stores, wired, tab, typing_ok=True):
    usable = len(pol) == 2 and not any(A['compile'] for A in pol.values())
    # ---- is_emoji decided on every listed single-code-point emoji
    ucls, efn, tk, tfn = is_emoji_function(idx, xk)
    listed1 = []
    for tag in ('true', 'false'):
        if tag in pol:
            listed1 += [(tag, w) for w in sorted(pol[tag]['listed']) if is_emoji_word(w) and len(w) == 1]
    model = EmojiModel(idx, ucls, efn, [w for _t, w in listed1])
    if efn is not None:
        E.consulted(ucls.mod.path)
    if model.table is not None:
        E.consulted(model.table['path'])
        E.observe('third-party table consulted for is_emoji: %s (%d entries); %s.%s is interpreted as written over it'
                  % (model.table['path'], len(model.table['data']), ucls.name, efn.name))
    where = (ucls.mod.path, '%s.%s' % (ucls.name, efn.name)) if efn is not None else (tk.mod.path, qual(tk, tfn))
    for tag, w in listed1:
        c, a = wired['regex_true' if tag == 'true' else 'regex_false']
        good = model(w)
        how = 'interpreted over the emoji table' if model.table is not None else 'formulation: %s' % model.form
        E.judge(good, 'C20.is-emoji', where[0], '%s U+%04X (%s.%s)' % (where[1], ord(w), c.name, a),
                'is_emoji(U+%04X) = %s (%s)' % (ord(w), good, how),
                'the listed %s emoji U+%04X is not an emoji for the tokenizer: it is discarded as a separator, neither the query '
                'nor the match yields a token and recognize_boolean(%s, %r) reports nothing'
                % ('affirmative' if tag == 'true' else 'negative', ord(w), ascii(w), r.culture),
                efn.lineno if efn is not None else tfn.lineno)
    plain = [ch for ch in ['a', 'z', 'y', '0', '9', '_', ' ', ',', '.', '!', '?', "'"] if model(ch)]
    E.judge(not plain, 'C20.is-emoji', where[0], '%s plain characters' % where[1],
            'letters, digits, blank and punctuation classified as emoji: %s' % [repr(c_) for c_ in plain],
            'ordinary characters are classified as emoji: every letter becomes a token of its own and no word matches',
            efn.lineno if efn is not None else tfn.lineno)
    if tab is None or not usable or not typing_ok:
        if tab is not None:
            E.exempt('C20.scoring', xk.mod.path, '%s %s.extract' % (r.construct, xk.name),
                     'not decidable: %s' % ('a matched pattern is malformed (reported under C20.rewrite)' if not usable else
                                            'the match loop does not pair pattern and type (reported under C20.typing)'),
                     'tabulation not run', None)
        return
    # ---- extract, as written, on token configurations
    types = {}
    for slot, tag in (('regex_true', 'T'), ('regex_false', 'F')):
        ts = [t for s_, t, _l in emap if s_ == slot]
        if not ts:
            return
        types[tag] = ts[-1]
    options = {}
    ek = r.extractor_cls
    for name in ('max_distance', 'allow_partial_match'):
        if name not in stores:
            raise AnalysisError('%s: option %s of the extractor is not set by %s.__init__' % (ek.mod.rel, name, ek.name))
        try:
            options[name] = const_of(idx, ek.mod, stores[name])
        except Unres as e:
            raise AnalysisError('%s: option %s not evaluable (%s)' % (ek.mod.rel, name, e))
    T = Tabulator(idx, xk, pol['true']['live'], pol['false']['live'], types['T'], types['F'], ttree, model, options)
    listed = [(w, 'T') for w in pol['true']['live']] + [(w, 'F') for w in pol['false']['live']]
    xo, xfn = idx.find_method(xk, 'extract')
    phrases, (s_conf, s_fail) = tabulate_scoring(T, listed, is_sep, tab['max_n'])
    for w, n_conf, fail in phrases:
        E.judge(fail is None, 'C20.scoring', xo.mod.path, '%s %s.extract phrase %r' % (r.construct, xo.name, w),
                'contiguous occurrence keeps its candidate and is the reported entity' if fail is None else fail,
                'extract, interpreted as written on sources of up to %d tokens (fillers, the phrase contiguous, one more occurrence '
                'of one of its tokens elsewhere): %s' % (tab['max_n'], fail), xfn.lineno)
    E.judge(s_fail is None, 'C20.scoring', xo.mod.path, '%s %s.extract single-token expressions' % (r.construct, xo.name),
            'every single-token expression alone or between fillers is the one reported entity' if s_fail is None else s_fail,
            'extract, interpreted as written: %s' % s_fail, xfn.lineno)
    p_conf, p_fail = tabulate_punctuation(T, listed, is_sep, small=tab.get('small', False))
    E.judge(p_fail is None, 'C20.scoring', xo.mod.path, '%s %s.extract punctuation contexts' % (r.construct, xo.name),
            'an expression between quotes, brackets, commas, full stops is the one reported entity' if p_fail is None else p_fail,
            'extract, interpreted as written on <punctuation> expression <punctuation>: %s (the tokens of the query no longer '
            'contain the tokens of the match, so match_value is 0 and the match is dropped)' % p_fail, xfn.lineno)
    E.observe('%s: extract interpreted on %d sources (%d phrase configurations up to %d tokens for %s; %d single-token placements; '
              '%d punctuation contexts)'
              % (r.construct, T.runs, sum(n for _w, n, _f in phrases), tab['max_n'], [w for w, _n, _f in phrases], s_conf, p_conf))


def run(chk):
    chk.explanation = ('yes/no polarity: wiring chain resource -> configuration slot -> extractor map -> parser table -> resolution '
                       'per registered culture (table agreement), finite word/emoji languages of TrueRegex / FalseRegex before and '
                       'after the re-stated remove_unicode_matches rewrite (regex language), producers of the reported score '
                       '(abstract evaluation over constructor bindings), sentinel / definite-assignment / span-provenance rules')
    for rid, desc, floor in RULES:
        chk.rule(rid, desc, floor=floor, control=True)
    chk.assume('the query is lower-cased character-wise before matching (C01 decides length preservation); regex.finditer without '
               'flags is case-sensitive; str.strip() removes exactly the whitespace the language abstraction maps to " "')
    chk.assume('L+ treats \\b and look-arounds as always true: membership of a listed expression in the matched language is a '
               'necessary condition for recognising it')
    t = emoji_table()
    if t is not None:
        chk.assume('third-party data consulted: the emoji package table %s is read as data (never imported) to decide is_emoji on the '
                   'listed code points; demojize is modelled as "replaces every code point that is a key of that table"' % t['path'])
    else:
        chk.assume('the emoji package data is not readable: is_emoji is decided from its formulation only')
    chk.assume('tabulation: extract is interpreted as written (sa/ointerp.py); the patterns are stood in for by their enumerated '
               'languages matched leftmost-longest between word boundaries, grapheme slicing by code points, fillers are the '
               'neutral token %r' % FILLER)
    idx = get_index()
    analyse(idx, chk, tab={'max_n': 7})
    chk.exhaustive = True
    controls(chk)


CONTROL_PACKAGE = r"""
import re
import regex
from emoji import demojize


class Culture:
    English = 'en-us'
    Spanish = 'es-es'


class Constants:
    SYS_BOOLEAN_TRUE = 'boolean-true'
    SYS_BOOLEAN_FALSE = 'boolean-false'


class EnglishChoice:
    TokenizerRegex = f'[^\\w\\d]'
    TrueRegex = f'\\b(yes|ok)\\b|(\\uD83D\\uDC4C|\\u0001f44c)'
    FalseRegex = f'\\b(no|not\\s+ok)\\b|(\\uD83D\\uDC4E|\\u0001F44E|\\u0001F590)'


class QueryProcessor:
    @staticmethod
    def to_lower_preserving_length(source):
        return ''.join(c.lower() if len(c.lower()) == 1 else c for c in source)


class StringUtility:
    @staticmethod
    def is_emoji(letter):
        val = demojize(letter)
        if letter in val:
            return False
        else:
            return True

    @staticmethod
    def remove_unicode_matches(string):
        def join_surrogates(m):
            high, low = int(m.group(1), 16), int(m.group(2), 16)
            return '\\U%08X' % (0x10000 + ((high - 0xD800) << 10) + (low - 0xDC00))

        py_regex = re.sub(r'\\u([dD][89abAB][0-9a-fA-F]{2})\\u([dD][c-fC-F][0-9a-fA-F]{2})', join_surrogates, string.pattern)
        return re.sub(r'\\u(000[0-9a-fA-F]{5})', r'\\U\1', py_regex)

    @staticmethod
    def index_of(string, token, position):
        try:
            ret = string.index(token, position)
        except:
            ret = -1
        return ret


class RegExpUtility:
    @staticmethod
    def get_safe_reg_exp(source, flags=0):
        return regex.compile(source, flags=flags)

    @staticmethod
    def get_matches(regexp, source):
        py_regex = StringUtility.remove_unicode_matches(regexp)
        return list(regex.finditer(py_regex, source))


class ExtractResult:
    def __init__(self):
        self.start = 0
        self.length = 0
        self.text = ''
        self.type = ''
        self.data = None


class ParseResult(ExtractResult):
    def __init__(self, source=None):
        super().__init__()
        self.value = None
        if source is not None:
            self.start = source.start
            self.type = source.type
            self.data = source.data


class ModelResult:
    pass


class ChoiceExtractDataResult:
    def __init__(self, source='', score=0.0, other_matches=[]):
        self.source = source
        self.score = score
        self.other_matches = other_matches


class ChoiceParseDataResult:
    def __init__(self, score=0.0, other_matches=[]):
        self.score = score
        self.other_matches = other_matches


class OtherMatchParseResult:
    def __init__(self, score, value):
        self.score = score
        self.value = value


class Options:
    pass


class ChoiceExtractor:
    def __init__(self, config):
        self.config = config

    def extract(self, source):
        results = list()
        partial_results = list()
        lowered = QueryProcessor.to_lower_preserving_length(source)
        source_tokens = self.__tokenize(lowered)
        for (regexp, type_extracted) in self.config.regexes_map.items():
            for match in RegExpUtility.get_matches(regexp, lowered):
                text = match.group()
                match_tokens = self.__tokenize(text)
                top_score = 0.0
                for i in range(len(source_tokens)):
                    score = self.match_value(source_tokens, match_tokens, i)
                    top_score = max(top_score, score)
                if top_score > 0.0:
                    value = ExtractResult()
                    value.start = match.start()
                    value.length = len(text)
                    value.text = source[value.start: value.start + value.length]
                    value.type = type_extracted
                    value.data = ChoiceExtractDataResult(source, top_score)
                    partial_results.append(value)
        if len(partial_results) == 0:
            return results
        partial_results = sorted(partial_results, key=lambda res: res.start)
        if self.config.only_top_match:
            best = 0.0
            top = 0
            for i in range(len(partial_results)):
                if partial_results[i].data.score > best:
                    best = partial_results[i].data.score
                    top = i
            results.append(partial_results[top])
        else:
            results = partial_results
        return results

    def match_value(self, source, match, start_pos):
        matched = 0
        total_deviation = 0
        for token in match:
            pos = StringUtility.index_of(source, token, start_pos)
            if pos >= 0:
                distance = pos - start_pos if matched > 0 else 0
                if distance <= self.config.max_distance:
                    matched = matched + 1
                    total_deviation = total_deviation + distance
                    start_pos = pos + 1
        score = 0.0
        if matched > 0 and (matched == len(match) or self.config.allow_partial_match):
            completeness = matched / len(match)
            accuracy = completeness * (matched / (matched + total_deviation))
            score = 0.4 + 0.6 * (accuracy * (matched / len(source)))
        return score

    def __tokenize(self, source):
        tokens = []
        token = ''
        pattern = regex.compile(self.config.token_regex)
        for char in source:
            if StringUtility.is_emoji(char):
                tokens.append(char)
                if token != '':
                    tokens.append(token)
                    token = ''
            elif pattern.search(char) is None:
                token = token + char
            elif token != '':
                tokens.append(token)
                token = ''
        if token != '':
            tokens.append(token)
        return tokens


class BooleanExtractorConfiguration:
    pass


class EnglishBooleanExtractorConfiguration(BooleanExtractorConfiguration):
    def __init__(self, only_top_match=True):
        self.regex_true = RegExpUtility.get_safe_reg_exp(EnglishChoice.TrueRegex)
        self.regex_false = RegExpUtility.get_safe_reg_exp(EnglishChoice.FalseRegex)
        self.token_regex = RegExpUtility.get_safe_reg_exp(EnglishChoice.TokenizerRegex)
        self.only_top_match = only_top_match


class BooleanExtractor(ChoiceExtractor):
    def __init__(self, config):
        regexes_map = {config.regex_true: Constants.SYS_BOOLEAN_TRUE, config.regex_false: Constants.SYS_BOOLEAN_FALSE}
        options_config = Options()
        options_config.regexes_map = regexes_map
        options_config.token_regex = config.token_regex
        options_config.only_top_match = config.only_top_match
        options_config.allow_partial_match = False
        options_config.max_distance = 2
        ChoiceExtractor.__init__(self, options_config)


class ParserConfiguration:
    pass


class ChoiceParser:
    def __init__(self, config):
        self.config = config

    def parse(self, ext_result):
        result = ParseResult(ext_result)
        data = ChoiceExtractDataResult(ext_result.data)
        result.value = self.config.resolutions.get(result.type)
        result.data = ChoiceParseDataResult(data.score, [self.__to_other_match_result(m) for m in data.other_matches])
        return result

    def __to_other_match_result(self, ext_result):
        parse_result = ParseResult(ext_result)
        ext_data = ChoiceExtractDataResult(ext_result.Data)
        return OtherMatchParseResult(ext_data.score, parse_result.value)


class BooleanParser(ChoiceParser):
    def __init__(self):
        res = {Constants.SYS_BOOLEAN_TRUE: True, Constants.SYS_BOOLEAN_FALSE: False}
        config = ParserConfiguration()
        config.resolutions = res
        ChoiceParser.__init__(self, config)


class ChoiceModel:
    def __init__(self, parser, extractor):
        self.extractor = extractor
        self.parser = parser

    def parse(self, source):
        result = []
        parse_results = []
        try:
            extract_results = self.extractor.extract(source)
            parse_results = [self.parser.parse(e) for e in extract_results]
        except Exception:
            pass
        for o in parse_results:
            model_result = ModelResult()
            model_result.resolution = self.get_resolution(o)
            result.append(model_result)
        return result


class BooleanModel(ChoiceModel):
    def get_resolution(self, sources):
        results = {'value': sources.value, 'score': sources.data.score}
        if sources.data.other_matches:
            results.other_results = [o for o in sources.data.other_matches]
        return results


class ChoiceRecognizer:
    def initialize_configuration(self):
        self.register_model('BooleanModel', Culture.English, lambda options: BooleanModel(
            BooleanParser(), BooleanExtractor(EnglishBooleanExtractorConfiguration())))

    def get_boolean_model(self, culture=None, fallback_to_default_culture=True):
        return self.get_model('BooleanModel', culture, fallback_to_default_culture)
"""

# rule -> edits of the (violation-free) control package after which the rule must fire
CONTROL_EDITS = {
    'C20.registration': [("self.get_model('BooleanModel'", "self.get_model('BoolModel'")],
    'C20.language': [("'BooleanModel', Culture.English, lambda", "'BooleanModel', Culture.Spanish, lambda")],
    'C20.config': [("self.regex_true = RegExpUtility.get_safe_reg_exp(EnglishChoice.TrueRegex)",
                    "self.regex_true = RegExpUtility.get_safe_reg_exp(EnglishChoice.FalseRegex)")],
    'C20.polarity': [("Constants.SYS_BOOLEAN_TRUE: True", "Constants.SYS_BOOLEAN_TRUE: False")],
    'C20.typing': [("value.type = type_extracted", "value.type = Constants.SYS_BOOLEAN_TRUE")],
    'C20.single': [("results.append(partial_results[top])", "results.extend(partial_results)")],
    'C20.rewrite': [(r"r'\\U\1', py_regex)", r"r'\\U', py_regex)")],
    'C20.word': [("(yes|ok)", "(yes|ok |Yep)")],
    'C20.emoji': [(r"(\\uD83D\\uDC4C|\\u0001f44c)", r"(\\uD83D\\uDC4D|\\u0001f44c)"), ("(low - 0xDC00))", "(low - 0xDC01))")],
    'C20.residue': [("(low - 0xDC00))", "(low - 0xDC01))")],
    'C20.disjoint': [(r"(no|not\\s+ok)", r"(no|yes|not\\s+ok)")],
    'C20.separators': [(r"f'[^\\w\\d]'", r"f'[^\\w\\d,]'")],
    'C20.score': [("def __init__(self, source='', score=0.0, other_matches=[]):", "def __init__(self, source='', score=2.0, other_matches=[]):")],
    'C20.other-matches': [("def __init__(self, source='', score=0.0, other_matches=[]):",
                           "def __init__(self, source='', score=0.0, other_matches=[None]):")],
    'C20.other-path': [("data = ChoiceExtractDataResult(ext_result.data)", "data = ext_result.data"),
                       ("value.data = ChoiceExtractDataResult(source, top_score)", "value.data = ChoiceExtractDataResult(source, top_score, [value])")],
    'C20.sentinel': [("ret = -1", "ret = 1")],
    'C20.unbound': [("ret = -1", "ret = 1"), ("        parse_results = []\n        try:", "        try:")],
    'C20.span': [("value.start = match.start()", "value.start = lowered.index(match)")],
    'C20.scoring': [("                for i in range(len(source_tokens)):\n                    score = self.match_value(source_tokens, match_tokens, i)\n"
                     "                    top_score = max(top_score, score)\n",
                     "                top_score = self.match_value(source_tokens, match_tokens, 0)\n")],
    'C20.is-emoji': [("from emoji import demojize", "from emoji import EMOJI_DATA, STATUS"),
                     ("        val = demojize(letter)\n        if letter in val:\n            return False\n        else:\n            return True\n",
                      "        entry = EMOJI_DATA.get(letter)\n        return entry is not None and entry['status'] <= STATUS['fully_qualified']\n")],
}


# the same package in the shape of the repaired tree: surrogate pairs joined by a nested helper, matching in the extract loop
CONTROL_RESHAPE = [
    ("            for match in RegExpUtility.get_matches(regexp, lowered):\n",
     "            for match in regex.finditer(StringUtility.remove_unicode_matches(regexp), lowered):\n"),
    (r"TrueRegex = f'\\b(yes|ok)\\b|(\\uD83D\\uDC4C|\\u0001f44c)'", r"TrueRegex = f'\\b(yes|ok)\\b|(\\uD83D\\uDC4D|\\u270B|\\u0001f44c)'"),
]
CONTROL_EDITS_2 = {
    'C20.typing': [("regex.finditer(StringUtility.remove_unicode_matches(regexp), lowered)",
                    "regex.finditer(StringUtility.remove_unicode_matches(self.config.token_regex), lowered)")],
    'C20.span': [("value.start = match.start()", "value.start = lowered.find(match.group())")],
    'C20.word': [("regex.finditer(StringUtility.remove_unicode_matches(regexp), lowered)",
                  "regex.finditer(StringUtility.remove_unicode_matches(regexp), source)")],
    'C20.scoring': [("            elif pattern.search(char) is None:\n", "            elif pattern.search(char) is None or (char == \"'\" and token != ''):\n")],
}


def _edited(src, edits, what):
    for old, new in edits:
        if old not in src:
            raise AnalysisError('control package: edit text for %s not found (%r)' % (what, old[:40]))
        src = src.replace(old, new, 1)
    return src


def controls(chk):
    """every rule's detector is run on embedded miniature choice packages (the shape before and after the repairs of the
    tree): silent on the correct ones, and it must fire after the edit recorded for the rule (positive control)"""
    pkg2 = _edited(CONTROL_PACKAGE, CONTROL_RESHAPE, 'reshape')
    for tag, pkg in (('control', CONTROL_PACKAGE), ('control2', pkg2)):
        ix, _m = mini_index(pkg, tag)
        base = Recorder()
        analyse(ix, base, tab={'max_n': 5, 'small': True})
        if base.bad_rules:
            raise AnalysisError('%s package: the unedited package is flagged by %s %s'
                                % (tag, sorted(base.bad_rules), list(base.bad_rules.values())[0][:1]))
    fired = {}
    for tag, pkg, table in (('control', CONTROL_PACKAGE, CONTROL_EDITS), ('control2', pkg2, CONTROL_EDITS_2)):
        for rid, edits in table.items():
            ix, _m = mini_index(_edited(pkg, edits, rid), '%s-%s' % (tag, rid))
            rec = Recorder()
            try:
                analyse(ix, rec, tab={'max_n': 5, 'small': True} if rid == 'C20.scoring' else None)
            except AnalysisError as e:
                raise AnalysisError('%s for %s could not be analysed: %s' % (tag, rid, e))
            fired.setdefault(rid, []).append(rid in rec.bad_rules)
    for rid, _desc, _floor in RULES:
        chk.control(rid, bool(fired.get(rid)) and all(fired[rid]))
