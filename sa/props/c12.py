"""C12 - entities returned by one call never overlap (partial: the overlap resolvers, by tabulation over interval order types).

What is decided.  Disjointness of a model's output is established by a handful of small resolver algorithms that touch their
inputs only through comparisons of span end points:

  C12.sweep        BaseNumberExtractor.extract / SequenceExtractor.extract: the matched[] sweep turns any set of (possibly
                   overlapping) regex matches into results that are pairwise disjoint, each exactly one of the matches; an
                   isolated match is always reported.
  C12.merge-tokens merge_all_tokens (every date-time sub-extractor ends in it): for every list of tokens the results are
                   pairwise disjoint, each is one of the input tokens with text = source slice, and no input token is lost
                   without an overlapping survivor.
  C12.add-to       BaseMergedExtractor.add_to / ChineseMergedExtractor.add_to (merge of the sub-extractors' results): starting
                   from pairwise disjoint accepted spans the result is again pairwise disjoint; a new span that overlaps
                   nothing is appended; one that covers everything it overlaps is kept, one lying inside an accepted span is
                   not; untouched spans stay; nothing disappears without an overlapping survivor (which of two crossing
                   spans wins is the resolver's choice: the base keeps the accepted one, the Chinese variant the longer).
  C12.model-filter AbstractNumberWithUnitModel.parse: what the model returns for the spans its extractor hands it.

Each algorithm is read from /repo's AST on every run and evaluated by sa/ointerp.py (a whitelisting interpreter; no repository
code runs) on EVERY configuration of spans on a small grid; because the algorithms only compare end points, a grid with as
many points as there are end points realises every order type.  ExtractResult.overlap / cover / end and Token's properties are
interpreted from their own ASTs, so a change there is decided too.

  C12.add-mod / C12.unit-candidates / C12.compound-groups / C12.compound (documented at their definitions below): the steps
                   that grow entities over modifier words, select currency candidates around numbers, join neighbouring
                   currency candidates into compounds, and split a currency compound into amounts.

What is not decided: which candidate spans the regex patterns produce for a given sentence, the sub-extractors' own merge
steps before merge_all_tokens, and therefore model-level disjointness for a concrete input.  Configurations in which a resolver today lets two overlapping spans survive are genuine
defects with reproducing inputs; they are listed in known_findings.json by configuration class.
"""
import ast
import itertools

from ..core import AnalysisError
from ..index import get_index
from ..ointerp import FuncRef, Interp, Native, Obj, PyExc, native

LEVEL = 'other'
DESIGN_REF = 'DESIGN.md#c12'
META = {
    'text': 'C12 (partial): the overlap resolvers - matched[] sweep of the number and sequence extractors, merge_all_tokens, '
            'add_to of the merged date-time extractors, the number-with-unit model filter - keep their output pairwise disjoint '
            'on every configuration of candidate spans (all interval order types up to the stated sizes); the steps that grow or '
            'split entities afterwards - add_mod of both merged extractors (every token string up to the stated length, every list '
            'order), the currency candidate selection of NumberWithUnitExtractor.extract (every short text over digit / unit / '
            'blank), the currency extractor\'s joining of neighbouring candidates into compounds (every short item / separator '
            'sequence), the currency parser\'s compound splitting (every item sequence) - keep them disjoint',
    'note': 'Not decided: which candidates the patterns produce for a sentence; sub-extractor merges before merge_all_tokens; '
            'model-level disjointness on a concrete input. The token / item languages of the growth and split tabulations abstract '
            'the resource patterns to words (stated in each rule). Configurations where a step lets overlapping spans survive are '
            'listed known findings with reproducing inputs.',
    'technique': 'closed-helper tabulation: resolver functions interpreted from their ASTs (whitelisting interpreter, no '
                 'execution of repository code) on all span configurations of a finite grid = all interval order types',
}

TEXT = 'abcdefghij'


# ---------------------------------------------------------------------------------------------------------------
# helpers

def spans(grid, minlen=1):
    """inclusive (start, end) spans on 0..grid-1"""
    return [(s, e) for s in range(grid) for e in range(s + minlen - 1, grid)]


def overlap(a, b):
    return not (a[0] > b[1] or b[0] > a[1])


def disjoint_all(xs):
    xs = sorted(xs)
    return all(not overlap(a, b) for a, b in itertools.combinations(xs, 2))


def rel(v, d):
    """relation of span v to span d (inclusive ends)"""
    if not overlap(v, d):
        return 'apart'
    if v == d:
        return 'equal'
    if v[0] <= d[0] and v[1] >= d[1]:
        return 'covers'
    if d[0] <= v[0] and d[1] >= v[1]:
        return 'inside'
    return 'crosses'


def mk_er(it, er_cls, s, e, typ='t'):
    o = Obj(er_cls, {})
    o.attrs.update({'start': s, 'length': e - s + 1, 'text': TEXT[s:e + 1], 'type': typ, 'data': None, 'meta_data': None})
    return o


def er_span(o):
    s, l = o.attrs.get('start'), o.attrs.get('length')
    if not isinstance(s, int) or not isinstance(l, int):
        raise AnalysisError('result object without integer start/length: %r' % (o,))
    return (s, s + l - 1)


# ---------------------------------------------------------------------------------------------------------------
# C12.add-to

def rule_add_to(chk, idx, tier):
    rid = 'C12.add-to'
    chk.rule(rid, 'add_to keeps the accepted spans pairwise disjoint and keeps exactly one covering interpretation, on every '
                  'order type of (accepted spans, new span)', floor=8, control=True)
    er_cls = idx.cls('recognizers_text.extractor.ExtractResult')
    # the accepted list is ordered by sub-extractor, not by position: every permutation of the accepted spans is tried
    grid = 6 if tier == 'quick' else 7
    maxd = 3
    sp = spans(grid)
    dests = [()]
    for k in range(1, maxd + 1):
        for comb in itertools.combinations(sp, k):
            if disjoint_all(comb):
                dests.append(comb)
    targets = []
    for cname in ('recognizers_date_time.date_time.base_merged.BaseMergedExtractor',
                  'recognizers_date_time.date_time.chinese.merged_extractor.ChineseMergedExtractor'):
        c = idx.cls(cname)
        k, fn = idx.find_method(c, 'add_to')
        if fn is None:
            raise AnalysisError('anchor vanished: %s.add_to' % cname)
        if (k, fn) not in [(a, b) for _c, a, b in targets]:
            targets.append((c, k, fn))
    for c, k, fn in targets:
        chk.consulted(k.mod.path)
        chk.consulted(er_cls.mod.path)
        classes = {}
        runs = 0
        for D in dests:
            orders = sorted(set(itertools.permutations(D)))
            for Dord in orders:
                for v in sp:
                    it = Interp(idx, where='%s.add_to' % k.name, budget=200000)
                    selfo = Obj(c, {'options': 0})
                    dl = [mk_er(it, er_cls, s, e) for s, e in Dord]
                    vo = mk_er(it, er_cls, v[0], v[1], 'new')
                    from ..ointerp import FuncRef
                    try:
                        out = it.call_function(FuncRef(k.mod, fn, k), [dl, [vo], TEXT], {}, None, selfobj=selfo)
                    except PyExc as ex:
                        out = ex
                    runs += 1
                    rels = sorted(rel(v, d) for d in D)
                    oidx = [i for i, d in enumerate(Dord) if overlap(v, d)]
                    contiguous = (not oidx) or (oidx[-1] - oidx[0] + 1 == len(oidx))
                    key = (len(D), tuple(rels), contiguous)
                    st = classes.setdefault(key, {'n': 0, 'bad': [], 'overlapping': []})
                    st['n'] += 1
                    if isinstance(out, PyExc):
                        st['bad'].append((Dord, v, 'raises %s' % out))
                        continue
                    if not isinstance(out, list) or not all(isinstance(o, Obj) for o in out):
                        raise AnalysisError('%s.add_to returned %r' % (k.name, out))
                    got = sorted(er_span(o) for o in out)
                    over = [d for d in D if overlap(v, d)]
                    cov = [d for d in over if rel(v, d) == 'covers']
                    inside = [d for d in over if rel(v, d) in ('inside', 'equal')]
                    why = None
                    if not set(got) <= set(list(D) + [v]):
                        why = 'result %s invents a span' % (got,)
                    elif len(set(got)) != len(got):
                        why = 'result %s reports a span twice' % (got,)
                    elif not over and got != sorted(list(D) + [v]):
                        why = 'result %s, expected %s: a span that overlaps nothing is appended, nothing else changes' % (
                            got, sorted(list(D) + [v]))
                    elif any(d not in got for d in D if not overlap(v, d)):
                        why = 'result %s loses an accepted span the new one does not touch' % (got,)
                    elif over and cov and len(cov) == len(over) and v not in got:
                        why = 'result %s: the new span covers everything it overlaps but is not kept' % (got,)
                    elif inside and v in got and v not in D:
                        why = 'result %s: the new span lies inside an accepted one but is kept' % (got,)
                    elif any(not any(overlap(x, g) for g in got) for x in list(D) + [v]):
                        why = 'result %s: a span disappears without an overlapping survivor' % (got,)
                    if not disjoint_all(got):
                        st['overlapping'].append((Dord, v, got))
                    elif why:
                        st['bad'].append((Dord, v, why))
        # report per relation pattern, independent of how many untouched ('apart') spans stand around and of the tier's sizes
        fam = {}
        for (n, rels, contiguous), st in classes.items():
            core = (tuple(sorted(set(r for r in rels if r != 'apart'))), contiguous)
            f = fam.setdefault(core, {'n': 0, 'bad': [], 'overlapping': []})
            f['n'] += st['n']
            f['nbad'] = f.get('nbad', 0) + len(st['bad'])
            f['nover'] = f.get('nover', 0) + len(st['overlapping'])
            f['bad'].extend(st['bad'][:2])
            f['overlapping'].extend(st['overlapping'][:2])
        for core in sorted(fam):
            st = fam[core]
            core_rels, contiguous = core
            desc = 'new span %s' % (' and '.join({'covers': 'covers an accepted span', 'crosses': 'crosses an accepted span',
                                                  'inside': 'lies inside an accepted span', 'equal': 'equals an accepted span'}[r]
                                                 for r in core_rels) if core_rels else 'touches no accepted span')
            if core_rels:
                desc += '; the overlapped entries are %s in the accepted list' % ('consecutive' if contiguous else 'not consecutive')
            construct = '%s.add_to[%s]' % (k.name, desc)
            if st['overlapping']:
                D, v, got = sorted(st['overlapping'], key=lambda t: (len(t[0]), t))[0]
                chk.bad(rid, k.mod.path, construct, 'two overlapping spans survive',
                        '%s.add_to: when the %s, two overlapping spans survive (%d of the %d configurations of this kind), '
                        'e.g. accepted list %s + new %s -> %s' % (k.name, desc, st['nover'], st['n'], list(D), v, got), fn.lineno)
            elif st['bad']:
                D, v, why = sorted(st['bad'], key=lambda t: (len(t[0]), t))[0]
                chk.bad(rid, k.mod.path, construct, 'wrong survivor',
                        '%s.add_to: accepted %s + new %s: %s' % (k.name, list(D), v, why), fn.lineno)
            else:
                chk.ok(rid, k.mod.path, construct, 'pairwise disjoint, expected survivors', fn.lineno)
        chk.observe('C12.add-to: %s.add_to interpreted on %d configurations (grid %d, up to %d accepted spans, every list order)'
                    % (k.name, runs, grid, maxd))
    # positive control: an add_to that appends whatever comes
    ctl = ast.parse('def add_to(self, destinations, source, text):\n    for value in source:\n        destinations.append(value)\n'
                    '    return destinations\n').body[0]
    it = Interp(idx, where='control')
    from ..ointerp import FuncRef
    out = it.call_function(FuncRef(er_cls.mod, ctl, None), [None, [mk_er(it, er_cls, 0, 3)], [mk_er(it, er_cls, 2, 5)], TEXT], {})
    chk.control(rid, not disjoint_all([er_span(o) for o in out]))


# ---------------------------------------------------------------------------------------------------------------
# C12.merge-tokens

def rule_merge_tokens(chk, idx, tier):
    rid = 'C12.merge-tokens'
    chk.rule(rid, 'merge_all_tokens returns pairwise disjoint results, each one of the input tokens with the matching source '
                  'slice, and loses no token without an overlapping survivor', floor=3, control=True)
    um = idx.mod('recognizers_date_time.date_time.utilities')
    fn = um.funcs.get('merge_all_tokens')
    tok = um.classes.get('Token')
    if fn is None or tok is None:
        raise AnalysisError('anchor vanished: merge_all_tokens / Token')
    chk.consulted(um.path)
    from ..ointerp import FuncRef
    grid = 5 if tier == 'quick' else 6
    maxn = 3
    toks = [(s, e) for s in range(grid) for e in range(s + 1, grid + 1)]       # end exclusive
    for n in range(1, maxn + 1):
        bad = []
        runs = 0
        for combo in itertools.product(toks, repeat=n):
            it = Interp(idx, where='merge_all_tokens', budget=100000)
            tl = [it.instantiate(tok, [s, e], {}, None) for s, e in combo]
            try:
                out = it.call_function(FuncRef(um, fn, None), [tl, TEXT, 'x'], {})
            except PyExc as ex:
                bad.append((combo, 'raises %s' % ex))
                continue
            runs += 1
            got = [er_span(o) for o in out]
            inc = [(s, e - 1) for s, e in combo]
            if not disjoint_all(got) or len(set(got)) != len(got):
                bad.append((combo, 'overlapping results %s' % sorted(got)))
            elif not set(got) <= set(inc):
                bad.append((combo, 'result %s is not one of the tokens' % sorted(set(got) - set(inc))))
            elif any(o.attrs.get('text') != TEXT[o.attrs['start']:o.attrs['start'] + o.attrs['length']] for o in out):
                bad.append((combo, 'text is not the source slice'))
            elif any(not any(overlap(t, g) for g in got) for t in inc):
                bad.append((combo, 'a token is lost without an overlapping survivor: %s -> %s' % (inc, sorted(got))))
        construct = 'merge_all_tokens[%d token(s), all orders]' % n
        if bad:
            chk.bad(rid, um.path, construct, '%d of %d configurations' % (len(bad), len(toks) ** n),
                    'merge_all_tokens: tokens %s: %s' % (list(bad[0][0]), bad[0][1]), fn.lineno)
        else:
            chk.ok(rid, um.path, construct, 'all %d configurations' % runs, fn.lineno)
    ctl = ast.parse('def merge_all_tokens(tokens, source, name):\n    out = []\n    for t in tokens:\n        r = ExtractResult()\n'
                    '        r.start = t.start\n        r.length = t.length\n        r.text = source[t.start:t.start + t.length]\n'
                    '        out.append(r)\n    return out\n').body[0]
    it = Interp(idx, where='control')
    out = it.call_function(FuncRef(um, ctl, None), [[it.instantiate(tok, [0, 3], {}, None), it.instantiate(tok, [2, 4], {}, None)], TEXT, 'x'], {})
    chk.control(rid, not disjoint_all([er_span(o) for o in out]))


# ---------------------------------------------------------------------------------------------------------------
# C12.sweep

def fake_match(s, e):
    """stand-in for a regex match object (end exclusive)"""
    tbl = {}
    tbl['start'] = native(lambda it, a, k: s)
    tbl['end'] = native(lambda it, a, k: e)
    tbl['group'] = native(lambda it, a, k: TEXT[s:e])
    tbl['span'] = native(lambda it, a, k: (s, e))
    return Native(tbl, 'match[%d:%d]' % (s, e))


def rule_sweep(chk, idx, tier):
    rid = 'C12.sweep'
    chk.rule(rid, 'the matched[] sweep reports pairwise disjoint results, each exactly one regex match; an isolated match is '
                  'always reported', floor=2, control=True)
    from ..ointerp import FuncRef
    n = 6
    src = TEXT[:n]
    ms = [(s, e) for s in range(n) for e in range(s + 1, n + 1)]
    maxm = 3 if tier == 'quick' else 4
    targets = [('recognizers_number.number.extractors.BaseNumberExtractor', 'extract'),
               ('recognizers_sequence.sequence.extractors.SequenceExtractor', 'extract')]
    for cname, mname in targets:
        c = idx.cls(cname)
        fn = c.methods.get(mname)
        if fn is None:
            raise AnalysisError('anchor vanished: %s.%s' % (cname, mname))
        chk.consulted(c.mod.path)
        bad = []
        runs = 0
        for k in range(1, maxm + 1):
            for combo in itertools.combinations(ms, k):
                # every way of attributing the matches to two patterns such that matches of one pattern do not overlap
                for assign in itertools.product((0, 1), repeat=k):
                    if assign[0] != 0:
                        continue
                    ok = True
                    for p in (0, 1):
                        grp = [(s, e - 1) for (s, e), a in zip(combo, assign) if a == p]
                        if not disjoint_all(grp):
                            ok = False
                    if not ok:
                        continue
                    fm = {0: [], 1: []}
                    for (s, e), a in zip(combo, assign):
                        fm[a].append(fake_match(s, e))

                    def finditer(it, args, kwargs, fm=fm):
                        return list(fm[args[0]])
                    hooks = {'regex.finditer': finditer}
                    it = Interp(idx, hooks=hooks, where='%s.%s' % (c.name, mname), budget=200000)
                    selfo = Obj(c, {'regexes': [Obj(None, {'re': 0, 'val': 'A'}), Obj(None, {'re': 1, 'val': 'B'})],
                                    '_extract_type': 't', '_negative_number_terms': None, 'ambiguity_filters_dict': None})
                    try:
                        out = it.call_function(FuncRef(c.mod, fn, c), [src], {}, None, selfobj=selfo)
                    except PyExc as ex:
                        bad.append((combo, assign, 'raises %s' % ex))
                        continue
                    runs += 1
                    got = [er_span(o) for o in out]
                    inc = [(s, e - 1) for s, e in combo]
                    if not disjoint_all(got) or len(set(got)) != len(got):
                        bad.append((combo, assign, 'overlapping results %s' % sorted(got)))
                    elif not set(got) <= set(inc):
                        bad.append((combo, assign, 'result %s is not one of the matches' % sorted(set(got) - set(inc))))
                    else:
                        for t in inc:
                            alone = all(o == t or (o[1] < t[0] - 1 or o[0] > t[1] + 1) for o in inc)
                            if alone and t not in got:
                                bad.append((combo, assign, 'isolated match %s is not reported' % (t,)))
                                break
        construct = '%s.%s[up to %d matches of two patterns on %d characters]' % (c.name, mname, maxm, n)
        if bad:
            chk.bad(rid, c.mod.path, construct, '%d failing configurations' % len(bad),
                    '%s.%s: matches %s (pattern attribution %s): %s' % (c.name, mname, list(bad[0][0]), bad[0][1], bad[0][2]), fn.lineno)
        else:
            chk.ok(rid, c.mod.path, construct, 'all %d configurations' % runs, fn.lineno)
    chk.control(rid, not disjoint_all([(0, 3), (2, 5)]) and disjoint_all([(0, 1), (2, 5)]))


# ---------------------------------------------------------------------------------------------------------------
# C12.model-filter

def rule_model_filter(chk, idx, tier):
    rid = 'C12.model-filter'
    chk.rule(rid, 'AbstractNumberWithUnitModel.parse returns pairwise disjoint entities for the spans its extractor hands it',
             floor=3, control=True)
    from ..ointerp import FuncRef
    c = idx.cls('recognizers_number_with_unit.number_with_unit.models.AbstractNumberWithUnitModel')
    fn = c.methods.get('parse')
    if fn is None:
        raise AnalysisError('anchor vanished: AbstractNumberWithUnitModel.parse')
    chk.consulted(c.mod.path)
    grid = 6
    sp = spans(grid)
    classes = {}
    for k in (1, 2):
        for combo in (list(itertools.permutations(sp, 2)) + [(x, x) for x in sp]) if k == 2 else [(s,) for s in sp]:

            def extract(it, args, kwargs, combo=combo):
                return [Obj(None, {'start': s, 'length': e - s + 1, 'text': TEXT[s:e + 1], 'type': 't', 'data': None})
                        for s, e in combo]

            def parse(it, args, kwargs):
                er = args[0]
                return Obj(None, {'start': er.attrs['start'], 'length': er.attrs['length'], 'text': er.attrs['text'],
                                  'value': 'v', 'resolution_str': 'v', 'type': 't', 'data': None})
            item = Obj(None, {'extractor': Native({'extract': native(extract)}, 'extractor'),
                              'parser': Native({'parse': native(parse)}, 'parser')})
            hooks = {'QueryProcessor.preprocess': lambda it, args, kwargs: args[0]}
            it = Interp(idx, hooks=hooks, where='AbstractNumberWithUnitModel.parse', budget=100000)
            selfo = Obj(c, {'extractor_parser': [item], 'model_type_name': 'x'})
            try:
                out = it.call_function(FuncRef(c.mod, fn, c), [TEXT[:grid]], {}, None, selfobj=selfo)
            except PyExc as ex:
                raise AnalysisError('AbstractNumberWithUnitModel.parse raises %s under interpretation' % ex)
            got = []
            for o in out:
                s, e = o.attrs.get('start'), o.attrs.get('end')
                got.append((s, e))
            r = 'single' if k == 1 else rel(combo[1], combo[0])
            st = classes.setdefault(r, {'n': 0, 'bad': []})
            st['n'] += 1
            if not disjoint_all(got) or len(set(got)) != len(got):
                st['bad'].append((combo, sorted(got)))
            elif k == 2 and r == 'apart' and sorted(got) != sorted(combo):
                st['bad'].append((combo, sorted(got)))
            elif not got:
                st['bad'].append((combo, got))
    for r in ('single', 'apart', 'equal', 'covers', 'inside', 'crosses'):
        st = classes.get(r)
        if st is None:
            raise AnalysisError('C12.model-filter: relation class %s not generated' % r)
        what = {'single': 'one span', 'apart': 'two spans apart', 'equal': 'the same span twice',
                'covers': 'a second span that covers the first', 'inside': 'a second span inside the first',
                'crosses': 'a second span that crosses the first'}[r]
        construct = 'AbstractNumberWithUnitModel.parse[%s]' % what
        if st['bad']:
            combo, got = st['bad'][0]
            chk.bad(rid, c.mod.path, construct, 'overlapping entities returned' if r not in ('single', 'apart') else 'entities lost or duplicated',
                    'AbstractNumberWithUnitModel.parse: when the extractor(s) hand it %s, e.g. %s, the model returns %s%s'
                    % (what, list(combo), got, '' if r in ('single', 'apart') else
                       ' - its filter only refuses a new result that contains an earlier one'), fn.lineno)
        else:
            chk.ok(rid, c.mod.path, construct, 'one entity per character' if r not in ('single', 'apart') else 'returned as they are',
                   fn.lineno)
    chk.control(rid, rel((0, 3), (2, 5)) == 'crosses' and rel((0, 5), (2, 3)) == 'covers')


def run(chk):
    chk.explanation = ('overlap resolvers interpreted from their ASTs on every configuration of candidate spans of a finite grid '
                       '(all interval order types): matched[] sweep, merge_all_tokens, add_to, number-with-unit model filter')
    idx = get_index()
    tier = chk.tier if hasattr(chk, 'tier') else 'quick'
    rule_sweep(chk, idx, tier)
    rule_merge_tokens(chk, idx, tier)
    rule_add_to(chk, idx, tier)
    rule_model_filter(chk, idx, tier)
    chk.assume('the resolvers compare spans only through start / end / length (checked implicitly: anything else is outside the '
               'interpreted subset and fails closed); sub-extractor results entering add_to are pairwise disjoint per extractor '
               '(merge_all_tokens, decided above)')


# ---------------------------------------------------------------------------------------------------------------
# C12.add-mod: the step that grows entities over neighbouring modifier words ("after <X>", "<X> or later").  The merged
# extractors' add_mod (and the helpers it calls: try_merge_modifier_token, has_token_index, RegExpUtility.match_begin,
# ConditionalMatch) is interpreted from its AST on token strings: X = an entity, lower-case letters = one word each, every
# modifier pattern of the configuration is one of those words (the word shared by the prefix pattern "after" and the suffix
# pattern "or after" is shared here too, as in the English resources).  Pattern objects and match objects are stubs of the
# checker (literal search); nothing of the repository or of the regex engine runs.  Required for every string of at most N
# tokens and EVERY order of the entity list (add_to orders it by sub-extractor, not by position): the grown spans stay
# pairwise disjoint, each contains the span it grew from, lies inside the text, and its text is the slice it addresses.

ADDMOD = {
    'recognizers_date_time.date_time.base_merged.BaseMergedExtractor': {
        'patterns': {'around_regex': 'r', 'before_regex': 'b', 'after_regex': 'a', 'since_regex': 's', 'equal_regex': 'q',
                     'suffix_after_regex': ('o', 'a')},
        'config': {'check_both_before_after': False, 'ambiguous_range_modifier_prefix': None,
                   'potential_ambiguous_range_regex': None},
        # (alphabet, longest string); strings over a later alphabet are only run when they use a letter the earlier ones lack
        'quick': [(['X', 'w', 'b', 'a', 'o'], 5), (['X', 'o', 'a', 'r'], 5), (['X', 'a', 's', 'q'], 4)],
        'thorough': [(['X', 'w', 'b', 'a', 'o'], 6), (['X', 'o', 'a', 'r', 'b'], 6), (['X', 'a', 's', 'q', 'o'], 5)], 'joiner': ' ',
    },
    'recognizers_date_time.date_time.chinese.merged_extractor.ChineseMergedExtractor': {
        'patterns': {'before_regex': 'b', 'after_regex': 'a', 'until_regex': 'u', 'since_prefix_regex': 's',
                     'since_suffix_regex': 't', 'equal_regex': 'q'},
        'config': {},
        'quick': [(['X', 'w', 'b', 'u', 'a'], 5), (['X', 'u', 's', 't', 'q'], 4)],
        'thorough': [(['X', 'w', 'b', 'u', 'a'], 6), (['X', 'u', 's', 't', 'q', 'a'], 5)], 'joiner': '',
    },
}
ENTITY_WORD = 'xx'


def _lit_spans(words, text, joiner):
    """occurrences of the word sequence `words` in text (words separated by optional blanks): [(start, end)]"""
    out = []
    first = words[0]
    i = text.find(first)
    while i >= 0:
        j, ok = i + len(first), True
        for w in words[1:]:
            k = j
            while k < len(text) and text[k] == ' ':
                k += 1
            if text.startswith(w, k) and (k > j or joiner == ''):
                j = k + len(w)
            else:
                ok = False
                break
        if ok:
            out.append((i, j))
        i = text.find(first, i + 1)
    return out


def _stub_match(text, s, e):
    tbl = {'start': native(lambda it, a, k: s), 'end': native(lambda it, a, k: e),
           'group': native(lambda it, a, k: text[s:e]), 'span': native(lambda it, a, k: (s, e)), 'string': text}
    return Native(tbl, 'match[%d:%d]' % (s, e))


def _stub_pattern(words, joiner):
    words = (words * 2,) if isinstance(words, str) else tuple(w * 2 for w in words)

    def finditer(it, a, k):
        text = a[0]
        if not isinstance(text, str):
            raise PyExc('TypeError: expected string')
        out, last = [], 0
        for s, e in _lit_spans(words, text, joiner):
            if s >= last:
                out.append(_stub_match(text, s, e))
                last = e
        return out

    def search(it, a, k):
        r = finditer(it, a, k)
        return r[0] if r else None

    def match(it, a, k):
        r = finditer(it, a, k)
        return r[0] if r and r[0].table['start'](it, [], {}) == 0 else None
    return Native({'finditer': native(finditer), 'search': native(search), 'match': native(match)}, 'pattern<%s>' % ' '.join(words))


def _regex_hooks():
    def via(name):
        def h(it, args, kwargs):
            p = args[0]
            if not isinstance(p, Native) or name not in p.table:
                it.fail(None, 'regex.%s on something that is not one of the stub patterns' % name)
            return p.table[name](it, list(args[1:]), kwargs)
        return h
    return {'regex.finditer': via('finditer'), 'regex.search': via('search'), 'regex.match': via('match')}


def config_regex_reads(idx, cls, entry):
    """self.config.<attr> reads in method `entry` of cls and the same-object methods it reaches (through the MRO)"""
    out, todo, seen = set(), [entry], set()
    while todo:
        nm = todo.pop()
        if nm in seen:
            continue
        seen.add(nm)
        k, fn = idx.find_method(cls, nm)
        if fn is None:
            continue
        for n in ast.walk(fn):
            if isinstance(n, ast.Attribute) and isinstance(n.value, ast.Attribute) and n.value.attr == 'config' \
                    and isinstance(n.value.value, ast.Name) and n.value.value.id == 'self':
                out.add(n.attr)
            if isinstance(n, ast.Call) and isinstance(n.func, ast.Attribute) and isinstance(n.func.value, ast.Name) \
                    and n.func.value.id == 'self':
                todo.append(n.func.attr)
    return out


def addmod_run(idx, cls, spec, tokens, order, er_cls, date_type):
    """-> (source, [(before span, after span, text)]) or ('raises', message)"""
    joiner = spec['joiner']
    words = [ENTITY_WORD if t == 'X' else t * 2 for t in tokens]     # two characters per word: an off-by-one growth stays visible
    source = joiner.join(words)
    pos, ents = 0, []
    for t, w in zip(tokens, words):
        if t == 'X':
            ents.append((pos, pos + len(w) - 1))
        pos += len(w) + len(joiner)
    cfg = Obj(None, dict(spec['config']))
    for attr, w in spec['patterns'].items():
        cfg.attrs[attr] = _stub_pattern(w, joiner)
    it = Interp(idx, hooks=_regex_hooks(), where='%s.add_mod' % cls.name, budget=400000)
    selfo = Obj(cls, {'config': cfg, 'options': 0})
    ers = []
    for s, e in ents:
        o = Obj(er_cls, {})
        o.attrs.update({'start': s, 'length': e - s + 1, 'text': source[s:e + 1], 'type': date_type, 'data': None, 'meta_data': None})
        ers.append(o)
    lst = [ers[i] for i in order]
    k, fn = idx.find_method(cls, 'add_mod')
    try:
        it.call_function(FuncRef(k.mod, fn, k), [lst, source], {}, None, selfobj=selfo)
    except PyExc as ex:
        return source, ('raises', str(ex))
    res = []
    for (s, e), o in zip(ents, ers):
        s2, l2, t2 = o.attrs.get('start'), o.attrs.get('length'), o.attrs.get('text')
        if not isinstance(s2, int) or not isinstance(l2, int) or not isinstance(t2, str):
            raise AnalysisError('%s.add_mod leaves an entity without integer start/length and str text' % cls.name)
        res.append(((s, e), (s2, s2 + l2 - 1), t2))
    return source, res


def addmod_verdict(source, res):
    """None or (kind, text) - kinds name WHAT overlaps so that a different failure is a different instance"""
    if res and res[0] == 'raises':
        return 'raises', res[1]
    for (b, a, t) in res:
        if a[0] < 0 or a[1] >= len(source):
            return 'outside', 'span %s outside the text' % (a,)
        if not (a[0] <= b[0] and b[1] <= a[1]):
            return 'shrinks', 'entity %s becomes %s' % (b, a)
        if t != source[a[0]:a[1] + 1]:
            return 'text', 'entity %s has text %r, its span addresses %r' % (a, t, source[a[0]:a[1] + 1])
    for i in range(len(res)):
        for j in range(i + 1, len(res)):
            (b1, a1, _), (b2, a2, _) = res[i], res[j]
            if overlap(a1, a2):
                if overlap(a2, b1) or overlap(a1, b2):
                    return 'swallows', 'the entity at %s grows to %s over the entity at %s' % (
                        (b2, a2, b1) if overlap(a2, b1) else (b1, a1, b2)), (i, j)
                return 'shared-word', 'the entities at %s and %s both grow over the same word: %s and %s' % (b1, b2, a1, a2), (i, j)
    return None


ADDMOD_CONTROL = '''
def add_mod(self, extract_results, source):
    for er in extract_results:
        m = RegExpUtility.match_begin(self.config.after_regex, source[er.start + er.length:], True)
        if m and m.success:
            er.length += m.index + m.length
            er.text = source[er.start:er.start + er.length]
    for er in extract_results:
        before = source[0:er.start]
        m = RegExpUtility.match_end(self.config.after_regex, before, True)
        if m and m.success:
            n = len(before) - m.index
            er.start -= n
            er.length += n
            er.text = source[er.start:er.start + er.length]
'''


def rule_add_mod(chk, idx, tier):
    rid = 'C12.add-mod'
    chk.rule(rid, 'growing entities over neighbouring modifier words keeps them pairwise disjoint, for every order of the '
                  'entity list', floor=6, control=True)
    er_cls = idx.cls('recognizers_text.extractor.ExtractResult')
    consts = idx.cls('recognizers_date_time.date_time.constants.Constants')
    dt = consts.attrs.get('SYS_DATETIME_DATE') if consts else None
    if not (isinstance(dt, ast.Constant) and isinstance(dt.value, str)):
        raise AnalysisError('anchor vanished: Constants.SYS_DATETIME_DATE')
    date_type = dt.value
    KINDS = ['raises', 'outside', 'shrinks', 'text', 'swallows', 'shared-word']
    for cname, spec in ADDMOD.items():
        cls = idx.cls(cname)
        if cls is None or idx.find_method(cls, 'add_mod')[1] is None:
            raise AnalysisError('anchor vanished: %s.add_mod' % cname)
        chk.consulted(cls.mod.path)
        reads = {a for a in config_regex_reads(idx, cls, 'add_mod') if a.endswith('_regex') or a in spec['config']}
        unknown = sorted(a for a in reads if a not in spec['patterns'] and a not in spec['config'])
        if unknown:
            raise AnalysisError('%s.add_mod reads configuration attribute(s) %s the tabulation has no word for'
                                % (cls.name, ', '.join(unknown)))
        alphabets = spec[tier if tier in ('quick', 'thorough') else 'quick']
        first = {}
        runs = 0
        seen_letters = set()
        for alphabet, maxlen in alphabets:
            fresh = set(alphabet) - seen_letters - {'X'}
            for n in range(1, maxlen + 1):
                for tokens in itertools.product(alphabet, repeat=n):
                    nx = tokens.count('X')
                    if nx == 0 or nx > 3 or (nx == 1 and n > 3):
                        continue
                    if seen_letters and not (fresh & set(tokens)):
                        continue
                    orders = list(itertools.permutations(range(nx)))
                    if tier == 'quick' and nx == 3:
                        orders = [orders[0], orders[-1]]
                    for order in orders:
                        source, res = addmod_run(idx, cls, spec, tokens, order, er_cls, date_type)
                        runs += 1
                        v = addmod_verdict(source, res)
                        if v is None:
                            continue
                        gap = ''
                        if len(v) > 2:
                            xs = [i for i, t in enumerate(tokens) if t == 'X']
                            gap = ' '.join(tokens[xs[v[2][0]] + 1:xs[v[2][1]]])
                        how = 'listed in text order' if list(order) == sorted(order) else 'listed out of text order'
                        key = (v[0], how, gap)
                        if key not in first or len(source) < len(first[key][0]):
                            first[key] = (source, order, v[1])
            seen_letters |= set(alphabet)
        fn_line = idx.find_method(cls, 'add_mod')[1].lineno
        for kind in KINDS:
            for how in ('listed in text order', 'listed out of text order'):
                bads = sorted(k for k in first if k[0] == kind and k[1] == how)
                if not bads:
                    chk.judge(True, rid, cls.mod.path, '%s.add_mod [%s, entities %s]' % (cls.name, kind, how), 'never', None, fn_line)
                for k in bads:
                    bad = first[k]
                    chk.judge(False, rid, cls.mod.path,
                              '%s.add_mod [%s, entities %s]' % (cls.name, kind, how),
                              'happens with the words "%s" between the two entities' % k[2] if k[2] != '' or kind in ('swallows', 'shared-word')
                              else 'happens',
                              '%s.add_mod: on the token string %r (xx = an entity, doubled letters = modifier words %s) with the '
                              'entities listed in order %s: %s - two returned entities overlap or an entity no longer matches its text'
                              % (cls.name, bad[0], {a: w for a, w in spec['patterns'].items()}, list(bad[1]), bad[2]), fn_line)
        chk.observe('C12.add-mod: %s.add_mod interpreted on %d (token string, list order) configurations over %s'
                    % (cls.name, runs, '; '.join('%s up to %d tokens' % (''.join(a), m) for a, m in alphabets)))
    # positive control: two independent passes, the suffix pass unaware of the neighbour's prefix
    um = idx.mod('recognizers_text.utilities')
    ctl = ast.parse(ADDMOD_CONTROL).body[0]
    spec = {'patterns': {'after_regex': 'a'}, 'config': {}, 'joiner': ' '}
    cfg = Obj(None, {'after_regex': _stub_pattern('a', ' ')})
    it = Interp(idx, hooks=_regex_hooks(), where='C12.add-mod control', budget=200000)
    source = 'xx aa xx'
    ers = []
    for s in (0, 6):
        o = Obj(er_cls, {})
        o.attrs.update({'start': s, 'length': 2, 'text': 'xx', 'type': date_type, 'data': None, 'meta_data': None})
        ers.append(o)
    try:
        it.call_function(FuncRef(um, ctl, None), [Obj(None, {'config': cfg}), ers, source], {})
        res = [((s, s + 1), (o.attrs['start'], o.attrs['start'] + o.attrs['length'] - 1), o.attrs['text']) for s, o in zip((0, 6), ers)]
        v = addmod_verdict(source, res)
    except PyExc:
        v = None
    chk.control(rid, v is not None and v[0] == 'shared-word')


_run_before_addmod = run


def run(chk):       # noqa: F811
    _run_before_addmod(chk)
    rule_add_mod(chk, get_index(), chk.tier if hasattr(chk, 'tier') else 'quick')


# ---------------------------------------------------------------------------------------------------------------
# C12.unit-candidates: NumberWithUnitExtractor.extract as written (prefix / suffix unit search around every number, candidate
# construction, _extract_separate_units, _filter_ambiguity, and for currencies _select_candidates) is interpreted on every short
# text over {digit, unit character(s), blank}.  The number extractor and the two string matchers are stubs of the checker that
# report the digit runs and the unit runs of the text; nothing of the repository runs.  Required: the returned candidates are
# pairwise disjoint, lie inside the text and carry the slice they address.

UNITCAND_CONTROL = '''
def extract(self, source):
    out = []
    for number in self.config.unit_num_extractor.extract(source):
        for m in self.suffix_matcher.find(source):
            if m.start == number.start + number.length:
                er = ExtractResult()
                er.start = number.start
                er.length = number.length + m.length
                er.text = source[er.start:er.start + er.length]
                out.append(er)
        for m in self.prefix_matcher.find(source):
            if m.end == number.start:
                er = ExtractResult()
                er.start = m.start
                er.length = number.length + m.length
                er.text = source[er.start:er.start + er.length]
                out.append(er)
    return out
'''


def _char_runs(text, ch):
    out, i = [], 0
    while i < len(text):
        if text[i] == ch:
            j = i
            while j < len(text) and text[j] == ch:
                j += 1
            out.append((i, j))
            i = j
        else:
            i += 1
    return out


def unitcand_run(idx, cls, fn, owner, source, prefix_chars, suffix_chars, er_cls, mr_cls, cur_type, separate=None):
    """separate: None (the separate-unit regex matches nothing) or callable(source) -> [(start, end)] spans the stub of
    self.separate_regex reports through finditer (used by C05.one-entity)"""
    never = {'finditer': native(lambda it, a, k: []), 'search': native(lambda it, a, k: None), 'match': native(lambda it, a, k: None)}

    def mk_never():
        return Native(dict(never), 'pattern<never>')
    hooks = dict(_regex_hooks())
    hooks['RegExpUtility.get_safe_reg_exp'] = lambda it, a, k: mk_never()
    it = Interp(idx, hooks=hooks, where='%s.extract' % cls.name, budget=3_000_000)

    def finder(chars):
        def find(it2, a, k):
            src, out = a[0], []
            for ch in chars:
                for s, e in _char_runs(src, ch):
                    o = it2.instantiate(mr_cls, [s, e - s], {}, None)
                    o.attrs['_MatchResult__text'] = src[s:e]
                    out.append(o)
            return out
        return Native({'find': native(find)}, 'matcher')

    def num_extract(it2, a, k):
        src, out = a[0], []
        for s, e in _char_runs(src, '1'):
            o = Obj(er_cls, {})
            o.attrs.update({'start': s, 'length': e - s, 'text': src[s:e], 'type': 'number', 'data': None, 'meta_data': None})
            out.append(o)
        return out
    cfg = Native({'extract_type': cur_type, 'unit_num_extractor': Native({'extract': native(num_extract)}, 'number extractor'),
                  'ambiguous_unit_number_multiplier_regex': None, 'connector_token': '', 'non_unit_regex': mk_never(),
                  'ambiguity_filters_dict': None, 'dimension_ambiguity_filters_dict': None,
                  'expand_half_suffix': native(lambda it2, a, k: None)}, 'config')
    M = '_NumberWithUnitExtractor__'
    sep = mk_never()
    if separate is not None:
        def sep_finditer(it2, a, k):
            src, out = a[0], []
            for s0, e0 in separate(src):
                out.append(Native({'group': native(lambda it3, a3, k3, t=src[s0:e0]: t),
                                   'start': native(lambda it3, a3, k3, v=s0: v), 'end': native(lambda it3, a3, k3, v=e0: v),
                                   'span': native(lambda it3, a3, k3, v=(s0, e0): v)}, 'match'))
            return out
        sep = Native({'finditer': native(sep_finditer), 'search': never['search'], 'match': never['match']}, 'pattern<separate units>')
    selfo = Obj(cls, {'config': cfg, M + 'max_prefix_match_len': 3, M + 'prefix_matcher': finder(prefix_chars),
                      M + 'suffix_matcher': finder(suffix_chars), M + 'separate_regex': sep})
    if owner is None:
        out = it.call_function(FuncRef(cls.mod, fn, None), [selfo, source], {})
    else:
        out = it.call_function(FuncRef(cls.mod, fn, owner), [source], {}, None, selfobj=selfo)
    res = []
    for o in out:
        s, l, t = o.attrs.get('start'), o.attrs.get('length'), o.attrs.get('text')
        if not isinstance(s, int) or not isinstance(l, int) or not isinstance(t, str):
            raise AnalysisError('%s.extract returns a candidate without integer start/length and str text' % cls.name)
        res.append((s, s + l - 1, t))
    return res


def unitcand_verdicts(source, res):
    """[(kind, what)]"""
    out = []
    for (s, e, t) in res:
        if s < 0 or e >= len(source) or e < s:
            out.append(('outside', 'candidate [%d,%d] outside the text' % (s, e)))
        elif t != source[s:e + 1]:
            out.append(('text', 'candidate [%d,%d] has text %r, its span addresses %r' % (s, e, t, source[s:e + 1])))
    for i in range(len(res)):
        for j in range(i + 1, len(res)):
            a, b = res[i], res[j]
            if overlap((a[0], a[1]), (b[0], b[1])):
                lo, hi = max(a[0], b[0]), min(a[1], b[1])
                shared = source[lo:hi + 1]
                cls_ = 'a one-character unit' if len(shared) == 1 and shared not in '1 ' else \
                    'a number' if '1' in shared else 'a unit of several characters'
                out.append(('overlap on ' + cls_, 'candidates %r [%d,%d] and %r [%d,%d] share %r'
                            % (a[2], a[0], a[1], b[2], b[0], b[1], shared)))
    return out


def rule_unit_candidates(chk, idx, tier):
    rid = 'C12.unit-candidates'
    chk.rule(rid, 'the unit candidates NumberWithUnitExtractor.extract returns for a currency text are pairwise disjoint, inside '
                  'the text and carry the slice they address', floor=4, control=True)
    cls = idx.cls('recognizers_number_with_unit.number_with_unit.extractors.NumberWithUnitExtractor')
    er_cls = idx.cls('recognizers_text.extractor.ExtractResult')
    mr_cls = idx.cls('recognizers_text.matcher.match_result.MatchResult')
    consts = idx.cls('recognizers_number_with_unit.number_with_unit.constants.Constants')
    if cls is None or mr_cls is None or consts is None or 'extract' not in cls.methods:
        raise AnalysisError('anchor vanished: NumberWithUnitExtractor.extract / MatchResult / Constants')
    cur = consts.attrs.get('SYS_UNIT_CURRENCY')
    if not (isinstance(cur, ast.Constant) and isinstance(cur.value, str)):
        raise AnalysisError('anchor vanished: Constants.SYS_UNIT_CURRENCY')
    chk.consulted(cls.mod.path)
    fn = cls.methods['extract']
    # (alphabet, longest text, characters found by the prefix matcher, by the suffix matcher)
    plans = [('1$ ', 7, '$', '$')] if tier == 'quick' else [('1$ ', 8, '$', '$'), ('1ps ', 6, 'p', 's'), ('1$s ', 6, '$', '$s')]
    first, runs = {}, 0
    for alphabet, maxlen, pre, suf in plans:
        for n in range(1, maxlen + 1):
            for tup in itertools.product(alphabet, repeat=n):
                s = ''.join(tup)
                if s[0] == ' ' or s[-1] == ' ' or '  ' in s or '1' not in s or not (set(s) & set(pre + suf)):
                    continue
                runs += 1
                try:
                    res = unitcand_run(idx, cls, fn, cls, s, pre, suf, er_cls, mr_cls, cur.value)
                    vs = unitcand_verdicts(s, res)
                except PyExc as ex:
                    vs = [('raises', str(ex))]
                for kind, what in vs:
                    if kind not in first or len(s) < len(first[kind][0]):
                        first[kind] = (s, what)
    for kind in ['raises', 'outside', 'text', 'overlap on a one-character unit', 'overlap on a unit of several characters',
                 'overlap on a number']:
        bad = first.get(kind)
        chk.judge(bad is None, rid, cls.mod.path, 'NumberWithUnitExtractor.extract [%s]' % kind, 'never' if bad is None else 'happens',
                  None if bad is None else
                  'NumberWithUnitExtractor.extract (currency): on the text %r (1 = digit, other characters = unit words found by the '
                  'prefix / suffix matchers): %s' % bad, fn.lineno)
    chk.observe('C12.unit-candidates: NumberWithUnitExtractor.extract interpreted on %d texts (%s)'
                % (runs, '; '.join('%r up to %d characters' % (a, m) for a, m, _, _ in plans)))
    ctl = ast.parse(UNITCAND_CONTROL).body[0]
    try:
        res = unitcand_run(idx, cls, ctl, None, '1$1', '$', '$', er_cls, mr_cls, cur.value)
        v = unitcand_verdicts('1$1', res)
    except PyExc:
        v = []
    chk.control(rid, any(k == 'overlap on a one-character unit' for k, _ in v))


_run_before_unitcand = run


def run(chk):       # noqa: F811
    _run_before_unitcand(chk)
    rule_unit_candidates(chk, get_index(), chk.tier if hasattr(chk, 'tier') else 'quick')


# ---------------------------------------------------------------------------------------------------------------
# C12.compound: the currency parser splits one extracted compound ("10 dollars 30 cents 5 euros") into the money amounts it
# contains.  BaseCurrencyParser.__merge_compound_unit (with __resolve_text, __create_currency_result, __get_number_value,
# __check_units_string_contains and DictionaryUtility.bind_units_string) is interpreted on every sequence of at most four items
# of six kinds - main unit A / its fraction unit a / main unit B / its fraction b / bare number / unknown unit - laid out on
# fixed spans.  The inner unit parser is a stub that answers each item with its own span, unit and number.  Required: the
# amounts are pairwise disjoint, each runs from the start of one item to the end of a later (or the same) item, and starts at
# a currency item.

COMPOUND_KINDS = {
    'A': ('cur', 'Dollar'), 'a': ('cur', 'Cent'), 'B': ('cur', 'Euro'), 'b': ('cur', 'Centime'), 'N': ('num', None),
    'U': ('cur', 'Quux'),
}


def compound_run(idx, cls, fn, seq, er_cls, pr_cls, uv_cls, cur_type, num_type):
    items = []
    pos = 0
    words = []
    for k in seq:
        w = k * 2
        items.append((pos, pos + len(w) - 1, w))
        words.append(w)
        pos += len(w) + 1
    text = ' '.join(words)
    bias = 7            # the compound sits at offset 7 of the query

    def mk_item(i):
        s, e, w = items[i]
        kind, unit = COMPOUND_KINDS[seq[i]]
        o = Obj(er_cls, {})
        o.attrs.update({'start': s + bias, 'length': e - s + 1, 'text': w, 'type': cur_type if kind == 'cur' else num_type,
                        'data': None, 'meta_data': None})
        return o, kind, unit
    made = [mk_item(i) for i in range(len(seq))]

    def inner_parse(it, a, k):
        er = a[0]
        for o, kind, unit in made:
            if o is er:
                pr = Obj(pr_cls, {})
                pr.attrs.update({'start': o.attrs['start'], 'length': o.attrs['length'], 'text': o.attrs['text'],
                                 'type': o.attrs['type'], 'data': None, 'meta_data': None,
                                 'resolution_str': o.attrs['text']})
                if kind == 'cur':
                    pr.attrs['value'] = Obj(uv_cls, {'number': '3', 'unit': unit})
                else:
                    pr.attrs['value'] = '5'
                return pr
        it.fail(None, 'the inner parser is asked about something that is not an item of the compound')

    def d(**kw):
        return {k: (k, v) for k, v in kw.items()}
    cfg = Native({'currency_name_to_iso_code_map': d(Dollar='USD', Euro='EUR'),
                  'currency_fraction_code_list': d(Cent='CENT', Centime='CENTIME'),
                  'currency_fraction_mapping': d(USD='CENT|PENNY', EUR='CENTIME'),
                  'currency_fraction_num_map': d(Cent=100, Centime=100),
                  'culture_info': Native({'format': native(lambda it2, a, k: repr(a[0]))}, 'culture info')}, 'config')
    selfo = Obj(cls, {'config': cfg, 'number_with_unit_parser': Native({'parse': native(inner_parse)}, 'unit parser')})
    comp = Obj(er_cls, {})
    comp.attrs.update({'start': bias, 'length': len(text), 'text': text, 'type': cur_type, 'data': [o for o, _, _ in made],
                       'meta_data': None})
    it = Interp(idx, where='%s.%s' % (cls.name, fn.name), budget=400000)
    ret = it.call_function(FuncRef(cls.mod, fn, cls), [comp], {}, None, selfobj=selfo)
    vals = ret.attrs.get('value') if isinstance(ret, Obj) else None
    if not isinstance(vals, list):
        raise AnalysisError('%s.%s does not return a result whose value is the list of amounts' % (cls.name, fn.name))
    out = []
    for v in vals:
        s, l, t = v.attrs.get('start'), v.attrs.get('length'), v.attrs.get('text')
        if not isinstance(s, int) or not isinstance(l, int):
            raise AnalysisError('%s.%s returns an amount without integer start/length' % (cls.name, fn.name))
        out.append((s - bias, s - bias + l - 1, t))
    return text, items, out


def compound_verdicts(seq, text, items, out):
    vs = []
    starts = {s: i for i, (s, e, w) in enumerate(items)}
    ends = {e: i for i, (s, e, w) in enumerate(items)}
    for (s, e, t) in out:
        if s not in starts or e not in ends or ends[e] < starts[s]:
            vs.append(('boundaries', 'amount [%d,%d] does not run from the start of an item to the end of an item' % (s, e)))
            continue
        if COMPOUND_KINDS[seq[starts[s]]][0] != 'cur':
            vs.append(('head', 'amount [%d,%d] starts at a bare number' % (s, e)))
        if t is not None and t != text[s:e + 1]:
            vs.append(('text', 'amount [%d,%d] has text %r, its span addresses %r' % (s, e, t, text[s:e + 1])))
    for i in range(len(out)):
        for j in range(i + 1, len(out)):
            if overlap(out[i][:2], out[j][:2]):
                vs.append(('overlap', 'amounts [%d,%d] and [%d,%d] share an item' % (out[i][0], out[i][1], out[j][0], out[j][1])))
    return vs


def rule_compound(chk, idx, tier):
    rid = 'C12.compound'
    chk.rule(rid, 'the money amounts the currency parser splits a compound into are pairwise disjoint runs of whole items, each '
                  'starting at a currency item', floor=4, control=True)
    cls = idx.cls('recognizers_number_with_unit.number_with_unit.parsers.BaseCurrencyParser')
    er_cls = idx.cls('recognizers_text.extractor.ExtractResult')
    pr_cls = idx.cls('recognizers_text.parser.ParseResult')
    from ..ointerp import NTType
    uv_cls = NTType('UnitValue', ['number', 'unit'])
    consts = idx.cls('recognizers_number_with_unit.number_with_unit.constants.Constants')
    fn = cls.methods.get('__merge_compound_unit') if cls else None
    if fn is None or pr_cls is None or consts is None:
        raise AnalysisError('anchor vanished: BaseCurrencyParser.__merge_compound_unit / ParseResult / UnitValue / Constants')
    cur, num = consts.attrs.get('SYS_UNIT_CURRENCY'), consts.attrs.get('SYS_NUM')
    if not all(isinstance(x, ast.Constant) and isinstance(x.value, str) for x in (cur, num)):
        raise AnalysisError('anchor vanished: Constants.SYS_UNIT_CURRENCY / SYS_NUM')
    chk.consulted(cls.mod.path)
    maxlen = 4 if tier == 'quick' else 5
    first, runs = {}, 0
    for n in range(1, maxlen + 1):
        for seq in itertools.product('AaBbNU', repeat=n):
            runs += 1
            try:
                text, items, out = compound_run(idx, cls, fn, seq, er_cls, pr_cls, uv_cls, cur.value, num.value)
                vs = compound_verdicts(seq, text, items, out)
            except PyExc as ex:
                vs = [('raises', str(ex))]
                text = ' '.join(k * 2 for k in seq)
            for kind, what in vs:
                if kind not in first or len(seq) < len(first[kind][0]):
                    first[kind] = (seq, text, what)
    for kind in ('raises', 'boundaries', 'head', 'text', 'overlap'):
        bad = first.get(kind)
        chk.judge(bad is None, rid, cls.mod.path, 'BaseCurrencyParser.__merge_compound_unit [%s]' % kind,
                  'never' if bad is None else 'happens', None if bad is None else
                  'BaseCurrencyParser.__merge_compound_unit: on the compound %r (AA/BB = main units, aa/bb = their fraction units, '
                  'NN = bare number, UU = unknown unit): %s' % (bad[1], bad[2]), fn.lineno)
    chk.observe('C12.compound: BaseCurrencyParser.__merge_compound_unit interpreted on %d item sequences up to %d items' % (runs, maxlen))
    # positive control: amounts with a foreign boundary / sharing an item are recognised as such
    ctl_items = [(0, 1, 'AA'), (3, 4, 'BB')]
    v = compound_verdicts('AB', 'AA BB', ctl_items, [(0, 4, 'AA BB'), (3, 4, 'BB')])
    v2 = compound_verdicts('AB', 'AA BB', ctl_items, [(0, 2, 'AA ')])
    chk.control(rid, any(k == 'overlap' for k, _ in v) and any(k == 'boundaries' for k, _ in v2))


_run_before_compound = run


def run(chk):       # noqa: F811
    _run_before_compound(chk)
    rule_compound(chk, get_index(), chk.tier if hasattr(chk, 'tier') else 'quick')


# ---------------------------------------------------------------------------------------------------------------
# C12.compound-groups: the currency extractor joins neighbouring candidates ("7 dollars and 20 cents") into one compound.
# BaseMergedUnitExtractor.__merged_compound_units - the groups[] array of its first loop, the result[group] indexing of its
# second, with __merge_pure_number - is interpreted on every short sequence of items (integer amount / fractional amount / bare
# number) x separators (blank / connector word / comma / connector word followed by something else).  NumberWithUnitExtractor,
# the number extractor and the connector pattern are stubs of the checker that report the items of the text; nothing of the
# repository runs.  Required: the returned entities are pairwise disjoint, each runs from the start of one item to the end of
# an item, and carries the slice it addresses.  (result[] is indexed by group number, which is only sound while groups[] never
# decreases: a branch that leaves groups[idx + 1] at its initial 0 after an earlier boundary stretches result[0] over everything
# in between.)

GROUP_ITEMS = {'C': ('3', ' dd', 'IntegerNum'), 'F': ('3.5', ' ee', 'DoubleNum'), 'N': ('7', '', 'IntegerNum')}
GROUP_SEPS = {'_': ' ', '&': ' and ', ',': ', ', '%': ' and so '}
GROUP_CONNECTOR = 'and'

GROUPS_CONTROL = '''
def merged(self, source):
    ers = NumberWithUnitExtractor(self.config).extract(source)
    out = list(ers)
    if len(ers) > 1:
        whole = ExtractResult()
        whole.start = ers[0].start
        whole.length = ers[-1].start + ers[-1].length - ers[0].start
        whole.text = source[whole.start:whole.start + whole.length]
        whole.type = ers[0].type
        out.append(whole)
    return out
'''


class _ClosedTable(dict):
    """attribute table of a stub: reading an attribute the stub does not model is not a verdict about the repository (exit 2)"""
    def __init__(self, label, table):
        dict.__init__(self, table)
        self.label = label

    def __contains__(self, name):
        if not dict.__contains__(self, name):
            raise AnalysisError('C12.compound-groups: the interpreted function reads %r of the %s, which the tabulation has no '
                                'model for' % (name, self.label))
        return True


def _closed(table, label):
    return Native(_ClosedTable(label, table), label)


def groups_layout(kinds, seps):
    """text and items [(start, end_exclusive, number_end_exclusive, kind)]"""
    text, items = '', []
    for i, k in enumerate(kinds):
        num, unit, _ = GROUP_ITEMS[k]
        s = len(text)
        text += num + unit
        items.append((s, len(text), s + len(num), k))
        if i < len(seps):
            text += GROUP_SEPS[seps[i]]
    return text, items


def groups_run(idx, cls, fn, owner, kinds, seps, er_cls, cur_type, num_type):
    text, items = groups_layout(kinds, seps)

    def mk(s, e, typ, data):
        o = Obj(er_cls, {})
        o.attrs.update({'start': s, 'length': e - s, 'text': text[s:e], 'type': typ, 'data': data, 'meta_data': None})
        return o

    def numbers(it, a, k):
        if a[-1] != text:
            it.fail(None, 'the number extractor is asked about something that is not the source text')
        return [mk(s, ne, num_type, GROUP_ITEMS[kd][2]) for s, e, ne, kd in items]

    def units(it, a, k):
        if a[-1] != text:
            it.fail(None, 'the unit extractor is asked about something that is not the source text')
        return [mk(s, e, cur_type, mk(0, ne - s, num_type, GROUP_ITEMS[kd][2])) for s, e, ne, kd in items if kd != 'N']

    def connector_match(it, a, k):
        s = a[0]
        if not isinstance(s, str):
            raise PyExc('TypeError: expected string')
        if not s.startswith(GROUP_CONNECTOR):
            return None
        tbl = dict(_stub_match(s, 0, len(GROUP_CONNECTOR)).table)
        tbl.update({'string': s, 'pos': 0, 'endpos': len(s)})
        return _closed(tbl, 'match object of the connector pattern')
    cfg = _closed({'extract_type': cur_type, 'unit_num_extractor': _closed({'extract': native(numbers)}, 'number extractor'),
                   'compound_unit_connector_regex': _closed({'match': native(connector_match)}, 'connector pattern')},
                  'extractor configuration')
    hooks = dict(_regex_hooks())
    hooks['NumberWithUnitExtractor'] = lambda it, a, k: _closed({'extract': native(units)}, 'unit extractor')
    it = Interp(idx, hooks=hooks, where='%s.%s' % (cls.name, fn.name), budget=400000)
    selfo = Obj(cls, {'config': cfg})
    if owner is None:
        out = it.call_function(FuncRef(cls.mod, fn, None), [selfo, text], {})
    else:
        out = it.call_function(FuncRef(cls.mod, fn, owner), [text], {}, None, selfobj=selfo)
    if not isinstance(out, list):
        raise AnalysisError('%s.%s does not return a list of results' % (cls.name, fn.name))
    res = []
    for o in out:
        s, l, t = (o.attrs.get('start'), o.attrs.get('length'), o.attrs.get('text')) if isinstance(o, Obj) else (None, None, None)
        if not isinstance(s, int) or not isinstance(l, int) or not isinstance(t, str):
            raise AnalysisError('%s.%s returns a result without integer start/length and str text' % (cls.name, fn.name))
        res.append((s, s + l - 1, t))
    return text, items, res


def groups_verdicts(text, items, res):
    vs = []
    starts = {s: i for i, (s, e, ne, k) in enumerate(items)}
    ends = {e - 1: i for i, (s, e, ne, k) in enumerate(items)}
    for (s, e, t) in res:
        if s not in starts or e not in ends or ends[e] < starts[s]:
            vs.append(('boundaries', 'entity [%d,%d] does not run from the start of an item to the end of an item' % (s, e)))
        elif t != text[s:e + 1]:
            vs.append(('text', 'entity [%d,%d] has text %r, its span addresses %r' % (s, e, t, text[s:e + 1])))
    for i in range(len(res)):
        for j in range(i + 1, len(res)):
            if overlap(res[i][:2], res[j][:2]):
                vs.append(('overlap', 'entities %r [%d,%d] and %r [%d,%d] overlap'
                           % (res[i][2], res[i][0], res[i][1], res[j][2], res[j][0], res[j][1])))
    return vs


def rule_compound_groups(chk, idx, tier):
    rid = 'C12.compound-groups'
    chk.rule(rid, 'the entities BaseMergedUnitExtractor joins neighbouring currency candidates into are pairwise disjoint runs of '
                  'whole items and carry the slice they address', floor=4, control=True)
    cls = idx.cls('recognizers_number_with_unit.number_with_unit.extractors.BaseMergedUnitExtractor')
    er_cls = idx.cls('recognizers_text.extractor.ExtractResult')
    consts = idx.cls('recognizers_number_with_unit.number_with_unit.constants.Constants')
    if cls is None or er_cls is None or consts is None:
        raise AnalysisError('anchor vanished: BaseMergedUnitExtractor / ExtractResult / Constants')
    k, fn = idx.find_method(cls, 'extract')
    if fn is None:
        raise AnalysisError('anchor vanished: BaseMergedUnitExtractor.extract')
    cur, num = consts.attrs.get('SYS_UNIT_CURRENCY'), consts.attrs.get('SYS_NUM')
    if not all(isinstance(x, ast.Constant) and isinstance(x.value, str) for x in (cur, num)):
        raise AnalysisError('anchor vanished: Constants.SYS_UNIT_CURRENCY / SYS_NUM')
    chk.consulted(cls.mod.path)
    plans = [(4, '_&,')] if tier == 'quick' else [(5, '_&,'), (4, '_&,%')]
    first, runs, joined = {}, 0, 0
    cases = []
    for maxlen, seps in plans:
        for n in range(1, maxlen + 1):
            # a bare number in front of every amount never reaches the grouping (and is not an entity): sequences start with an amount
            cases += [(kinds, sp) for kinds in itertools.product('CFN', repeat=n) if kinds[0] != 'N'
                      for sp in itertools.product(seps, repeat=n - 1)]
    for kinds, sp in sorted(set(cases), key=lambda c: (len(c[0]), c)):
        runs += 1
        try:
            text, items, res = groups_run(idx, cls, fn, k, kinds, sp, er_cls, cur.value, num.value)
            vs = groups_verdicts(text, items, res)
            joined += any(e - s + 1 > max(i[1] - i[0] for i in items) for s, e, _ in res)
        except PyExc as ex:
            vs = [('raises', str(ex))]
            text = groups_layout(kinds, sp)[0]
        for kind, what in vs:
            if kind not in first or len(text) < len(first[kind][0]):
                first[kind] = (text, what)
    if not joined:
        raise AnalysisError('BaseMergedUnitExtractor.extract (currency) joins no two items on any of the %d item sequences: the '
                            'tabulation does not reach the grouping step' % runs)
    for kind in ('raises', 'boundaries', 'text', 'overlap'):
        bad = first.get(kind)
        chk.judge(bad is None, rid, cls.mod.path, 'BaseMergedUnitExtractor.extract [%s]' % kind,
                  'never' if bad is None else 'happens', None if bad is None else
                  'BaseMergedUnitExtractor.extract (currency): on the text %r (dd / ee = units, '
                  '%r = the compound connector): %s' % (bad[0], GROUP_CONNECTOR, bad[1]), fn.lineno if bad is None else
                  _groups_line(cls, fn))
    chk.observe('C12.compound-groups: BaseMergedUnitExtractor.extract (currency) interpreted on %d item sequences (%s); %d of them '
                'join items' % (runs, '; '.join('up to %d items with separators %s' % (m, sorted(GROUP_SEPS[c] for c in sp))
                                                for m, sp in plans), joined))
    ctl = ast.parse(GROUPS_CONTROL).body[0]
    try:
        text, items, res = groups_run(idx, cls, ctl, None, 'CC', ',', er_cls, cur.value, num.value)
        v = groups_verdicts(text, items, res)
    except PyExc:
        v = []
    chk.control(rid, any(kd == 'overlap' for kd, _ in v))


def _groups_line(cls, fn):
    """display only: the method that owns the groups[] array if there is one, else extract"""
    for name, m in cls.methods.items():
        for n in ast.walk(m):
            if isinstance(n, ast.Subscript) and isinstance(n.value, ast.Name) and n.value.id == 'groups' and isinstance(n.ctx, ast.Store):
                return n.lineno
    return fn.lineno


_run_before_groups = run


def run(chk):       # noqa: F811
    _run_before_groups(chk)
    rule_compound_groups(chk, get_index(), chk.tier if hasattr(chk, 'tier') else 'quick')
