"""C19 - the Python port agrees with the cross-platform Specs wherever it claims support
(handler-exhaustiveness clause only; the 14 000+ input/output pairs themselves need execution).

For every Specs/<Recognizer>/<Language>/<Model><Level><Options>.json with at least one case that is not marked
NotSupported / NotSupportedByDesign for python, the handler the test runner's naming convention resolves to must
exist:

 * model level      - the runner module that consumes (recognizer, 'Model'), its dispatch table key, the library
                      recognize_* function behind it, the getter it calls, and a model registered for the file's culture
                      or reachable through the English fallback (registrations and routing re-used from C17);
 * date-time extractor / parser / merged-parser level - `create_extractor` / `create_parser` of
                      Python/tests/test_runner_datetime.py are *re-played* by a whitelisting AST interpreter with
                      `get_class` answered from the source index (star re-exports included); the replay must end in
                      an instance, every instantiation must fit the constructor's arity, and the instance must have
                      extract() / parse();
 * every TypeName, inner resolution `type` and extractor/parser `Type` that supported cases expect is a constant some
   model / parser / extractor can produce.
"""
import ast
import copy
import glob
import json
import os
import re

from ..core import REPO, AnalysisError
from ..index import Mod, get_index
from . import c17 as R

LEVEL = 'other'
DESIGN_REF = 'DESIGN.md#c19'
META = {
    'text': 'handler exhaustiveness: every Python-supported spec case has a runner, a dispatch entry, a registered (or '
            'fallback-reachable) model or a constructible extractor/parser class chain, and only asks for type names '
            'the library can produce',
    'note': 'Not decided: the behaviour itself (text, offsets, resolution values of the ~14 600 supported cases) - only '
            'execution can settle that. A culture served through the English fallback is a violation only when the library '
            'ships <Language><Model>* classes that no registration reaches; otherwise it is reported as an observation. '
            'Type names are checked against the set the whole package can produce (necessary, not sufficient).',
    'technique': 'table agreement between Specs file names / expected type names and the source index; replay of the test '
                 'runner\'s create_extractor / create_parser by a whitelisting AST interpreter over the index',
}

TESTS = os.path.join(REPO, 'Python', 'tests')
SPECS = os.path.join(REPO, 'Specs')
DT_PACKAGE = 'recognizers_date_time'


# =====================================================================================================
# the runner's conventions, read from its AST
# =====================================================================================================

def load_test_mod(idx, path):
    """index.Mod for a test file (not registered in the index; imports scanned so that idx.resolve works on it)"""
    try:
        src = open(path, encoding='utf-8').read()
        tree = ast.parse(src, filename=path)
    except (OSError, SyntaxError) as e:
        raise AnalysisError('cannot read %s: %s' % (path, e))
    m = Mod('tests.' + os.path.basename(path)[:-3], path, tree, src)
    for st in tree.body:
        if isinstance(st, (ast.FunctionDef, ast.AsyncFunctionDef)):
            m.funcs[st.name] = st
        elif isinstance(st, ast.Assign):
            for t in st.targets:
                if isinstance(t, ast.Name):
                    m.assigns[t.id] = st.value
        elif isinstance(st, ast.Import):
            for a in st.names:
                m.imports[a.asname or a.name.split('.')[0]] = ('mod', a.name if a.asname else a.name.split('.')[0])
        elif isinstance(st, ast.ImportFrom) and st.level == 0 and st.module:
            for a in st.names:
                if a.name == '*':
                    m.stars.append(st.module)
                else:
                    m.imports[a.asname or a.name] = ('from', st.module, a.name)
    return m


class Runner:
    def __init__(self, idx, rt):
        self.idx = idx
        self.rt = rt
        p = os.path.join(TESTS, 'runner.py')
        self.mod = load_test_mod(idx, p)
        # ENTITY_PATTERN
        pat = self.mod.assigns.get('ENTITY_PATTERN')
        if not (isinstance(pat, ast.Call) and pat.args and isinstance(pat.args[0], ast.Constant)
                and isinstance(pat.args[0].value, str)):
            raise AnalysisError('%s: ENTITY_PATTERN = re.compile(<literal>) not found' % self.mod.rel)
        try:
            self.pattern = re.compile(pat.args[0].value)
        except re.error as e:
            raise AnalysisError('%s: ENTITY_PATTERN does not compile: %s' % (self.mod.rel, e))
        if self.pattern.groups != 3:
            raise AnalysisError('%s: ENTITY_PATTERN no longer has the three groups (model, entity, options)' % self.mod.rel)
        # CULTURES: language directory -> culture code
        cul = self.mod.assigns.get('CULTURES')
        if not isinstance(cul, ast.Dict):
            raise AnalysisError('%s: CULTURES dict literal not found' % self.mod.rel)
        self.cultures = {}
        for k, v in zip(cul.keys, cul.values):
            if not (isinstance(k, ast.Constant) and isinstance(k.value, str) and isinstance(v, ast.Attribute)
                    and v.attr in rt.codes):
                raise AnalysisError('%s: CULTURES entry %s is not "<Language>": Culture.<member>' % (self.mod.rel, ast.unparse(k)))
            self.cultures[k.value] = (v.attr, rt.codes[v.attr])
        if len(self.cultures) < 5:
            raise AnalysisError('%s: CULTURES has only %d entries' % (self.mod.rel, len(self.cultures)))
        # markers and the Merged/Parser rule: restated here, anchored on the constants being present
        gs = self.mod.funcs.get('get_specs')
        gc = self.mod.funcs.get('get_suite_config')
        if gs is None or gc is None:
            raise AnalysisError('%s: get_specs / get_suite_config not found' % self.mod.rel)
        consts = {n.value for n in ast.walk(gs) if isinstance(n, ast.Constant) and isinstance(n.value, str)}
        if not {'NotSupportedByDesign', 'NotSupported', 'python'} <= consts:
            raise AnalysisError('%s: get_specs no longer filters on NotSupported / NotSupportedByDesign / python' % self.mod.rel)
        consts = {n.value for n in ast.walk(gc) if isinstance(n, ast.Constant) and isinstance(n.value, str)}
        if not {'Merged', 'Parser'} <= consts:
            raise AnalysisError('%s: get_suite_config no longer special-cases Merged + Parser' % self.mod.rel)
        idxs = sorted(n.slice.value for n in ast.walk(gc) if isinstance(n, ast.Subscript) and isinstance(n.slice, ast.Constant)
                      and isinstance(n.slice.value, int) and isinstance(n.value, ast.Name))
        if idxs != [2, 3, 4]:
            raise AnalysisError('%s: get_suite_config no longer reads path parts [2], [3], [4]' % self.mod.rel)

    def config(self, filename):
        m = self.pattern.search(filename)
        if not m:
            return None
        model, entity, options = m.groups()
        if model == 'Merged' and entity == 'Parser':
            entity = model + entity
        return model, entity, options

    @staticmethod
    def supported(spec):
        if 'NotSupportedByDesign' in spec and 'python' in spec['NotSupportedByDesign']:
            return False
        if 'NotSupported' in spec and 'python' in spec['NotSupported']:
            return False
        return True


class Consumer:
    """one test function parametrised with get_specs(recognizer=R, entity=E)"""

    def __init__(self, mod, fn, recognizer, entity):
        self.mod, self.fn, self.recognizer, self.entity = mod, fn, recognizer, entity


def find_consumers(idx):
    out = {}
    mods = []
    files = sorted(glob.glob(os.path.join(TESTS, 'test_runner_*.py')))
    if not files:
        raise AnalysisError('no Python/tests/test_runner_*.py found')
    for p in files:
        m = load_test_mod(idx, p)
        mods.append(m)
        for fn in m.funcs.values():
            for d in fn.decorator_list:
                for n in ast.walk(d):
                    if isinstance(n, ast.Call) and isinstance(n.func, ast.Name) and n.func.id == 'get_specs':
                        kw = {k.arg: k.value for k in n.keywords}
                        pos = list(n.args)
                        rec = kw.get('recognizer', pos[0] if pos else None)
                        ent = kw.get('entity', pos[1] if len(pos) > 1 else None)
                        if not (isinstance(rec, ast.Constant) and isinstance(ent, ast.Constant)):
                            raise AnalysisError('%s:%d get_specs(...) with non-literal arguments' % (m.rel, n.lineno))
                        out.setdefault((rec.value, ent.value), []).append(Consumer(m, fn, rec.value, ent.value))
    if not out:
        raise AnalysisError('no test function is parametrised with get_specs(recognizer=..., entity=...)')
    return out, mods


def dispatch_table(mod):
    """the module-level dict D used as D[model](...) -> (name, {key: value expr}, positional arg count)"""
    found = {}
    for fn in mod.funcs.values():
        for n in ast.walk(fn):
            if isinstance(n, ast.Call) and isinstance(n.func, ast.Subscript) and isinstance(n.func.value, ast.Name) \
                    and isinstance(mod.assigns.get(n.func.value.id), ast.Dict):
                found[n.func.value.id] = len(n.args)
    if len(found) != 1:
        raise AnalysisError('%s: expected exactly one module-level dispatch dict used as D[model](...), found %s'
                            % (mod.rel, sorted(found)))
    name, nargs = next(iter(found.items()))
    d = mod.assigns[name]
    table = {}
    for k, v in zip(d.keys, d.values):
        if not (isinstance(k, ast.Constant) and isinstance(k.value, str)):
            raise AnalysisError('%s: %s has a non-literal key' % (mod.rel, name))
        table[k.value] = v
    return name, table, nargs


# =====================================================================================================
# model level
# =====================================================================================================

def helper_chain(rt, mod, fn):
    """recognize_* function -> (recogniser Cls, getter owner Cls, getter FunctionDef, fallback default)"""
    pe = R.PathEnum(fn, '%s %s' % (mod.rel, fn.name))
    for p in pe.paths:
        if p.exit[0] != 'return' or p.exit[1] is None:
            continue
        ex = p.expand(p.exit[1])
        for n in ast.walk(ex):
            if isinstance(n, ast.Call) and isinstance(n.func, ast.Attribute) and isinstance(n.func.value, ast.Call):
                # the recogniser is constructed here or in one module-level helper (inlined by the shared reader)
                src = R.recognizer_constructions(rt, mod, n.func.value)
                rc = src[0] if src is not None and src[1] else None
                if rc is not None and rc in rt.recognizers:
                    k, g = rt.idx.find_method(rc, n.func.attr)
                    if g is None:
                        raise AnalysisError('%s %s calls %s.%s which does not exist' % (mod.rel, fn.name, rc.name, n.func.attr))
                    fb = None
                    for pn, d in R.defaults_of(fn, method=False).items():
                        if R.classify_param(pn) == 'fallback' and isinstance(d, ast.Constant):
                            fb = d.value
                    return rc, k, g, fb
    raise AnalysisError('%s %s: cannot follow the function to a recogniser getter' % (mod.rel, fn.name))


def producible_typenames(rt, reg, cache):
    """set of type_name strings the model built by a registration can put on its results"""
    c = R.model_class_of(rt, reg)
    if c is None:
        raise AnalysisError('%s: model class of %s cannot be resolved' % (reg.owner.mod.rel, reg.construct))
    key = (c.qual, reg.rc.qual, reg.member)
    if key in cache:
        return cache[key]
    idx = rt.idx
    sources = []
    for k in idx.mro(c):
        for fn in k.methods.values():
            for n in ast.walk(fn):
                if isinstance(n, ast.Assign):
                    for t in n.targets:
                        if isinstance(t, ast.Attribute) and t.attr == 'type_name':
                            sources.append((k, n.value))
    if not sources:
        raise AnalysisError('%s: no assignment to .type_name found in %s or its bases' % (c.mod.rel, c.name))
    out = set()
    for k, v in sources:
        if R.self_attr(v, 'model_type_name'):
            kk, fn = idx.find_method(c, 'model_type_name')
            if fn is None:
                raise AnalysisError('%s.model_type_name not found' % c.name)
            val = rt.interp.call(kk.mod, fn, [R.SelfVal()], None, kk, '%s.model_type_name' % kk.name)
            if not isinstance(val, str):
                raise AnalysisError('%s.model_type_name does not evaluate to a string' % kk.name)
            out.add(val)
        elif isinstance(v, ast.Attribute) and v.attr == 'type':
            # the type comes from the parse results: merged-parser templates of the registered parser component
            body = reg.lam.body
            for a in list(body.args) + [kw.value for kw in body.keywords]:
                if isinstance(a, ast.Call):
                    pc = idx.resolve_class(reg.owner.mod, a.func)
                    if pc is not None and idx.find_method(pc, 'parser_type_name')[1] is not None:
                        out |= merged_type_names(rt, pc)
        else:
            raise AnalysisError('%s: type_name is assigned from %s - idiom not understood' % (k.mod.rel, ast.unparse(v)))
    cache[key] = out
    return out


def type_constants(rt, attr):
    """values returned by every `attr` property/method (extractor_type_name / parser_type_name) of the date-time package"""
    out = set()
    for m in rt.idx.mods.values():
        if not m.name.startswith(DT_PACKAGE):
            continue
        for c in m.classes.values():
            fn = c.methods.get(attr)
            if fn is None:
                continue
            rets = [n for n in ast.walk(fn) if isinstance(n, ast.Return) and n.value is not None]
            if not rets and any(isinstance(n, ast.Raise) for n in ast.walk(fn)):
                continue                                    # abstract
            if len(rets) == 1 and R.self_attr(rets[0].value):
                # the constant is stored on the instance: collect every constant assigned to that attribute
                stored = rets[0].value.attr
                for m2 in rt.idx.mods.values():
                    if m2.name.startswith(DT_PACKAGE) and stored in m2.src:
                        for n in ast.walk(m2.tree):
                            if isinstance(n, ast.Assign) and any(R.self_attr(t, stored) for t in n.targets) \
                                    and not R.is_none(n.value):
                                sv = rt.interp.ev(n.value, {}, m2, None, '%s self.%s' % (m2.rel, stored))
                                if isinstance(sv, str):
                                    out.add(sv)
                continue
            try:
                v = rt.interp.call(m, fn, [R.SelfVal()], None, c, '%s.%s' % (c.name, attr))
            except R.Crash:
                continue                                    # abstract: raise NotImplementedError
            if isinstance(v, str):
                out.add(v)
            elif v is not None:
                raise AnalysisError('%s %s.%s does not evaluate to a string' % (m.rel, c.name, attr))
    return out


_MERGED = {}


def merged_type_names(rt, pc):
    """type names a merged parser class writes: every `<x>.type = <expr over self.parser_type_name>` evaluated with each
    producible inner type substituted for the call that determines it"""
    if pc.qual in _MERGED:
        return _MERGED[pc.qual]
    idx = rt.idx
    kk, fn = idx.find_method(pc, 'parser_type_name')
    prefix = rt.interp.call(kk.mod, fn, [R.SelfVal()], None, kk, '%s.parser_type_name' % kk.name)
    inner = type_constants(rt, 'parser_type_name')
    HOLE = '§T§'
    out = set()
    n_templates = 0
    for k in idx.mro(pc):
        for f in k.methods.values():
            for n in ast.walk(f):
                if isinstance(n, ast.Assign) and any(isinstance(t, ast.Attribute) and t.attr == 'type' for t in n.targets) \
                        and any(R.self_attr(x, 'parser_type_name') for x in ast.walk(n.value)):
                    me = R.SelfVal(attrs={'parser_type_name': prefix})
                    try:
                        tmpl = rt.interp.ev(_HoleCalls(HOLE).visit(copy.deepcopy(n.value)), {'self': me}, k.mod, k,
                                            '%s.%s' % (k.name, f.name))
                    except R.Crash as e:
                        raise AnalysisError('%s %s.%s: type template cannot be evaluated (%s)' % (k.mod.rel, k.name, f.name, e))
                    if not isinstance(tmpl, str):
                        raise AnalysisError('%s %s.%s: type template is not a string' % (k.mod.rel, k.name, f.name))
                    n_templates += 1
                    for t in inner:
                        out.add(tmpl.replace(HOLE, t))
    if n_templates == 0:
        raise AnalysisError('%s: %s never writes a type derived from parser_type_name' % (pc.mod.rel, pc.name))
    _MERGED[pc.qual] = out
    return out


class _HoleCalls(ast.NodeTransformer):
    """self.<method>(...) -> the hole constant (its arguments are run-time values)"""

    def __init__(self, hole):
        self.hole = hole

    def visit_Call(self, n):
        if R.self_attr(n.func):
            return ast.Constant(value=self.hole)
        return self.generic_visit(n)


# =====================================================================================================
# date-time extractor / parser level: replay of create_extractor / create_parser
# =====================================================================================================

class Replay:
    def __init__(self, idx, mod):
        self.idx = idx
        self.mod = mod
        self.ctor_problems = []
        self.ctor_seen = {}
        gc = mod.funcs.get('get_class')
        if gc is None:
            raise AnalysisError('%s: get_class not found' % mod.rel)
        txt = ast.unparse(gc)
        if 'import_module' not in txt or 'getattr' not in txt or len(gc.args.args) != 2:
            raise AnalysisError('%s: get_class(module_name, class_name) no longer is import_module + getattr' % mod.rel)
        self.interp = R.Interp(idx, hooks={'get_class': self.get_class, 'get_option': lambda a, k: R.Opaque('option')},
                               on_instantiate=self.on_instantiate)

    def get_class(self, args, kwargs):
        if len(args) != 2 or kwargs or not all(isinstance(a, str) for a in args):
            raise AnalysisError('%s: get_class called with %r' % (self.mod.rel, args))
        m = self.idx.mods.get(args[0])
        if m is None:
            return None                      # ImportError -> None
        r = self.idx.resolve(m, args[1])
        if r is None:
            return None
        if r[0] == 'class':
            return R.ClassVal(r[1])
        return R.Opaque('%s.%s' % args)

    def on_instantiate(self, cls, args, kwargs, w):
        key = (cls.qual, len(args), tuple(sorted(kwargs)))
        if key in self.ctor_seen:
            return
        k, init = self.idx.find_method(cls, '__init__')
        pb = None
        if init is None:
            unresolved = any(len(self.idx.bases(c)) != len([b for b in c.node.bases]) for c in self.idx.mro(cls))
            if not unresolved and (args or kwargs):
                pb = '%s() takes no arguments, %d given' % (cls.name, len(args) + len(kwargs))
        else:
            a = init.args
            names = [x.arg for x in a.posonlyargs + a.args][1:]
            nreq = len(names) - len(a.defaults)
            if len(args) > len(names) and not a.vararg:
                pb = '%s.__init__ takes %d positional arguments, %d given' % (cls.name, len(names), len(args))
            else:
                missing = [n for n in names[len(args):max(nreq, len(args))] if n not in kwargs]
                if missing:
                    pb = '%s.__init__ misses required arguments %s' % (cls.name, missing)
                bad_kw = [q for q in kwargs if q not in names and q not in [x.arg for x in a.kwonlyargs] and not a.kwarg]
                if bad_kw:
                    pb = '%s.__init__ has no parameter %s' % (cls.name, bad_kw)
        self.ctor_seen[key] = (pb, init.lineno if init is not None else cls.node.lineno, k or cls)
        if pb:
            raise R.Crash('TypeError', pb)

    def run(self, fname, language, model, options):
        fn = self.mod.funcs.get(fname)
        if fn is None:
            raise AnalysisError('%s: %s not found' % (self.mod.rel, fname))
        return self.interp.call(self.mod, fn, [language, model, options], None, None, '%s %s' % (self.mod.rel, fname))


def is_abstract(fn):
    if any((isinstance(d, ast.Name) and d.id == 'abstractmethod') or (isinstance(d, ast.Attribute) and d.attr == 'abstractmethod')
           for d in fn.decorator_list):
        return True
    body = [st for st in fn.body if not (isinstance(st, ast.Expr) and isinstance(st.value, ast.Constant))]
    return all(isinstance(st, ast.Pass) or (isinstance(st, ast.Raise) and 'NotImplementedError' in ast.unparse(st)) for st in body)


def describe(v):
    if isinstance(v, R.InstVal):
        inner = ', '.join(describe(a) for a in v.args if isinstance(a, (R.InstVal, R.ClassVal)))
        return '%s(%s)' % (v.cls.name, inner)
    if isinstance(v, R.ClassVal):
        return v.cls.name
    return repr(v)


# =====================================================================================================
# spec corpus
# =====================================================================================================

class SpecFile:
    __slots__ = ('path', 'rec', 'lang', 'name', 'model', 'entity', 'options', 'total', 'supported', 'typenames',
                 'inner', 'types')

    def __init__(self):
        self.typenames, self.inner, self.types = {}, {}, {}


def scan_specs(runner):
    if not os.path.isdir(SPECS):
        raise AnalysisError('anchor vanished: %s' % SPECS)
    out, odd = [], []
    for p in sorted(glob.glob(os.path.join(SPECS, '**', '*.json'), recursive=True)):
        parts = os.path.relpath(p, SPECS).split(os.sep)
        if len(parts) != 3:
            odd.append(os.path.relpath(p, REPO))
            continue
        cfg = runner.config(os.path.splitext(parts[2])[0])
        if cfg is None:
            odd.append(os.path.relpath(p, REPO))
            continue
        try:
            cases = json.load(open(p, encoding='utf-8-sig'))
        except (ValueError, OSError) as e:
            raise AnalysisError('%s is not readable JSON (%s): the runner loads every spec at import time' % (os.path.relpath(p, REPO), e))
        if not isinstance(cases, list):
            raise AnalysisError('%s is not a list of cases' % os.path.relpath(p, REPO))
        sf = SpecFile()
        sf.path, sf.rec, sf.lang, sf.name = p, parts[0], parts[1], parts[2]
        sf.model, sf.entity, sf.options = cfg
        sf.total = len(cases)
        sf.supported = 0
        for c in cases:
            if not isinstance(c, dict) or not runner.supported(c):
                continue
            sf.supported += 1
            for r in c.get('Results') or []:
                if not isinstance(r, dict):
                    continue
                if isinstance(r.get('TypeName'), str):
                    sf.typenames[r['TypeName']] = sf.typenames.get(r['TypeName'], 0) + 1
                if isinstance(r.get('Type'), str):
                    sf.types[r['Type']] = sf.types.get(r['Type'], 0) + 1
                res = r.get('Resolution')
                if isinstance(res, dict):
                    for v in res.get('values') or []:
                        if isinstance(v, dict) and isinstance(v.get('type'), str):
                            sf.inner[v['type']] = sf.inner.get(v['type'], 0) + 1
        out.append(sf)
    return out, odd


# =====================================================================================================
# run
# =====================================================================================================

def run(chk):
    chk.explanation = ('handler exhaustiveness over the Specs corpus: file-name convention of Python/tests/runner.py, dispatch '
                       'tables of test_runner_*.py, registrations and routing (shared with C17), replay of create_extractor / '
                       'create_parser on the source index, producible type-name constants')
    R_ = lambda rid, desc, floor: chk.rule(rid, desc, floor=floor, control=True)
    R_('C19.consumer', 'every (recognizer, level) with supported cases in a runner culture is consumed by a test function', 5)
    R_('C19.model-function', 'the runner\'s dispatch table has the model key and it resolves to a library recognize_* function', 40)
    R_('C19.model-registered', 'a model is registered for the file\'s culture, or only the English fallback can serve it because '
                               'the library has no classes for that language and model', 40)
    R_('C19.handler', 'create_extractor / create_parser, re-played on the index, end in an extractor / parser instance', 100)
    R_('C19.ctor', 'every instantiation made by the replay fits the constructor\'s signature', 60)
    R_('C19.typename', 'every expected TypeName is one the serving model can produce', 40)
    R_('C19.inner-type', 'every expected inner resolution type is a parser type constant', 5)
    R_('C19.dt-type', 'every expected extractor / parser Type is a type constant of that level', 100)
    idx = get_index()
    rt = R.Routing(idx)
    rt.analyse()
    regs = R.registrations(rt)
    runner = Runner(idx, rt)
    chk.consulted(runner.mod.path)
    consumers, test_mods = find_consumers(idx)
    for m in test_mods:
        chk.consulted(m.path)
    specs, odd = scan_specs(runner)
    if len(specs) < 100:
        raise AnalysisError('only %d spec files found under %s' % (len(specs), SPECS))
    chk.assume('the test runner under Python/tests defines which handler a spec file addresses; NotSupported / '
               'NotSupportedByDesign markers containing "python" are the port\'s statement of non-support')
    state = {'chk': chk, 'rt': rt, 'regs': regs, 'runner': runner, 'consumers': consumers, 'idx': idx}
    stats = evaluate(state, specs, emit=True)
    if odd:
        chk.observe('C19 spec files outside the <Recognizer>/<Language>/<Model><Level>.json convention (the runner would '
                    'mis-read them): %s' % ', '.join(odd[:10]))
    chk.observe('C19 corpus: %d spec files, %d cases, %d supported for python; %d supported cases in %d files are addressed '
                'by the Python runner (languages in CULTURES, consumed levels)'
                % (len(specs), sum(s.total for s in specs), sum(s.supported for s in specs), stats['cases_run'], stats['files_run']))
    if stats['no_culture']:
        chk.observe('C19 supported cases in languages the runner does not map (never run): %s'
                    % ', '.join('%s=%d' % kv for kv in sorted(stats['no_culture'].items())))
    if stats['fallback']:
        chk.observe('C19 served only through the English fallback (no classes of that language for the model in the library): %s'
                    % '; '.join('%s/%s/%s (%d cases)' % f for f in stats['fallback']))
    if stats['unconsumed']:
        chk.observe('C19 supported cases at levels no Python test function consumes: %s'
                    % ', '.join('%s/%s=%d' % (k[0], k[1], v) for k, v in sorted(stats['unconsumed'].items())))
    if stats['options']:
        chk.observe('C19 option suffixes the runner does not translate (supported cases run with default options): %s'
                    % ', '.join('%s=%d' % kv for kv in sorted(stats['options'].items())))
    chk.extra['supported_cases'] = sum(s.supported for s in specs)
    chk.extra['supported_cases_run'] = stats['cases_run']
    chk.exhaustive = True
    controls(state, specs)


def option_names(mod):
    """option suffixes get_option translates (string literals inside `option in [...]` tests)"""
    fn = mod.funcs.get('get_option')
    if fn is None:
        return None
    out = set()
    for n in ast.walk(fn):
        if isinstance(n, ast.Compare) and any(isinstance(o, ast.In) for o in n.ops):
            for c in n.comparators:
                for x in ast.walk(c):
                    if isinstance(x, ast.Constant) and isinstance(x.value, str):
                        out.add(x.value)
    return out


def evaluate(st, specs, emit=True):
    chk, rt, regs, runner, consumers, idx = st['chk'], st['rt'], st['regs'], st['runner'], st['consumers'], st['idx']
    stats = {'cases_run': 0, 'files_run': 0, 'no_culture': {}, 'fallback': [], 'options': {}, 'unconsumed': {}}
    tn_cache = {}
    tables = {}
    chains = {}
    replays = {}
    ext_types = par_types = None
    seen_consumer = set()
    for sf in specs:
        if sf.supported == 0:
            continue
        if sf.lang not in runner.cultures:
            stats['no_culture'][sf.lang] = stats['no_culture'].get(sf.lang, 0) + sf.supported
            continue
        member, code = runner.cultures[sf.lang]
        cons = consumers.get((sf.rec, sf.entity))
        ck = (sf.rec, sf.entity)
        if ck not in seen_consumer:
            seen_consumer.add(ck)
            if cons:
                chk.ok('C19.consumer', cons[0].mod.path, '%s / %s' % ck, 'consumed by %s' % ', '.join(c.fn.name for c in cons), cons[0].fn.lineno)
            elif any(k[0] == sf.rec for k in consumers):
                chk.bad('C19.consumer', runner.mod.path, '%s / %s' % ck, 'no test function',
                        'spec files of recognizer %s, level %s claim Python support but no test_runner_*.py consumes them' % ck)
            else:
                chk.exempt('C19.consumer', runner.mod.path, '%s / %s' % ck,
                           'the Python runner has no module for this recognizer at all (Timex is tested by tests/datatypes)',
                           'no test function')
        if not cons:
            stats['unconsumed'][ck] = stats['unconsumed'].get(ck, 0) + sf.supported
            continue
        stats['cases_run'] += sf.supported
        stats['files_run'] += 1
        con = cons[0]
        construct = '%s/%s/%s' % (sf.rec, sf.lang, sf.name)
        if sf.entity == 'Model':
            if con.mod.name not in tables:
                tables[con.mod.name] = dispatch_table(con.mod)
            dname, table, nargs = tables[con.mod.name]
            v = table.get(sf.model)
            fnr = idx.resolve(con.mod, v.id) if isinstance(v, ast.Name) else None
            okf = fnr is not None and fnr[0] == 'func' and fnr[1].name.split('.')[0] != 'tests'
            if okf:
                # the runner's positional call must fit the function
                ps = R.params_of(fnr[2], method=False)
                nreq = len(ps) - len(fnr[2].args.defaults)
                okf = nreq <= nargs <= len(ps)
            chk.judge(okf, 'C19.model-function', con.mod.path, construct,
                      '%s[%r] -> %s' % (dname, sf.model, (fnr[1].name + '.' + fnr[2].name) if fnr and fnr[0] == 'func' else
                                        ('missing key' if v is None else ast.unparse(v) + ' (unresolved)')),
                      '%d supported case(s) address %s[%r], which %s' % (sf.supported, dname, sf.model,
                                                                        'does not exist' if v is None else
                                                                        'does not resolve to a library function callable with %d arguments' % nargs),
                      getattr(v, 'lineno', None))
            if not okf:
                continue
            fmod, fnode = fnr[1], fnr[2]
            if fnode not in chains:
                chains[fnode] = helper_chain(rt, fmod, fnode)
            rc, gk, gfn, fb_default = chains[fnode]
            try:
                name, cult, _ = R.getter_route(rt, gk, gfn, code)
                mapped = rt.map_culture(cult)
            except R.Crash as e:
                chk.bad('C19.model-registered', gk.mod.path, construct, 'routing raises %s' % e.kind,
                        'routing culture %r through %s.%s raises %s' % (code, rc.name, gfn.name, e), gfn.lineno)
                continue
            mine = [r for r in regs if r.rc is rc and r.name == name]
            own = [r for r in mine if rt.codes.get(r.member) == mapped]
            eng = [r for r in mine if r.member == 'English']
            serving = None
            if own:
                serving = own[0]
                chk.ok('C19.model-registered', serving.owner.mod.path, construct,
                       "%s '%s' registered for Culture.%s" % (rc.name, name, serving.member), serving.call.lineno)
            elif eng and fb_default is True:
                serving = eng[0]
                lang = rt.language_of_member(member)
                stem = (lang + sf.model).lower()
                pkg = rc.mod.name.split('.')[0]
                dead = sorted(c.name for c in idx.all_classes()
                              if c.mod.name.split('.')[0] == pkg and c.name.lower().startswith(stem))
                if dead:
                    chk.bad('C19.model-registered', rc.mod.path, construct,
                            "'%s' for %s only through the English fallback; unreached: %s" % (name, member, ', '.join(dead[:4])),
                            "%d supported case(s) for Culture.%s are answered by the English model although the library ships %s: "
                            "no '%s' registration reaches them" % (sf.supported, member, ', '.join(dead[:4]), name), rc.node.lineno)
                else:
                    chk.exempt('C19.model-registered', rc.mod.path, construct,
                               'English fallback by design: the library has no %s%s* classes' % (lang, sf.model),
                               "'%s' for %s only through the English fallback" % (name, member), rc.node.lineno)
                    stats['fallback'].append((sf.rec, sf.lang, sf.name, sf.supported))
            else:
                chk.bad('C19.model-registered', rc.mod.path, construct, "'%s' neither for %s nor for English" % (name, member),
                        "%d supported case(s): %s has no '%s' model for culture %r and none for English (ValueError)"
                        % (sf.supported, rc.name, name, mapped), rc.node.lineno)
            if serving is None:
                continue
            prod = producible_typenames(rt, serving, tn_cache)
            missing = sorted(t for t in sf.typenames if t not in prod)
            chk.judge(not missing, 'C19.typename', serving.owner.mod.path, construct,
                      'expects %s' % sorted(sf.typenames) if not missing else 'not producible: %s' % missing,
                      '%d result(s) expect TypeName %s, which %s cannot produce (it produces %s)'
                      % (sum(sf.typenames[t] for t in missing), missing, R.model_class_of(rt, serving).name, sorted(prod)[:12]),
                      serving.call.lineno)
            if sf.inner:
                if par_types is None:
                    par_types = type_constants(rt, 'parser_type_name')
                missing = sorted(t for t in sf.inner if t not in par_types)
                chk.judge(not missing, 'C19.inner-type', serving.owner.mod.path, construct,
                          'expects %s' % sorted(sf.inner) if not missing else 'not producible: %s' % missing,
                          'resolution values expect type %s, which no parser_type_name constant equals' % missing, serving.call.lineno)
            if sf.options and sf.options not in (option_names(con.mod) or set()):
                stats['options']['%s:%s' % (sf.rec, sf.options)] = stats['options'].get('%s:%s' % (sf.rec, sf.options), 0) + sf.supported
        else:
            # extractor / parser / merged-parser level: replay the create_* functions this test function calls
            if con.mod.name not in replays:
                replays[con.mod.name] = Replay(idx, con.mod)
            rp = replays[con.mod.name]
            creators = []
            for n in ast.walk(con.fn):
                if isinstance(n, ast.Call) and isinstance(n.func, ast.Name) and n.func.id.startswith('create_') \
                        and n.func.id in con.mod.funcs and n.func.id not in creators:
                    creators.append(n.func.id)
            if not creators:
                raise AnalysisError('%s %s builds its handler in a way the checker does not understand' % (con.mod.rel, con.fn.name))
            ok = True
            chain = []
            msg = ''
            results = {}
            for cname in creators:
                try:
                    v = rp.run(cname, sf.lang, sf.model, sf.options)
                except R.Crash as e:
                    ok = False
                    msg = '%s(%r, %r) raises %s' % (cname, sf.lang, sf.model, e)
                    chain.append('%s: %s' % (cname, e.kind))
                    continue
                if not isinstance(v, R.InstVal):
                    ok = False
                    msg = '%s(%r, %r) yields %r' % (cname, sf.lang, sf.model, v)
                    chain.append('%s: %r' % (cname, v))
                    continue
                need = 'extract' if 'extractor' in cname else 'parse'
                mfn = idx.find_method(v.cls, need)[1]
                if mfn is None or is_abstract(mfn):
                    ok = False
                    msg = '%s has no concrete %s()' % (v.cls.name, need)
                    chain.append('%s: no %s()' % (v.cls.name, need))
                    continue
                results[cname] = v
                chain.append(describe(v))
            chk.judge(ok, 'C19.handler', con.mod.path, construct, ' ; '.join(chain),
                      '%d supported case(s) but %s' % (sf.supported, msg), con.fn.lineno)
            if sf.types:
                if ext_types is None:
                    ext_types = type_constants(rt, 'extractor_type_name')
                    par_types = par_types or type_constants(rt, 'parser_type_name')
                if sf.entity == 'Extractor':
                    prod = ext_types
                elif sf.entity == 'MergedParser' and isinstance(results.get('create_parser'), R.InstVal) \
                        and idx.find_method(results['create_parser'].cls, 'parser_type_name')[1] is not None:
                    prod = merged_type_names(rt, results['create_parser'].cls)
                else:
                    prod = par_types
                missing = sorted(t for t in sf.types if t not in prod)
                chk.judge(not missing, 'C19.dt-type', con.mod.path, construct,
                          'expects %s' % sorted(sf.types) if not missing else 'not producible: %s' % missing,
                          '%d result(s) expect Type %s, which no %s type constant equals'
                          % (sum(sf.types[t] for t in missing), missing, sf.entity.lower()), con.fn.lineno)
            if sf.options and sf.options not in (option_names(con.mod) or set()):
                stats['options']['%s:%s' % (sf.rec, sf.options)] = stats['options'].get('%s:%s' % (sf.rec, sf.options), 0) + sf.supported
    for rp in replays.values():
        for (qual, nargs, kws), (pb, line, k) in sorted(rp.ctor_seen.items()):
            chk.judge(pb is None, 'C19.ctor', k.mod.path, '%s(%d positional%s)' % (qual.rsplit('.', 1)[1], nargs,
                                                                              ''.join(', ' + q for q in kws)),
                      'fits __init__' if pb is None else pb, 'the runner\'s construction convention fails: %s' % pb, line)
    return stats


# =====================================================================================================
# positive controls
# =====================================================================================================

def controls(st, specs):
    """the same evaluation on a handful of fabricated spec files that no handler can serve"""
    from ..core import Check
    chk = st['chk']
    sc = Check(chk.pid)
    sc.rules = {rid: dict(r, n=0) for rid, r in chk.rules.items()}

    def fake(rec, lang, name, model, entity, typenames=None, inner=None, types=None):
        sf = SpecFile()
        sf.path = os.path.join(SPECS, rec, lang, name)
        sf.rec, sf.lang, sf.name, sf.model, sf.entity, sf.options = rec, lang, name, model, entity, ''
        sf.total = sf.supported = 1
        sf.typenames, sf.inner, sf.types = typenames or {}, inner or {}, types or {}
        return sf
    fakes = [
        fake('Number', 'English', 'NoSuchModel.json', 'NoSuch', 'Model'),                       # dispatch key missing
        fake('Number', 'English', 'NumberModel.json', 'Number', 'Model', {'no-such-type': 1}),  # type name
        fake('DateTime', 'English', 'DateTimeModel.json', 'DateTime', 'Model', {'datetimeV2.date': 1}, {'no-such-type': 1}),
        fake('DateTime', 'English', 'NoSuchExtractor.json', 'NoSuch', 'Extractor', None, None, {'no-such-type': 1}),
        fake('Number', 'English', 'NumberExtractor.json', 'Number', 'Extractor'),               # no consumer
    ]
    st2 = dict(st, chk=sc)
    evaluate(st2, fakes, emit=False)
    fired = {i.rule for i in sc.insts if i.verdict == 'violation'}
    # registration removed: the English-only view of the registration table must flag a culture that has classes
    regs = st['regs']
    fr = next((s for s in specs if s.supported and s.entity == 'Model' and s.lang == 'French' and s.rec == 'Number'), None)
    if fr is not None:
        sc2 = Check(chk.pid)
        sc2.rules = {rid: dict(r, n=0) for rid, r in chk.rules.items()}
        st3 = dict(st, chk=sc2, regs=[r for r in regs if r.member != 'French'])
        evaluate(st3, [fr], emit=False)
        fired |= {i.rule for i in sc2.insts if i.verdict == 'violation'}
    # constructor arity: a replayed instantiation with a surplus argument
    dt = next((c[0] for k, c in st['consumers'].items() if k[1] == 'Extractor'), None)
    if dt is not None:
        rp = Replay(st['idx'], dt.mod)
        some = next((c for c in st['idx'].all_classes() if c.mod.name.startswith(DT_PACKAGE) and '__init__' in c.methods
                     and not c.methods['__init__'].args.vararg and not c.methods['__init__'].args.kwarg), None)
        if some is not None:
            n = len(some.methods['__init__'].args.args) + 3
            try:
                rp.on_instantiate(some, [None] * n, {}, 'control')
            except R.Crash:
                fired.add('C19.ctor')
    for rid in chk.rules:
        chk.control(rid, rid in fired)


# =====================================================================================================
# C19.reskeys (lead): vocabulary agreement for the resolution fields the Specs expect
# =====================================================================================================
# The resolution of an entity is a dict; a field the Specs expect can only come out if some statement of the serving package
# writes that key (dict literal, subscript store, dict(...) keyword - keys evaluated through the index, so
# TimeTypeConstants.START counts as 'start').  Decided for the fields the Python runner compares (the port's own statement
# of what it supports); other expected fields that no statement writes are listed as observations (feature gaps of the
# port that its runner does not look at), never as violations.

RESKEY_PKG = {'Number': 'recognizers_number', 'NumberWithUnit': 'recognizers_number_with_unit', 'DateTime': 'recognizers_date_time',
              'Sequence': 'recognizers_sequence', 'Choice': 'recognizers_choice'}
# fields compared by Python/tests/test_runner_*.py (checked against the test modules' string literals below)
RESKEY_COMPARED = {'Number': ('test_runner_number', ['value']),
                   'NumberWithUnit': ('test_runner_number_with_unit', ['value', 'unit', 'isoCurrency']),
                   'DateTime': ('test_runner_datetime', ['values', 'timex', 'type', 'value', 'start', 'end', 'Mod']),
                   'Sequence': ('test_runner_sequence', ['value', 'score']),
                   'Choice': ('test_runner_choice', ['value'])}


def written_keys(idx, pkgs):
    """{key: first (Mod, lineno)} over dict-literal keys, subscript stores and dict(...) keywords in non-resource modules"""
    from .c07 import NOVAL, make_evalc
    out = {}
    # helpers that store under a key they receive: {function name: [argument positions (self excluded)]}
    key_params = {}
    for m in idx.mods.values():
        if m.name.split('.')[0] not in pkgs | {'recognizers_text'} or '.resources.' in m.name:
            continue
        for _mm, _c, fn in idx.functions(m):
            params = [a.arg for a in fn.args.args]
            if params and params[0] in ('self', 'cls'):
                params = params[1:]
            for n in ast.walk(fn):
                if isinstance(n, ast.Subscript) and isinstance(n.ctx, ast.Store) and isinstance(n.slice, ast.Name) \
                        and n.slice.id in params:
                    key_params.setdefault(fn.name.lstrip('_'), set()).add(params.index(n.slice.id))
    for m in idx.mods.values():
        if m.name.split('.')[0] not in pkgs or '.resources.' in m.name:
            continue
        ev = make_evalc(idx, m)
        cands = []
        for n in ast.walk(m.tree):
            if isinstance(n, ast.Call):
                fname = n.func.attr if isinstance(n.func, ast.Attribute) else n.func.id if isinstance(n.func, ast.Name) else ''
                for pos in key_params.get(fname.lstrip('_'), ()):
                    if pos < len(n.args):
                        cands.append(n.args[pos])
                if fname == 'dict' and n.args and isinstance(n.args[0], (ast.List, ast.Tuple)):
                    for e in n.args[0].elts:
                        if isinstance(e, ast.Tuple) and len(e.elts) == 2:
                            cands.append(e.elts[0])
        for n in ast.walk(m.tree):
            if isinstance(n, ast.Dict):
                cands.extend(k for k in n.keys if k is not None)
            elif isinstance(n, (ast.Assign, ast.AugAssign, ast.AnnAssign)):
                tg = n.targets if isinstance(n, ast.Assign) else [n.target]
                for t in tg:
                    for s in ast.walk(t):
                        if isinstance(s, ast.Subscript) and isinstance(s.ctx, ast.Store) and not isinstance(s.slice, ast.Slice):
                            cands.append(s.slice)
            elif isinstance(n, ast.Call):
                if isinstance(n.func, ast.Name) and n.func.id == 'dict':
                    for kw in n.keywords:
                        if kw.arg:
                            out.setdefault(kw.arg, (m, n.lineno))
                if isinstance(n.func, ast.Attribute) and n.func.attr in ('setdefault', 'update') and n.args:
                    cands.append(n.args[0])
        for k in cands:
            v = ev(k)
            if isinstance(v, str):
                out.setdefault(v, (m, k.lineno))
            elif isinstance(k, ast.JoinedStr) or isinstance(k, ast.BinOp):
                # composed keys (key_name + 'Am'): record the constant fragments so that a reader can see them; not a match
                pass
    return out


def rule_reskeys(chk, idx, runner):
    rid = 'C19.reskeys'
    chk.rule(rid, 'every resolution field the runner compares and the supported Specs expect is a key some statement of the '
                  'serving package writes', floor=12, control=True)
    text_keys = written_keys(idx, {'recognizers_text'})
    ctl = written_keys(idx, {'recognizers_choice'})
    chk.control(rid, 'value' in ctl and 'isoCurrency' not in ctl)
    for rec in sorted(RESKEY_PKG):
        pkg = RESKEY_PKG[rec]
        tmod_name, compared = RESKEY_COMPARED[rec]
        tpath = os.path.join(TESTS, tmod_name + '.py')
        if not os.path.isfile(tpath):
            raise AnalysisError('anchor vanished: %s' % os.path.relpath(tpath, REPO))
        tsrc = ast.parse(open(tpath, encoding='utf-8').read())
        lits = {n.value for n in ast.walk(tsrc) if isinstance(n, ast.Constant) and isinstance(n.value, str)}
        for k in compared:
            if k not in lits:
                raise AnalysisError('%s no longer mentions the resolution field %r: the table of compared fields is stale'
                                    % (os.path.relpath(tpath, REPO), k))
        keys = dict(text_keys)
        keys.update(written_keys(idx, {pkg}))
        expected = {}
        files = 0
        for p in sorted(glob.glob(os.path.join(SPECS, rec, '*', '*Model*.json'))):
            try:
                cases = json.load(open(p, encoding='utf-8-sig'))
            except (ValueError, OSError) as e:
                raise AnalysisError('%s unreadable: %s' % (os.path.relpath(p, REPO), e))
            files += 1
            for c in cases:
                if not isinstance(c, dict) or not runner.supported(c):
                    continue
                for r in c.get('Results') or []:
                    res = r.get('Resolution') if isinstance(r, dict) else None
                    if not isinstance(res, dict):
                        continue
                    for k, v in res.items():
                        expected[k] = expected.get(k, 0) + 1
                        if k == 'values' and isinstance(v, list):
                            for d in v:
                                if isinstance(d, dict):
                                    for kk in d:
                                        expected[kk] = expected.get(kk, 0) + 1
        if not files or not expected:
            raise AnalysisError('no model-level Specs with resolutions found for %s' % rec)
        gaps = []
        for k in sorted(expected):
            if k in compared:
                w = keys.get(k)
                chk.judge(w is not None, rid, os.path.join(SPECS, rec), '%s resolution field %r' % (rec, k),
                          'written by %s' % (w[0].name if w else '-'),
                          'the supported %s Specs expect the resolution field %r in %d values and the Python runner compares it, '
                          'but no statement of %s (or recognizers_text) writes a key of that name: the field can never come out'
                          % (rec, k, expected[k], pkg))
            elif k not in keys:
                gaps.append('%s (%d)' % (k, expected[k]))
        if gaps:
            chk.observe('C19.reskeys: %s Specs expect fields that no statement of %s writes and that the Python runner does not '
                        'compare (feature gaps of the port, not decided): %s' % (rec, pkg, ', '.join(gaps)))


_run_before_reskeys = run


def run(chk):       # noqa: F811
    _run_before_reskeys(chk)
    idx = get_index()
    rt = R.Routing(idx)
    rt.analyse()
    rule_reskeys(chk, idx, Runner(idx, rt))


# =====================================================================================================
# C19.config-attrs (lead): interface agreement between readers of self.config and the configuration classes
# =====================================================================================================
# A base extractor / parser reads `self.config.<attr>`; the language packages supply concrete configuration classes.  An
# attribute one of them lacks is an AttributeError when that line runs; the models swallow it, so the entity (or every entity
# of the query) silently disappears - for the language with the hole only, which no shared test notices.  Pairs are formed
# from (a) the annotation of the reader's `config` parameter / class-level `config:` annotation -> every concrete subclass of
# the annotated type, and (b) `self.config = K(...)` / `Base.__init__(self, K(...))` in the reader's own constructor.
# Reads are collected over the reader's MRO (first definition of each method wins).

CONFIG_ATTR_EXEMPT = {
    # (reader class, attribute): reason - each triaged against the real code
    ('BaseDatePeriodParser', 'written_decades'): 'decade parsing (__parse_decade) is an unfinished port: the function also uses '
                                                 '.NET match objects; "the 1990s" yields a daterange without resolution and the '
                                                 'Specs cases are marked NotSupported for python',
    ('BaseDatePeriodParser', 'special_decade_cases'): 'same unfinished __parse_decade',
    ('BaseDatePeriodParser', 'numbers'): 'same unfinished __parse_decade',
    ('BaseDatePeriodParser', 'integer_extractor'): 'same unfinished __parse_decade',
    ('BaseDatePeriodParser', 'number_parser'): 'same unfinished __parse_decade',
    ('BaseTimeZoneExtractor', 'ambiguous_time_zone_list'): 'remove_ambiguous_time_zone runs only under the option-gated '
                                                           'time-zone extraction, which the Python models never enable',
    ('ChineseDateTimePeriodParser', 'next_regex'): 'unreachable: the identical exact-match test a few lines above returns on '
                                                  'every path, so the second test of specific_time_of_day_regex never holds',
    ('ChineseDateTimePeriodParser', 'last_regex'): 'unreachable, same block as next_regex',
}
# methods that nothing calls (copied from a sibling class): reads inside them are not judged
CONFIG_DEAD_METHODS = {
    ('PortugueseTimeParser', 'parse_specific_time_of_day'): 'copy of the date-time-period parser\'s method; BaseTimeParser never '
                                                            'calls it and nothing else references it',
}


def _cfg_defined(idx, c):
    out = set()
    for k in idx.mro(c):
        out |= set(k.attrs)
        for name, fn in k.methods.items():
            # an abstract declaration (or a body that only raises NotImplementedError) defines nothing
            if any((isinstance(d, ast.Name) and d.id == 'abstractmethod') or (isinstance(d, ast.Attribute) and d.attr == 'abstractmethod')
                   for d in fn.decorator_list):
                continue
            body = [st for st in fn.body if not (isinstance(st, ast.Expr) and isinstance(st.value, ast.Constant))]
            if len(body) == 1 and isinstance(body[0], ast.Raise) and 'NotImplementedError' in ast.dump(body[0]):
                continue
            out.add(name)
        for st in k.node.body:
            if isinstance(st, ast.AnnAssign) and isinstance(st.target, ast.Name) and (st.value is not None or not _cfg_abstract(k)):
                out.add(st.target.id)
        for fn in k.methods.values():
            for n in ast.walk(fn):
                if isinstance(n, ast.Attribute) and isinstance(n.ctx, ast.Store) and isinstance(n.value, ast.Name) \
                        and n.value.id == 'self':
                    out.add(n.attr)
    return out


def _cfg_abstract(c):
    for fn in c.methods.values():
        for d in fn.decorator_list:
            if (isinstance(d, ast.Name) and d.id == 'abstractmethod') or (isinstance(d, ast.Attribute) and d.attr == 'abstractmethod'):
                return True
    return False


def _cfg_open(idx, c):
    """a class with a base the index cannot resolve (other than object / ABC / Generic) may inherit anything: not judged"""
    for k in idx.mro(c):
        for b in k.node.bases:
            nm = b.id if isinstance(b, ast.Name) else b.attr if isinstance(b, ast.Attribute) else \
                (b.value.id if isinstance(b, ast.Subscript) and isinstance(b.value, ast.Name) else '?')
            if nm in ('object', 'ABC', 'Generic', 'Protocol'):
                continue
            if idx.resolve_class(k.mod, b) is None:
                return True
    return False


def _stores_param(idx, r):
    """does r's constructor keep its first parameter as self.config (directly or by handing it to a base constructor)?"""
    _k, init = idx.find_method(r, '__init__')
    if init is None:
        return False
    ps = [a.arg for a in init.args.args if a.arg not in ('self', 'cls')]
    if not ps:
        return False
    p = ps[0]
    for n in ast.walk(init):
        if isinstance(n, ast.Assign) and isinstance(n.value, ast.Name) and n.value.id == p and any(
                isinstance(t, ast.Attribute) and t.attr in ('config', '_config') for t in n.targets):
            return True
        if isinstance(n, ast.Call) and isinstance(n.func, ast.Attribute) and n.func.attr == '__init__' and any(
                isinstance(a, ast.Name) and a.id == p for a in n.args):
            return True
    return False


def config_pairs(idx):
    """[(reader Cls, config Cls, how)] from the construction sites of the program: `R(K(...))` anywhere (the language
    packages wire readers this way), and `self.config = K(...)` / `Base.__init__(self, K(...))` in a reader's constructor.
    Parameter annotations are NOT used: PortugueseTimeParser annotates a configuration type it is never given."""
    pairs = []
    for m in idx.mods.values():
        if not m.name.startswith('recognizers_') or '.resources.' in m.name:
            continue
        for n in ast.walk(m.tree):
            if not (isinstance(n, ast.Call) and n.args and isinstance(n.args[0], ast.Call)):
                continue
            r = idx.resolve_class(m, n.func)
            k = idx.resolve_class(m, n.args[0].func)
            if r is None or k is None or 'onfig' not in k.name or 'onfig' in r.name:
                continue
            if not _stores_param(idx, r):
                continue        # e.g. BooleanExtractor builds its own ChoiceExtractorConfiguration from the argument
            pairs.append((r, k, 'constructed at %s:%d' % (m.name, n.lineno)))
    for c in idx.all_classes():
        if not c.mod.name.startswith('recognizers_') or '.resources.' in c.mod.name:
            continue
        init = c.methods.get('__init__')
        if init is None:
            continue
        for n in ast.walk(init):
            val = None
            if isinstance(n, ast.Assign) and any(isinstance(t, ast.Attribute) and t.attr in ('config', '_config')
                                                and isinstance(t.value, ast.Name) and t.value.id == 'self' for t in n.targets):
                val = n.value
            elif isinstance(n, ast.Call) and isinstance(n.func, ast.Attribute) and n.func.attr == '__init__':
                for a in n.args:
                    if isinstance(a, ast.Call):
                        k = idx.resolve_class(c.mod, a.func)
                        if k is not None and 'onfig' in k.name:
                            pairs.append((c, k, 'constructed in %s.__init__' % c.name))
            if isinstance(val, ast.Call):
                k = idx.resolve_class(c.mod, val.func)
                if k is not None:
                    pairs.append((c, k, 'constructed in %s.__init__' % c.name))
    return pairs


_EXTERNAL_REFS = {}


def _external_refs(idx):
    """{attribute name: set of class quals in whose bodies it is referenced} over the whole program"""
    if not _EXTERNAL_REFS:
        for m in idx.mods.values():
            if not m.name.startswith('recognizers_') or '.resources.' in m.name:
                continue
            for cname, c in m.classes.items():
                for n in ast.walk(c.node):
                    if isinstance(n, ast.Attribute) and isinstance(n.ctx, ast.Load):
                        v = n.value
                        if (isinstance(v, ast.Name) and v.id in ('self', 'cls')) or (
                                isinstance(v, ast.Call) and isinstance(v.func, ast.Name) and v.func.id == 'super'):
                            continue        # a class's reference to its own method says nothing about other hierarchies
                        _EXTERNAL_REFS.setdefault(n.attr, set()).add(c.qual)
            for fn in m.funcs.values():
                for n in ast.walk(fn):
                    if isinstance(n, ast.Attribute) and isinstance(n.ctx, ast.Load):
                        _EXTERNAL_REFS.setdefault(n.attr, set()).add(m.name)
    return _EXTERNAL_REFS


def reachable_methods(idx, c):
    """[(owner Cls, fn)] of the methods an instance of c can execute: entry points are extract / parse / properties and any
    method whose name is referenced outside c's own class hierarchy; closure over self.<m>, super().<m> and Base.<m>(self)"""
    mro = idx.mro(c)
    family = {k.qual for k in mro}
    refs = _external_refs(idx)
    names = {}
    for k in mro:
        for name, fn in k.methods.items():
            names.setdefault(name, (k, fn))
    work, seen, out = [], set(), []

    def push(owner, fn):
        if id(fn) not in seen:
            seen.add(id(fn))
            work.append((owner, fn))
            out.append((owner, fn))
    for name, (k, fn) in names.items():
        if name in ('extract', 'parse', '__init__') or any(isinstance(d, ast.Name) and d.id == 'property' for d in fn.decorator_list) \
                or (refs.get(name, set()) - family):
            push(k, fn)
    while work:
        owner, fn = work.pop()
        for n in ast.walk(fn):
            if not isinstance(n, ast.Attribute) or not isinstance(n.ctx, ast.Load):
                continue
            v = n.value
            if isinstance(v, ast.Name) and v.id in ('self', 'cls') and n.attr in names:
                push(*names[n.attr])
            elif isinstance(v, ast.Call) and isinstance(v.func, ast.Name) and v.func.id == 'super':
                for k in idx.mro(owner)[1:]:
                    if n.attr in k.methods:
                        push(k, k.methods[n.attr])
                        break
            elif isinstance(v, ast.Name):
                bk = idx.resolve_class(owner.mod, v)
                if bk is not None and bk in mro:
                    kk, f2 = idx.find_method(bk, n.attr)
                    if f2 is not None:
                        push(kk, f2)
    return out


def config_reads(idx, c):
    """{attr: (Cls, lineno)} for self.config.<attr> loads in the methods an instance of c can execute"""
    reads = {}
    for k, fn in reachable_methods(idx, c):
        if (k.name, fn.name) in CONFIG_DEAD_METHODS:
            continue
        for n in ast.walk(fn):
            if isinstance(n, ast.Attribute) and isinstance(n.ctx, ast.Load) and isinstance(n.value, ast.Attribute) \
                    and n.value.attr in ('config', '_config') and isinstance(n.value.value, ast.Name) and n.value.value.id == 'self':
                reads.setdefault(n.attr, (k, n.lineno))
    return reads


def rule_config_attrs(chk, idx):
    rid = 'C19.config-attrs'
    chk.rule(rid, 'every attribute a reader takes from self.config is defined by every concrete configuration class it can be '
                  'given', floor=500, control=True)
    pairs = config_pairs(idx)
    done = set()
    n_open = 0
    groups = {}
    for r, k, how in pairs:
        if (r.qual, k.qual) in done:
            continue
        done.add((r.qual, k.qual))
        if _cfg_open(idx, k):
            n_open += 1
            continue
        have = _cfg_defined(idx, k)
        for attr, (owner, ln) in sorted(config_reads(idx, r).items()):
            key = (owner.name, attr)
            g = groups.setdefault((owner, attr, ln), {'ok': 0, 'missing': []})
            if attr in have:
                g['ok'] += 1
            else:
                g['missing'].append(k)
    used_exempt = set()
    for (owner, attr, ln), g in sorted(groups.items(), key=lambda kv: (kv[0][0].qual, kv[0][1])):
        chk.consulted(owner.mod.path)
        construct = '%s reads self.config.%s' % (owner.name, attr)
        miss = sorted({k.name for k in g['missing']})
        if not miss:
            chk.ok(rid, owner.mod.path, construct, 'defined by all %d configuration classes' % g['ok'], ln)
        elif (owner.name, attr) in CONFIG_ATTR_EXEMPT:
            used_exempt.add((owner.name, attr))
            chk.exempt(rid, owner.mod.path, construct, CONFIG_ATTR_EXEMPT[(owner.name, attr)],
                       'missing in %d of %d' % (len(miss), len(miss) + g['ok']), ln)
        else:
            chk.bad(rid, owner.mod.path, construct, 'missing in: ' + ', '.join(miss),
                    '%s.%s is read at line %d but %s do(es) not define it (no property, method, class attribute or self.%s '
                    'assignment in the MRO): AttributeError when that line runs with that configuration - swallowed by the '
                    'model, so entities of that language silently disappear' % ('self.config', attr, ln, ', '.join(miss), attr), ln)
    for (cn, mn), why in sorted(CONFIG_DEAD_METHODS.items()):
        refs = 0
        for m in idx.mods.values():
            if m.name.startswith('recognizers_') and '.resources.' not in m.name:
                refs += sum(1 for n in ast.walk(m.tree) if isinstance(n, ast.Attribute) and n.attr == mn and isinstance(n.ctx, ast.Load))
        c0 = idx.cls(cn)
        bases_have = any(mn in kk.methods for kk in idx.mro(c0)[1:])
        construct = '%s.%s (reads not judged)' % (cn, mn)
        # references elsewhere are to same-named methods of other classes; what matters is that no base class of this one
        # declares or calls the method
        base_calls = any(isinstance(n, ast.Attribute) and n.attr == mn for kk in idx.mro(c0)[1:] for f in kk.methods.values()
                         for n in ast.walk(f))
        if bases_have or base_calls:
            chk.bad(rid, c0.mod.path, construct, 'now referenced by a base class',
                    '%s.%s was exempted as dead code but a base class now defines or calls it: its self.config reads must be '
                    'judged' % (cn, mn), c0.methods[mn].lineno if mn in c0.methods else None)
        elif mn in c0.methods:
            chk.exempt(rid, c0.mod.path, construct, why, '%d same-named references elsewhere' % refs, c0.methods[mn].lineno)
    stale = set(CONFIG_ATTR_EXEMPT) - used_exempt
    if stale:
        chk.observe('C19.config-attrs: exemptions no longer needed (now defined everywhere or reader gone): %s'
                    % ', '.join('%s.%s' % e for e in sorted(stale)))
    chk.observe('C19.config-attrs: %d (reader, configuration) pairs, %d skipped because the configuration has a base class '
                'outside the index' % (len(done), n_open))
    # control: a reader/config pair with a hole
    ctl_src = ('class K:\n    def __init__(self):\n        self.a = 1\n'
               'class R:\n    def __init__(self, config: K):\n        self.config = config\n'
               '    def f(self):\n        return self.config.a + self.config.b\n')
    t = ast.parse(ctl_src)
    kdef = {n.attr for n in ast.walk(t.body[0]) if isinstance(n, ast.Attribute) and isinstance(n.ctx, ast.Store)}
    rreads = {n.attr for n in ast.walk(t.body[1]) if isinstance(n, ast.Attribute) and isinstance(n.ctx, ast.Load)
              and isinstance(n.value, ast.Attribute) and n.value.attr == 'config'}
    chk.control(rid, rreads - kdef == {'b'})


_run_before_cfgattrs = run


def run(chk):       # noqa: F811
    _run_before_cfgattrs(chk)
    rule_config_attrs(chk, get_index())


# ---------------------------------------------------------------------------------------------------------------
# C19.merge-precedence (lead): when two sub-extractors of the merged date-time extractor report the SAME span, the Specs show the
# reading of the one that ran first ('feb 30' -> date, not the date range '0030-02'; fr '16h' -> time, not the duration PT16H;
# nl 'morgen' -> date, not the time range TMO; 'in the mornings' -> time range, not set).  add_to (with ExtractResult.overlap /
# cover it calls) is interpreted by sa/ointerp.py on an accepted entity and a new one of equal span, alone and with a disjoint
# neighbour on either side: exactly the accepted one must survive.

PRECEDENCE_CONTROL = '''
def add_to(self, destinations, source, text):
    for value in source:
        kept = [d for d in destinations if not (d.start == value.start and d.length == value.length)]
        destinations[:] = kept
        destinations.append(value)
    return destinations
'''


def rule_merge_precedence(chk, idx):
    from ..ointerp import FuncRef, Interp, Obj, PyExc
    rid = 'C19.merge-precedence'
    chk.rule(rid, 'of two sub-extractor results with the same span the merged extractor keeps the one that was accepted first '
                  '(the Specs show the earlier sub-extractor\'s reading)', floor=2, control=True)
    er_cls = idx.cls('recognizers_text.extractor.ExtractResult')
    text = 'abcdefghij'

    def mk(s, e, typ):
        o = Obj(er_cls, {})
        o.attrs.update({'start': s, 'length': e - s + 1, 'text': text[s:e + 1], 'type': typ, 'data': None, 'meta_data': None})
        return o

    def run_one(mod, fn, owner, cls_for_self, layout):
        it = Interp(idx, where='add_to (equal spans)', budget=200000)
        accepted = [mk(s, e, t) for s, e, t in layout]
        new = mk(3, 5, 'second')
        selfo = Obj(cls_for_self, {'options': 0})
        if owner is None:
            out = it.call_function(FuncRef(mod, fn, None), [selfo, accepted, [new], text], {})
        else:
            out = it.call_function(FuncRef(mod, fn, owner), [accepted, [new], text], {}, None, selfobj=selfo)
        if not isinstance(out, list):
            raise AnalysisError('add_to does not return the list of accepted entities')
        return sorted((o.attrs.get('start'), o.attrs.get('length'), o.attrs.get('type')) for o in out)
    layouts = {'alone': [(3, 5, 'first')],
               'after a disjoint entity': [(0, 1, 'other'), (3, 5, 'first')],
               'before a disjoint entity': [(3, 5, 'first'), (7, 9, 'other')],
               'between two': [(7, 9, 'other'), (3, 5, 'first'), (0, 1, 'other2')]}
    seen = set()
    for cname in ('recognizers_date_time.date_time.base_merged.BaseMergedExtractor',
                  'recognizers_date_time.date_time.chinese.merged_extractor.ChineseMergedExtractor'):
        c = idx.cls(cname)
        k, fn = idx.find_method(c, 'add_to') if c is not None else (None, None)
        if fn is None:
            raise AnalysisError('anchor vanished: %s.add_to' % cname)
        if (k.name, fn.lineno) in seen:
            continue
        seen.add((k.name, fn.lineno))
        chk.consulted(k.mod.path)
        chk.consulted(er_cls.mod.path)
        for name, layout in layouts.items():
            try:
                got = run_one(k.mod, fn, k, c, layout)
                want = sorted((s, e - s + 1, t) for s, e, t in layout)
                ok = got == want
                what = 'result %s' % (got,)
            except PyExc as ex:
                ok, what = False, 'raises %s' % ex
            chk.judge(ok, rid, k.mod.path, '%s.add_to[new entity equals an accepted one, %s]' % (k.name, name),
                      'the accepted entity stays' if ok else 'the accepted entity does not stay',
                      '%s.add_to: accepted %s + new (3, 3, \'second\') of the same span: %s - the entity accepted first must survive '
                      'unchanged and the new one be dropped (Specs: \'feb 30\' is a date, not the date range 0030-02)'
                      % (k.name, [(s, e - s + 1, t) for s, e, t in layout], what), fn.lineno)
    ctl = ast.parse(PRECEDENCE_CONTROL).body[0]
    base = idx.cls('recognizers_date_time.date_time.base_merged.BaseMergedExtractor')
    try:
        got = run_one(base.mod, ctl, None, base, layouts['alone'])
    except PyExc:
        got = None
    chk.control(rid, got == [(3, 3, 'second')])


_run_before_precedence = run


def run(chk):       # noqa: F811
    _run_before_precedence(chk)
    rule_merge_precedence(chk, get_index())
